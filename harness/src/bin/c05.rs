//! C05 — components. Families (checkers in coq/Corr/CorrC05.v):
//!   bind  : the context a component body sees (`{{ __tera_context | probe }}`) for a signature x
//!           attribute list x body, through a call site or through Tera::render_component
//!   iso   : what names resolve to in the caller's state and in the callee's state
//!   prio  : the component table under fallback prefixes, several registration orders
//!   depth : nesting paths of component calls and includes around the recursion limit
//!   apieq : render_component vs the equivalent call site (same text)
//!   shape : compiled call sites (Capture .. EndCapture .. RenderBodyComponent in the caller's chunk)
//! Oracles: isolation (caller-only names are undefined in the callee), body rendered in the
//! caller's scope and escaping mode / result not escaped again (wrapped vs inlined render),
//! registration-order independence, unbounded recursion ends with an error value in a child
//! process.
use serde_json::json;
use std::time::{Duration, Instant};
use tera::value::Key;
use tera::verif::{VInstr, chunk_listings};
use tera::{Context, Delimiters, Map, Tera, Value};
use tvh::*;

// ------------------------------------------------------------------ Gallina printing

const TYPES: [&str; 8] = ["string", "bool", "integer", "float", "number", "array", "map", "bytes"];

fn gal_type(t: &str) -> String {
    let mut c = t.chars();
    let f = c.next().unwrap().to_ascii_uppercase();
    format!("T{f}{}", c.as_str())
}

#[derive(Clone)]
struct Param {
    name: String,
    declared: Option<&'static str>,
    /// source literal of the default
    default_src: Option<&'static str>,
    /// what the engine parsed it to (filled after registration)
    default_val: Option<Value>,
    /// the engine's arg_type
    engine_type: Option<String>,
}

fn gal_param(p: &Param) -> String {
    format!(
        "{{| p_name := {}; p_declared := {}; p_default := {} |}}",
        gal_str(&p.name),
        gal_opt(&p.declared, |t| gal_type(t)),
        gal_opt(&p.default_val, gal_value)
    )
}

#[derive(Clone)]
enum Attr {
    /// name={var} / name="lit" / shorthand: the value the expression evaluates to
    Kv(String, Value, AttrForm),
    Spread(Value),
}
#[derive(Clone, Copy, PartialEq)]
enum AttrForm {
    Expr,
    Lit,
    Shorthand,
}

fn gal_attr(a: &Attr) -> String {
    match a {
        Attr::Kv(k, v, _) => format!("(AKv {} {})", gal_str(k), gal_value(v)),
        Attr::Spread(v) => format!("(ASpread {})", gal_value(v)),
    }
}

fn gal_list(parts: Vec<String>) -> String {
    format!("[{}]", parts.join("; "))
}

fn gal_ctx(c: &[(String, Value)]) -> String {
    gal_list(c.iter().map(|(k, v)| format!("({}, {})", gal_str(k), gal_value(v))).collect())
}

fn json_ctx(c: &[(String, Value)]) -> serde_json::Value {
    json!(c.iter().map(|(k, v)| json!([k, json_value(v)])).collect::<Vec<_>>())
}

fn map_entries(v: &Value) -> Vec<(String, Value)> {
    let mut out: Vec<(String, Value)> = v
        .as_map()
        .map(|m| m.iter().map(|(k, x)| (k.as_str().unwrap_or("?nonstring").to_string(), x.clone())).collect())
        .unwrap_or_default();
    out.sort_by(|a, b| a.0.cmp(&b.0));
    out
}

fn gal_res_bool(r: &Outcome<bool>) -> String {
    r.gal(|b| gal_bool(*b).to_string())
}

// ------------------------------------------------------------------ signatures

const DEFAULTS: [&str; 12] =
    ["\"dflt\"", "\"<d>&\"", "\"\"", "true", "false", "7", "0", "1.5", "none", "[1, \"x\"]", "{\"k\": 1}", "[]"];

fn param_src(p: &Param) -> String {
    let mut s = p.name.clone();
    if let Some(t) = p.declared {
        s.push_str(": ");
        s.push_str(t);
    }
    if let Some(d) = p.default_src {
        s.push_str(" = ");
        s.push_str(d);
    }
    s
}

fn signature_src(params: &[Param], rest: &Option<String>) -> String {
    let mut parts: Vec<String> = params.iter().map(param_src).collect();
    if let Some(r) = rest {
        parts.push(format!("...{r}"));
    }
    parts.join(", ")
}

/// Registers `comp.html` holding component `C(<signature>)` with the given body; fills in what
/// the engine parsed (defaults, types).
fn register_component(tera: &mut Tera, params: &mut [Param], rest: &Option<String>, body: &str) -> Result<(), tera::Error> {
    let src = format!("{{% component C({}) %}}{}{{% endcomponent C %}}", signature_src(params, rest), body);
    tera.add_raw_template("comp.html", &src)?;
    let info = tera.get_component_definition("C").expect("component registered");
    for p in params.iter_mut() {
        let a = info.args().iter().find(|a| a.name() == p.name).expect("arg");
        p.default_val = a.default().cloned();
        p.engine_type = a.arg_type().map(|t| t.as_str().to_string());
    }
    Ok(())
}

// ------------------------------------------------------------------ bind

struct BindCase {
    params: Vec<Param>,
    rest: Option<String>,
    attrs: Vec<Attr>,
    body: Option<String>,
    api: bool,
    depth: usize,
    autoescape: bool,
}

/// The call-site source and the caller's context realising `attrs`.
fn call_site(attrs: &[Attr], body: &Option<String>, ctx: &mut Context, prefix: &str) -> String {
    let (s, binds) = call_site_binds(attrs, body, prefix);
    for (k, v) in binds {
        ctx.insert_value(k, v);
    }
    s
}

/// The same, returning the bindings the caller's context needs.
fn call_site_binds(attrs: &[Attr], body: &Option<String>, prefix: &str) -> (String, Vec<(String, Value)>) {
    let mut binds: Vec<(String, Value)> = Vec::new();
    let mut ins = |k: String, v: Value| {
        binds.retain(|(x, _)| *x != k);
        binds.push((k, v));
    };
    let mut s = String::from("<C");
    for (i, a) in attrs.iter().enumerate() {
        match a {
            Attr::Kv(k, v, AttrForm::Expr) => {
                let var = format!("{prefix}v{i}");
                if !v.is_undefined() {
                    ins(var.clone(), v.clone());
                }
                s.push_str(&format!(" {k}={{{var}}}"));
            }
            Attr::Kv(k, v, AttrForm::Lit) => {
                s.push_str(&format!(" {k}=\"{}\"", v.as_str().expect("literal attribute is a string")));
            }
            Attr::Kv(k, v, AttrForm::Shorthand) => {
                if !v.is_undefined() {
                    ins(k.clone(), v.clone());
                }
                s.push_str(&format!(" {k}"));
            }
            Attr::Spread(v) => {
                let var = format!("{prefix}m{i}");
                if !v.is_undefined() {
                    ins(var.clone(), v.clone());
                }
                s.push_str(&format!(" {{...{var}}}"));
            }
        }
    }
    let src = match body {
        None => format!("{{{{ {s} /> }}}}"),
        Some(b) => format!("{{% {s}> %}}{b}{{% </C> %}}"),
    };
    (src, binds)
}

fn run_bind(c: &mut BindCase) -> Outcome<Vec<(String, Value)>> {
    let mut tera = Tera::default();
    register_probe(&mut tera);
    if let Err(e) = register_component(&mut tera, &mut c.params, &c.rest, "{{ __tera_context | probe }}") {
        return Outcome::Err("register".into(), format!("{e}"));
    }
    take_probe();
    let r = if c.api {
        let mut ctx = Context::new();
        for a in &c.attrs {
            if let Attr::Kv(k, v, _) = a {
                ctx.insert_value(k.clone(), v.clone());
            }
        }
        guarded(|| tera.render_component("C", &ctx, c.body.as_deref(), c.autoescape))
    } else if c.depth == 0 {
        let mut ctx = Context::new();
        let src = call_site(&c.attrs, &c.body, &mut ctx, "zz");
        guarded(|| tera.render_str(&src, &ctx, c.autoescape))
    } else {
        // a chain of `depth` wrapper components; the innermost holds the call site (literal
        // attributes only, so nothing has to be passed down)
        let mut ctx = Context::new();
        let site = call_site(&c.attrs, &c.body, &mut ctx, "zz");
        let mut src = String::new();
        for i in 1..=c.depth {
            let inner = if i == c.depth { site.clone() } else { format!("{{{{ <W{} /> }}}}", i + 1) };
            src.push_str(&format!("{{% component W{i}() %}}{inner}{{% endcomponent W{i} %}}"));
        }
        if let Err(e) = tera.add_raw_template("wrappers.html", &src) {
            return Outcome::Err("register".into(), format!("{e}"));
        }
        guarded(|| tera.render_str("{{ <W1 /> }}", &ctx, c.autoescape))
    };
    match r {
        Outcome::Ok(_) => match take_probe().pop() {
            Some(v) => Outcome::Ok(map_entries(&v)),
            None => Outcome::Err("noprobe".into(), "component body did not run".into()),
        },
        Outcome::Err(a, b) => Outcome::Err(a, b),
        Outcome::Panic(m) => Outcome::Panic(m),
    }
}

fn push_bind(sink: &mut Sink, meta: &mut Meta, mut c: BindCase) {
    let r = run_bind(&mut c);
    if matches!(&r, Outcome::Err(k, _) if k == "register" || k == "noprobe") {
        // the generator wrote something the engine does not accept as a definition: machinery
        meta.oracle_fail("generator produced an unregistrable case", None, json!({"sig": signature_src(&c.params, &c.rest), "err": r.json(|x| json_ctx(x))}));
        return;
    }
    let types = gal_list(c.params.iter().map(|p| gal_opt(&p.engine_type, |t| gal_type(t))).collect());
    let g = format!(
        "{{| b_params := {}; b_rest := {}; b_types := {}; b_attrs := {}; b_body := {}; b_api := {}; b_depth := {}%nat; b_impl := {} |}}",
        gal_list(c.params.iter().map(gal_param).collect()),
        gal_opt(&c.rest, |r| gal_str(r)),
        types,
        gal_list(c.attrs.iter().map(gal_attr).collect()),
        gal_opt(&c.body, |b| gal_str(b)),
        gal_bool(c.api),
        c.depth,
        r.gal(|x| gal_ctx(x))
    );
    let attrs_json: Vec<serde_json::Value> = c
        .attrs
        .iter()
        .map(|a| match a {
            Attr::Kv(k, v, f) => json!({"key": k, "value": json_value(v), "form": match f { AttrForm::Expr => "expr", AttrForm::Lit => "literal", AttrForm::Shorthand => "shorthand" }}),
            Attr::Spread(v) => json!({"spread": json_value(v)}),
        })
        .collect();
    let desc = json!({"signature": signature_src(&c.params, &c.rest), "attrs": attrs_json, "body": c.body, "via": if c.api { "render_component" } else { "call site" },
        "caller_depth": c.depth, "impl": r.json(|x| json_ctx(x))});
    meta.oracle_checks += 1;
    if let Outcome::Panic(m) = &r {
        meta.oracle_fail(&format!("panic: {m}"), None, desc.clone());
    }
    let nontrivial = !c.params.is_empty() && !c.attrs.is_empty();
    let t_res = match &r { Outcome::Ok(_) => "impl:ok", Outcome::Err(k, _) if k == "render" => "impl:err-render", Outcome::Err(..) => "impl:err-msg", Outcome::Panic(_) => "impl:panic" };
    let t_via = if c.api { "via:api" } else if c.body.is_some() { "via:body-call" } else { "via:inline-call" };
    let mut tags = vec![t_res, t_via];
    if c.rest.is_some() { tags.push("sig:rest"); }
    if c.params.iter().any(|p| p.declared.is_some()) { tags.push("sig:typed"); }
    if c.params.iter().any(|p| p.default_src.is_some()) { tags.push("sig:default"); }
    if c.attrs.iter().any(|a| matches!(a, Attr::Spread(_))) { tags.push("attr:spread"); }
    if c.attrs.iter().any(|a| matches!(a, Attr::Kv(_, _, AttrForm::Shorthand))) { tags.push("attr:shorthand"); }
    if c.depth > 0 { tags.push("caller:nested"); }
    sink.push(g, desc, nontrivial, None, &tags);
}

fn mk_param(name: &str, declared: Option<&'static str>, default_src: Option<&'static str>) -> Param {
    Param { name: name.to_string(), declared, default_src, default_val: None, engine_type: None }
}

fn spread_maps() -> Vec<Value> {
    let mk = |ents: Vec<(Key<'static>, Value)>| {
        let mut m = Map::new();
        for (k, v) in ents {
            m.insert(k, v);
        }
        Value::from(m)
    };
    vec![
        mk(vec![]),
        mk(vec![("a".into(), Value::from("sa"))]),
        mk(vec![("a".into(), Value::from(5u64)), ("b".into(), Value::from("sb"))]),
        mk(vec![("b".into(), Value::from(true)), ("extra".into(), Value::from("se"))]),
        mk(vec![("a".into(), Value::from("sa")), ("b".into(), Value::from("sb")), ("c".into(), Value::from(1.5f64)), ("zeta".into(), Value::from(vec![Value::from(1u64)]))]),
        mk(vec![("body".into(), Value::from("spread-body"))]),
        mk(vec![("rest".into(), Value::from("spread-rest")), ("a".into(), Value::none())]),
        // non-string keys are dropped by the call machinery
        mk(vec![(Key::U64(5), Value::from("five")), ("a".into(), Value::from("sa2"))]),
        mk(vec![(Key::Bool(true), Value::from("yes")), (Key::I64(-2), Value::from("neg"))]),
        Value::from(3u64),
        Value::none(),
        Value::from("notamap"),
        Value::undefined(),
    ]
}

fn random_sig(rng: &mut Rng) -> (Vec<Param>, Option<String>) {
    let names = ["a", "b", "c"];
    let n = match rng.below(10) { 0 => 0, 1..=3 => 1, 4..=7 => 2, _ => 3 };
    let mut params = Vec::new();
    for name in names.iter().take(n) {
        let declared = if rng.chance(1, 2) { None } else { Some(*rng.pick(&TYPES[..])) };
        let default = if rng.chance(1, 2) { None } else { Some(*rng.pick(&DEFAULTS[..])) };
        params.push(mk_param(name, declared, default));
    }
    let rest = match rng.below(5) { 0 | 1 => Some("rest".to_string()), 2 => Some("zextra".to_string()), _ => None };
    (params, rest)
}

fn random_attrs(rng: &mut Rng, params: &[Param], kinds: &[Value], spreads: &[Value], api: bool) -> Vec<Attr> {
    let mut attrs = Vec::new();
    let pick_val = |rng: &mut Rng, p: Option<&Param>| -> Value {
        // bias towards a value of the right kind so that multi-parameter cases get through
        if let Some(p) = p {
            if rng.chance(4, 5) {
                let want = p.declared.or(match p.default_src {
                    Some(d) if d.starts_with('"') => Some("string"),
                    Some("true") | Some("false") => Some("bool"),
                    Some("7") | Some("0") => Some("integer"),
                    Some("1.5") => Some("float"),
                    Some(d) if d.starts_with('[') => Some("array"),
                    Some(d) if d.starts_with('{') => Some("map"),
                    _ => None,
                });
                let good: Vec<&Value> = kinds
                    .iter()
                    .filter(|v| match want {
                        Some("string") => v.is_string(),
                        Some("bool") => v.is_bool(),
                        Some("integer") => v.is_number() && v.as_f64().is_none() || v.as_i128().is_some() || v.as_u128().is_some(),
                        Some("float") => v.as_f64().is_some() && v.as_i128().is_none() && v.as_u128().is_none(),
                        Some("number") => v.is_number(),
                        Some("array") => v.is_array(),
                        Some("map") => v.is_map(),
                        Some("bytes") => v.is_bytes(),
                        _ => true,
                    })
                    .collect();
                if !good.is_empty() {
                    return (*rng.pick(&good)).clone();
                }
            }
        }
        rng.pick(kinds).clone()
    };
    for p in params {
        // a parameter without a default is mostly supplied, so that several-parameter calls get through
        let roll = rng.below(10);
        let roll = if roll <= 2 && p.default_src.is_none() && rng.chance(2, 3) { 5 } else { roll };
        match roll {
            0..=2 => {}
            3..=7 => attrs.push(Attr::Kv(p.name.clone(), pick_val(rng, Some(p)), AttrForm::Expr)),
            8 => attrs.push(Attr::Kv(p.name.clone(), Value::from(*rng.pick(&["lit", "<l>&", ""])), AttrForm::Lit)),
            _ => attrs.push(Attr::Kv(p.name.clone(), pick_val(rng, Some(p)), if api { AttrForm::Expr } else { AttrForm::Shorthand })),
        }
    }
    // undeclared keys
    for extra in ["extra", "zeta", "body", "c", "rest"] {
        if rng.chance(1, 9) && !attrs.iter().any(|a| matches!(a, Attr::Kv(k, _, _) if k == extra)) {
            attrs.push(Attr::Kv(extra.to_string(), pick_val(rng, None), AttrForm::Expr));
        }
    }
    if !api {
        // spreads, duplicates (rightmost wins), order shuffles
        let ns = match rng.below(8) { 0..=4 => 0, 5 | 6 => 1, _ => 2 };
        for _ in 0..ns {
            let at = rng.below(attrs.len() + 1);
            attrs.insert(at, Attr::Spread(rng.pick(spreads).clone()));
        }
        if rng.chance(1, 10) && !params.is_empty() {
            let p = rng.pick(params);
            let at = rng.below(attrs.len() + 1);
            attrs.insert(at, Attr::Kv(p.name.clone(), pick_val(rng, Some(p)), AttrForm::Expr));
        }
    } else if rng.chance(1, 2) {
        attrs.reverse();
    }
    attrs
}

// ------------------------------------------------------------------ iso

fn run_iso(iso: &mut Sink, meta: &mut Meta, rng: &mut Rng) {
    // names that may live in each scope; the same name in several scopes exercises the order
    let pool = ["cv", "sv", "lv", "gv", "pv", "plv", "iv", "s", "a", "b", "body", "rest", "nope"];
    let val = |scope: &str, name: &str| Value::from(format!("{scope}:{name}"));
    let pick_names = |rng: &mut Rng, own: &str| -> Vec<String> {
        let mut v = vec![own.to_string()];
        for n in ["s", "a", "b", "body", "rest"] {
            if rng.chance(1, 4) {
                v.push(n.to_string());
            }
        }
        v
    };
    // where the call site stands: main template, included template, a block of a child
    // template, the body of another component
    let shape = match rng.below(8) { 0..=2 => 0, 3..=5 => 1, 6 => 2, _ => 3 };
    let with_include = shape == 1;
    let in_block = shape == 2;
    let in_comp = shape == 3;
    let in_loop = rng.chance(2, 3);
    let ctx_names = pick_names(rng, "cv");
    let glob_names = pick_names(rng, "gv");
    let set_names = pick_names(rng, if with_include { "iv" } else { "sv" });
    let loop_names: Vec<String> = if in_loop { vec![if rng.chance(1, 5) { "s".to_string() } else { "lv".to_string() }] } else { vec![] };
    let loop_set_names: Vec<String> = if in_loop && rng.chance(1, 2) { pick_names(rng, "lsv") } else { vec![] };
    let parent_set_names = if with_include { pick_names(rng, "pv") } else { vec![] };
    let parent_loop = with_include && rng.chance(1, 2);

    let (mut params, rest) = {
        let mut ps = Vec::new();
        if rng.chance(2, 3) { ps.push(mk_param("a", None, if rng.chance(1, 2) { Some("\"dflt\"") } else { None })); }
        if rng.chance(1, 3) { ps.push(mk_param("s", None, Some("\"sdef\""))); }
        (ps, if rng.chance(1, 3) { Some("rest".to_string()) } else { None })
    };
    let mut attrs = Vec::new();
    if params.iter().any(|p| p.name == "a") && rng.chance(3, 4) {
        // the argument may be one of the caller's own variables
        attrs.push(Attr::Kv("a".into(), val("arg", "a"), if in_comp { AttrForm::Lit } else { AttrForm::Expr }));
    }
    if rest.is_some() && rng.chance(1, 2) {
        attrs.push(Attr::Kv("cv".into(), val("arg", "cv"), if in_comp { AttrForm::Lit } else { AttrForm::Expr }));
    }
    let body = if rng.chance(1, 3) { Some("BODY".to_string()) } else { None };

    let probes: Vec<String> = pool.iter().map(|s| s.to_string()).chain(["lsv".to_string(), "bsv".to_string()]).collect();
    let probe_src: String = probes.iter().map(|n| format!("{{{{ {n} | probe }}}}")).collect();

    let mut tera = Tera::default();
    register_probe(&mut tera);
    let comp_body = format!("{probe_src}{{% include \"pinc\" %}}");
    if tera.add_raw_template("pinc", &probe_src).is_err() { return; }
    if register_component(&mut tera, &mut params, &rest, &comp_body).is_err() {
        meta.oracle_fail("generator produced an unregistrable iso case", None, json!({"sig": signature_src(&params, &rest)}));
        return;
    }
    let mut ctx_m: Vec<(String, Value)> = Vec::new();
    for n in &ctx_names { ctx_m.push((n.clone(), val("ctx", n))); }
    for n in &glob_names { tera.global_context().insert_value(n.clone(), val("glob", n)); }
    ctx_m.push(("larr".into(), Value::from(vec![val("loop", loop_names.first().map(|s| s.as_str()).unwrap_or("-"))])));
    ctx_m.push(("parr".into(), Value::from(vec![val("ploop", "plv")])));
    let (site, binds) = call_site_binds(&attrs, &body, "zz");
    ctx_m.extend(binds);
    let mut ctx = Context::new();
    for (k, v) in &ctx_m { ctx.insert_value(k.clone(), v.clone()); }
    let sets = |names: &[String], scope: &str| -> String { names.iter().map(|n| format!("{{% set {n} = \"{scope}:{n}\" %}}")).collect() };
    let scope_name = if with_include { "iset" } else { "set" };
    let mut inner = format!("{probe_src}{site}");
    if in_loop {
        let over = if in_comp { format!("[\"loop:{}\"]", loop_names[0]) } else { "larr".to_string() };
        inner = format!("{{% for {} in {over} %}}{}{}{{% endfor %}}", loop_names[0], sets(&loop_set_names, "lset"), inner);
    }
    let caller_src = format!("{}{}", sets(&set_names, scope_name), inner);
    let main_src = if with_include {
        let inc = format!("{{% include \"inc\" %}}");
        let wrapped = if parent_loop { format!("{{% for plv in parr %}}{inc}{{% endfor %}}") } else { inc };
        format!("{}{}", sets(&parent_set_names, "pset"), wrapped)
    } else if in_block {
        format!("{{% extends \"base\" %}}{{% block b %}}{caller_src}{{% endblock %}}")
    } else if in_comp {
        "{% set msv = \"mset:msv\" %}{% for s in parr %}{{ <Outer /> }}{% endfor %}".to_string()
    } else {
        caller_src.clone()
    };
    let mut tpls = vec![("main".to_string(), main_src.clone())];
    if with_include { tpls.push(("inc".to_string(), caller_src.clone())); }
    if in_block { tpls.push(("base".to_string(), "{% set bsv = \"bset:bsv\" %}[{% block b %}{% endblock %}]".to_string())); }
    if in_comp { tpls.push(("outer.html".to_string(), format!("{{% component Outer() %}}{caller_src}{{% endcomponent Outer %}}"))); }
    if let Err(e) = tera.add_raw_templates(tpls) {
        meta.oracle_fail("generator produced an unregistrable iso template", None, json!({"main": main_src, "err": format!("{e}")}));
        return;
    }
    take_probe();
    let r = guarded(|| tera.render("main", &ctx));
    let probed = take_probe();
    let np = probes.len();
    // caller probes always run (they precede the call); the callee's run when the call succeeds
    let caller: Vec<Value> = probed.iter().take(np).cloned().collect();
    if caller.len() != np {
        meta.oracle_fail("iso: caller probes did not run", None, json!({"main": main_src, "inc": caller_src, "r": r.json(|s| json!(s))}));
        return;
    }
    let callee: Outcome<Vec<Value>> = match &r {
        Outcome::Ok(_) => Outcome::Ok(probed.iter().skip(np).cloned().collect()),
        Outcome::Err(a, b) => Outcome::Err(a.clone(), b.clone()),
        Outcome::Panic(m) => Outcome::Panic(m.clone()),
    };
    // model-side description of the caller's state
    let mk = |names: &[String], scope: &str| -> Vec<(String, Value)> { names.iter().map(|n| (n.clone(), val(scope, n))).collect() };
    let mut loops: Vec<Vec<(String, Value)>> = Vec::new();
    if in_loop {
        let mut l = vec![(loop_names[0].clone(), val("loop", &loop_names[0]))];
        // `set` inside the loop writes into the loop's own scope, replacing the loop variable if
        // it has the same name
        for (k, v) in mk(&loop_set_names, "lset") {
            l.retain(|(x, _)| *x != k);
            l.push((k, v));
        }
        loops.push(l);
    }
    let mut sets_m = mk(&set_names, scope_name);
    if in_block { sets_m.push(("bsv".to_string(), val("bset", "bsv"))); }
    // a caller that is itself a component body has only its own (empty) context: no caller
    // context, no global context
    let (ctx_m, glob_names): (Vec<(String, Value)>, Vec<String>) = if in_comp { (Vec::new(), Vec::new()) } else { (ctx_m, glob_names) };
    let parent = if with_include {
        let pl: Vec<Vec<(String, Value)>> = if parent_loop { vec![vec![("plv".to_string(), val("ploop", "plv"))]] } else { vec![] };
        Some((pl, mk(&parent_set_names, "pset")))
    } else { None };
    let glob_m = mk(&glob_names, "glob");
    let gal_loops = |ls: &Vec<Vec<(String, Value)>>| gal_list(ls.iter().map(|l| gal_ctx(l)).collect());
    let g = format!(
        "{{| i_loops := {}; i_sets := {}; i_parent := {}; i_context := {}; i_global := {}; i_params := {}; i_rest := {}; i_attrs := {}; i_body := {}; i_probes := {}; i_caller := {}; i_callee := {} |}}",
        gal_loops(&loops), gal_ctx(&sets_m),
        gal_opt(&parent, |(pl, ps)| format!("({}, {})", gal_loops(pl), gal_ctx(ps))),
        gal_ctx(&ctx_m), gal_ctx(&glob_m),
        gal_list(params.iter().map(gal_param).collect()), gal_opt(&rest, |r| gal_str(r)),
        gal_list(attrs.iter().map(gal_attr).collect()), gal_opt(&body, |b| gal_str(b)),
        gal_list(probes.iter().map(|p| gal_str(p)).collect()),
        gal_list(caller.iter().map(gal_value).collect()),
        callee.gal(|v| gal_list(v.iter().map(gal_value).collect()))
    );
    let desc = json!({"main": main_src, "inc": if with_include { json!(caller_src) } else { json!(null) }, "component": format!("C({})", signature_src(&params, &rest)),
        "probes": probes, "caller_sees": caller.iter().map(json_value).collect::<Vec<_>>(),
        "callee_sees": callee.json(|v| json!(v.iter().map(json_value).collect::<Vec<_>>()))});
    // oracle (independent of the model): a name that is not a parameter, the rest name or `body`
    // is undefined in the component body and in a template included from it
    meta.oracle_checks += 1;
    if let Outcome::Ok(vs) = &callee {
        for (i, v) in vs.iter().enumerate() {
            let n = &probes[i % np];
            let own = params.iter().any(|p| &p.name == n) || rest.as_deref() == Some(n.as_str()) || (n == "body" && body.is_some());
            if !own && !v.is_undefined() {
                meta.oracle_fail(&format!("isolation: `{n}` is visible inside the component"), None, desc.clone());
            }
        }
        if vs.len() != 2 * np {
            meta.oracle_fail("iso: callee probes incomplete", None, desc.clone());
        }
    }
    if callee.is_panic() { meta.oracle_fail("panic", None, desc.clone()); }
    let visible_in_caller = caller.iter().filter(|v| !v.is_undefined()).count();
    let tags = [["caller:main", "caller:include", "caller:block", "caller:component"][shape], if in_loop { "caller:in-loop" } else { "caller:no-loop" }];
    iso.push(g, desc, visible_in_caller >= 3, None, &tags);
}

// ------------------------------------------------------------------ prio

fn run_prio(prio: &mut Sink, meta: &mut Meta, rng: &mut Rng, fixed: Option<(Vec<&str>, Vec<(&str, Vec<&str>)>)>) {
    let prefix_pool = ["themes/a/", "themes/b/", "t/", "themes/", "zz/"];
    let tpl_pool = ["comp.html", "zcomp.html", "themes/a/c.html", "themes/a/d.html", "themes/b/c.html", "t/x.html", "themes/c.html", "a.html", "zz/q.html", "themes/a/sub/e.html"];
    let comp_pool = ["Btn", "Card", "ui.x"];
    let (prefixes, tpls): (Vec<String>, Vec<(String, Vec<String>)>) = match fixed {
        Some((p, t)) => (p.iter().map(|s| s.to_string()).collect(), t.iter().map(|(n, cs)| (n.to_string(), cs.iter().map(|c| c.to_string()).collect())).collect()),
        None => {
            let mut prefixes: Vec<String> = Vec::new();
            let np = match rng.below(8) { 0 => 0, 1..=3 => 1, 4..=6 => 2, _ => 3 };
            for _ in 0..np {
                let p = rng.pick(&prefix_pool[..]).to_string();
                if !prefixes.contains(&p) { prefixes.push(p); }
            }
            let mut tpls: Vec<(String, Vec<String>)> = Vec::new();
            for _ in 0..(2 + rng.below(4)) {
                let n = rng.pick(&tpl_pool[..]).to_string();
                if tpls.iter().any(|(m, _)| *m == n) { continue; }
                let mut cs: Vec<String> = comp_pool.iter().filter(|_| rng.chance(2, 5)).map(|c| c.to_string()).collect();
                if cs.is_empty() && rng.chance(1, 2) { cs.push("Btn".to_string()); }
                tpls.push((n, cs));
            }
            (prefixes, tpls)
        }
    };
    // every template that defines a name also CALLS it, so that a call site is observed inside
    // each defining template, at every priority; `inc_<i>` includes template i
    let mut sources: Vec<(String, String)> = tpls
        .iter()
        .map(|(n, cs)| {
            let defs: String = cs.iter().map(|c| format!("{{% component {c}() %}}{c}@{n}{{% endcomponent %}}")).collect();
            let calls: String = cs.iter().map(|c| format!("|{c}={{{{ <{c} /> }}}}")).collect();
            (n.clone(), format!("{defs}{calls}"))
        })
        .collect();
    let n_def = sources.len();
    for (i, (n, _)) in tpls.iter().enumerate() {
        sources.push((format!("inc_{i}"), format!("{{% include \"{n}\" %}}")));
    }
    type Sites = Vec<(String, String, String, String)>;
    type Obs = (Vec<(String, String)>, Sites, Vec<(String, String)>);
    // "|Btn=Btn@comp.html|Card=Card@x" -> the defining template each call ran
    let parse_calls = |out: &str| -> Vec<(String, String)> {
        out.split('|').skip(1).filter_map(|part| {
            let (c, text) = part.split_once('=')?;
            let (_, tpl) = text.split_once('@')?;
            Some((c.to_string(), tpl.to_string()))
        }).collect()
    };
    let observe = |order: &[usize]| -> Outcome<Obs> {
        let mut tera = Tera::default();
        if let Err(e) = tera.set_fallback_prefixes(prefixes.clone()) { return Outcome::Err("setup".into(), format!("{e}")); }
        let batch: Vec<(String, String)> = order.iter().map(|&i| sources[i].clone()).collect();
        let r = guarded(|| tera.add_raw_templates(batch));
        match r {
            Outcome::Ok(()) => {
                let mut out = Vec::new();
                for c in comp_pool {
                    if tera.get_component_definition(c).is_none() { continue; }
                    let api = guarded(|| tera.render_component(c, &Context::new(), None, false));
                    let site = guarded(|| tera.render_str(&format!("{{{{ <{c} /> }}}}"), &Context::new(), false));
                    match (&api, &site) {
                        (Outcome::Ok(a), Outcome::Ok(s)) if a == s => {
                            let (_, tpl) = a.split_once('@').unwrap_or(("", "?"));
                            out.push((c.to_string(), tpl.to_string()));
                        }
                        _ => return Outcome::Err("differ".into(), format!("{c}: api {:?} vs call site {:?}", api, site)),
                    }
                }
                out.sort();
                // call sites inside each defining template: rendered directly and through an include
                let mut sites: Sites = Vec::new();
                for (i, (tn, cs)) in tpls.iter().enumerate() {
                    if cs.is_empty() { continue; }
                    let direct = guarded(|| tera.render(tn, &Context::new()));
                    let incl = guarded(|| tera.render(&format!("inc_{i}"), &Context::new()));
                    let (Outcome::Ok(d), Outcome::Ok(inc)) = (&direct, &incl) else {
                        return Outcome::Err("siterender".into(), format!("{tn}: {:?} / {:?}", direct, incl));
                    };
                    let (d, inc) = (parse_calls(d), parse_calls(inc));
                    if d.len() != cs.len() || inc.len() != cs.len() {
                        return Outcome::Err("siterender".into(), format!("{tn}: unparsable call output"));
                    }
                    for (k, c) in cs.iter().enumerate() {
                        if d[k].0 != *c || inc[k].0 != *c { return Outcome::Err("siterender".into(), format!("{tn}: call order")); }
                        sites.push((tn.clone(), c.clone(), d[k].1.clone(), inc[k].1.clone()));
                    }
                }
                // a one-off template with its own definition of the name: the global table wins when it has it
                let mut oneoff = Vec::new();
                for c in comp_pool {
                    let src = format!("{{% component {c}() %}}{c}@__local{{% endcomponent %}}|{c}={{{{ <{c} /> }}}}");
                    match guarded(|| tera.render_str(&src, &Context::new(), false)) {
                        Outcome::Ok(o) => match parse_calls(&o).pop() {
                            Some((_, tpl)) => oneoff.push((c.to_string(), tpl)),
                            None => return Outcome::Err("siterender".into(), format!("one-off {c}: {o}")),
                        },
                        other => return Outcome::Err("siterender".into(), format!("one-off {c}: {:?}", other)),
                    }
                }
                Outcome::Ok((out, sites, oneoff))
            }
            Outcome::Err(a, b) => Outcome::Err(a, b),
            Outcome::Panic(m) => Outcome::Panic(m),
        }
    };
    let n = sources.len();
    let fwd: Vec<usize> = (0..n).collect();
    let r = observe(&fwd);
    // other registration orders must give the same table / the same rejection
    let mut orders: Vec<Vec<usize>> = vec![fwd.iter().rev().cloned().collect()];
    for _ in 0..2 {
        let mut o = fwd.clone();
        for i in (1..n).rev() { o.swap(i, rng.below(i + 1)); }
        orders.push(o);
    }
    let desc = json!({"prefixes": prefixes, "templates": tpls.iter().map(|(n, cs)| json!([n, cs])).collect::<Vec<_>>(),
        "sources": sources.iter().take(n_def).map(|(n, s)| json!([n, s])).collect::<Vec<_>>(),
        "impl": r.json(|(t, sites, oneoff)| json!({"table": t, "call_sites_in_defining_templates(template,name,direct,included)": sites, "one_off_with_local_definition": oneoff}))});
    // oracle (independent of the model): a call written inside a defining template runs what
    // render_component runs for that name
    if let Outcome::Ok((t, sites, _)) = &r {
        for (tn, c, d, inc) in sites {
            meta.oracle_checks += 1;
            let want = t.iter().find(|(x, _)| x == c).map(|(_, y)| y.as_str());
            if want != Some(d.as_str()) || want != Some(inc.as_str()) {
                meta.oracle_fail("a call site inside a template that defines the name does not run the highest-priority definition", None,
                    json!({"case": desc, "template": tn, "component": c, "render_component_runs": want, "direct_render_runs": d, "included_render_runs": inc}));
            }
        }
    }
    for o in &orders {
        meta.oracle_checks += 1;
        let r2 = observe(o);
        let same = match (&r, &r2) { (Outcome::Ok(a), Outcome::Ok(b)) => a == b, (Outcome::Err(a, _), Outcome::Err(b, _)) => a == b, _ => false };
        if !same {
            meta.oracle_fail("component table depends on the registration order", None, json!({"case": desc, "order": o, "other": r2.json(|(t, _, _)| json!(t))}));
        }
    }
    if matches!(&r, Outcome::Err(k, _) if k == "differ" || k == "setup" || k == "siterender") || r.is_panic() {
        meta.oracle_fail("prio: API and call site disagree / panic", None, desc.clone());
    }
    let g = format!(
        "{{| pr_prefixes := {}; pr_tpls := {}; pr_impl := {}; pr_sites := {}; pr_oneoff := {} |}}",
        gal_list(prefixes.iter().map(|p| gal_str(p)).collect()),
        gal_list(tpls.iter().map(|(n, cs)| format!("({}, {})", gal_str(n), gal_list(cs.iter().map(|c| gal_str(c)).collect()))).collect()),
        r.gal(|(t, _, _)| gal_list(t.iter().map(|(c, n)| format!("({}, {})", gal_str(c), gal_str(n))).collect())),
        match &r { Outcome::Ok((_, sites, _)) => gal_list(sites.iter().map(|(a, b, c, d)| format!("({}, {}, {}, {})", gal_str(a), gal_str(b), gal_str(c), gal_str(d))).collect()), _ => "[]".to_string() },
        match &r { Outcome::Ok((_, _, o)) => gal_list(o.iter().map(|(a, b)| format!("({}, {})", gal_str(a), gal_str(b))).collect()), _ => "[]".to_string() }
    );
    // non-trivial: some component is defined by at least two templates
    let mut multi = false;
    for c in comp_pool { if tpls.iter().filter(|(_, cs)| cs.iter().any(|x| x == c)).count() >= 2 { multi = true; } }
    let tag = match &r { Outcome::Ok(_) => "impl:accepted", _ => "impl:rejected" };
    prio.push(g, desc, multi && !prefixes.is_empty(), None, &[tag]);
}

// ------------------------------------------------------------------ depth

/// Builds the templates realising a nesting path below the entry point and renders.
/// Frame i (i >= 1) is component `K<i>` (hop = true) or template `inc<i>` (hop = false).
fn render_path(api: bool, path: &[bool]) -> Outcome<bool> {
    let n = path.len();
    let hop_src = |i: usize| -> String {
        // what frame i-1 contains to enter frame i
        if i > n { "leaf".to_string() } else if path[i - 1] { format!("({{{{ <K{i} /> }}}})") } else { format!("[{{% include \"inc{i}\" %}}]") }
    };
    let mut comps = String::new();
    let mut tpls: Vec<(String, String)> = Vec::new();
    for i in 1..=n {
        if path[i - 1] {
            comps.push_str(&format!("{{% component K{i}() %}}{}{{% endcomponent K{i} %}}", hop_src(i + 1)));
        } else {
            tpls.push((format!("inc{i}"), hop_src(i + 1)));
        }
    }
    if api {
        comps.push_str(&format!("{{% component E() %}}{}{{% endcomponent E %}}", hop_src(1)));
    } else {
        tpls.push(("main".to_string(), hop_src(1)));
    }
    tpls.push(("comps.html".to_string(), comps));
    let mut tera = Tera::default();
    if let Err(e) = tera.add_raw_templates(tpls) {
        return Outcome::Err("register".into(), format!("{e}"));
    }
    let r = if api { guarded(|| tera.render_component("E", &Context::new(), None, false)) } else { guarded(|| tera.render("main", &Context::new())) };
    match r {
        Outcome::Ok(s) => Outcome::Ok(s.contains("leaf")),
        Outcome::Err(a, b) => Outcome::Err(a, b),
        Outcome::Panic(m) => Outcome::Panic(m),
    }
}

/// Recursive realisations of a pure-call path of length `calls` (and of call/include
/// alternation): the same model case, a different program.
fn render_recursive(kind: usize, calls: usize) -> (Vec<bool>, Outcome<bool>) {
    let mut tera = Tera::default();
    let n = calls as i64 - 1;
    let (tpls, path): (Vec<(&str, String)>, Vec<bool>) = match kind {
        0 => (vec![("c.html", "{% component rec(n) %}({% if n > 0 %}{{ <rec n={n - 1} /> }}{% else %}leaf{% endif %}){% endcomponent rec %}".to_string()),
                   ("main", "{{ <rec n={n} /> }}".to_string())], vec![true; calls]),
        1 => (vec![("c.html", "{% component ping(n) %}({% if n > 0 %}{{ <pong n={n - 1} /> }}{% else %}leaf{% endif %}){% endcomponent ping %}{% component pong(n) %}<{% if n > 0 %}{{ <ping n={n - 1} /> }}{% else %}leaf{% endif %}>{% endcomponent pong %}".to_string()),
                   ("main", "{{ <ping n={n} /> }}".to_string())], vec![true; calls]),
        2 => (vec![("c.html", "{% component ri(n) %}({% if n > 0 %}{% include \"ri_inc\" %}{% else %}leaf{% endif %}){% endcomponent ri %}".to_string()),
                   ("ri_inc", "{{ <ri n={n - 1} /> }}".to_string()),
                   ("main", "{{ <ri n={n} /> }}".to_string())],
              (0..(2 * calls - 1)).map(|i| i % 2 == 0).collect()),
        _ => (vec![("c.html", "{% component rb(n) %}({% if n > 0 %}{% <rb n={n - 1}> %}x{{ body }}{% </rb> %}{% else %}leaf{{ body }}{% endif %}){% endcomponent rb %}".to_string()),
                   ("main", "{% <rb n={n}> %}top{% </rb> %}".to_string())], vec![true; calls]),
    };
    if let Err(e) = tera.add_raw_templates(tpls) {
        return (path, Outcome::Err("register".into(), format!("{e}")));
    }
    let mut ctx = Context::new();
    ctx.insert_value("n", Value::from(n));
    let r = guarded(|| tera.render("main", &ctx));
    (path, match r {
        Outcome::Ok(s) => Outcome::Ok(s.contains("leaf")),
        Outcome::Err(a, b) => Outcome::Err(a, b),
        Outcome::Panic(m) => Outcome::Panic(m),
    })
}

fn push_depth(depth: &mut Sink, meta: &mut Meta, api: bool, path: &[bool], r: Outcome<bool>, how: &str) {
    let calls = path.iter().filter(|h| **h).count();
    let prog = match how { "chain" | "mixed-chain" => 0, "self-recursive" => 1, "mutually-recursive" => 2, "recursive-through-include" => 3, _ => 4 };
    let g = format!("{{| d_api := {}; d_prog := {prog}%N; d_path := {}; d_impl := {} |}}", gal_bool(api), gal_list(path.iter().map(|h| gal_bool(*h).to_string()).collect()), gal_res_bool(&r));
    let desc = json!({"entry": if api { "render_component" } else { "render" }, "path": path.iter().map(|h| if *h { "call" } else { "include" }).collect::<Vec<_>>(),
        "calls": calls, "program": how, "impl": r.json(|b| json!(b))});
    meta.oracle_checks += 1;
    if r.is_panic() || matches!(&r, Outcome::Err(k, _) if k == "register") || matches!(&r, Outcome::Ok(false)) {
        meta.oracle_fail("depth: panic / unregistrable / leaf not reached", None, desc.clone());
    }
    let tag = match &r { Outcome::Ok(_) => "impl:rendered", _ => "impl:stopped" };
    depth.push(g, desc, calls >= 18 && calls <= 23, None, &[tag, how]);
}

/// Unbounded recursion scenarios for the child process.
fn child_scenarios() -> Vec<(&'static str, Vec<(&'static str, &'static str)>, bool)> {
    // (id, templates, entry through the API (component `r`)?)
    vec![
        ("self", vec![("c.html", "{% component r() %}x{{ <r /> }}{% endcomponent r %}"), ("main", "{{ <r /> }}")], false),
        ("self-api", vec![("c.html", "{% component r() %}x{{ <r /> }}{% endcomponent r %}")], true),
        ("mutual", vec![("c.html", "{% component r() %}a{{ <q /> }}{% endcomponent r %}{% component q() %}b{{ <r /> }}{% endcomponent q %}"), ("main", "{{ <r /> }}")], false),
        ("mutual-3", vec![("c.html", "{% component r() %}{{ <q /> }}{% endcomponent r %}{% component q() %}{{ <p /> }}{% endcomponent q %}"), ("d.html", "{% component p() %}{{ <r /> }}{% endcomponent p %}"), ("main", "{{ <q /> }}")], false),
        ("via-include", vec![("c.html", "{% component r() %}{% include \"t\" %}{% endcomponent r %}"), ("t", "t{{ <r /> }}"), ("main", "{% include \"t\" %}")], false),
        ("via-include-api", vec![("c.html", "{% component r() %}{% include \"t\" %}{% endcomponent r %}"), ("t", "t{{ <r /> }}")], true),
        ("body-call", vec![("c.html", "{% component r() %}{% <r> %}b{{ body }}{% </r> %}{% endcomponent r %}"), ("main", "{% <r> %}top{% </r> %}")], false),
        ("in-body", vec![("c.html", "{% component r() %}{% <w> %}{{ <r /> }}{% </w> %}{% endcomponent r %}{% component w() %}[{{ body }}]{% endcomponent w %}"), ("main", "{{ <r /> }}")], false),
        ("in-attribute", vec![("c.html", "{% component r(a = \"\") %}{{ <r a={<r />} /> }}{% endcomponent r %}"), ("main", "{{ <r /> }}")], false),
        ("in-loop", vec![("c.html", "{% component r() %}{% for i in [1, 2] %}{{ <r /> }}{% endfor %}{% endcomponent r %}"), ("main", "{{ <r /> }}")], false),
        ("in-block", vec![("base", "{% block b %}{{ <r /> }}{% endblock %}"), ("c.html", "{% component r() %}{{ <r /> }}{% endcomponent r %}"), ("main", "{% extends \"base\" %}{% block b %}{{ super() }}{% endblock %}")], false),
        ("set-capture", vec![("c.html", "{% component r() %}{% set x %}{{ <r /> }}{% endset %}{{ x }}{% endcomponent r %}"), ("main", "{{ <r /> }}")], false),
    ]
}

fn run_child(id: &str) -> ! {
    silence_panics();
    let sc = child_scenarios().into_iter().find(|s| s.0 == id).expect("scenario");
    let mut tera = Tera::default();
    match tera.add_raw_templates(sc.1.clone()) {
        Err(e) => { println!("REGISTER-ERR:{}", err_class(&e)); std::process::exit(0); }
        Ok(()) => {}
    }
    let r = if sc.2 { guarded(|| tera.render_component("r", &Context::new(), None, true)) } else { guarded(|| tera.render("main", &Context::new())) };
    match r {
        Outcome::Ok(s) => println!("OK:{}", s.len()),
        Outcome::Err(c, m) => println!("ERR:{c}:{}", m.lines().next().unwrap_or("")),
        Outcome::Panic(m) => println!("PANIC:{m}"),
    }
    std::process::exit(0);
}

fn spawn_child(id: &str) -> (String, String) {
    let exe = std::env::current_exe().expect("exe");
    let mut child = match std::process::Command::new(exe).args(["child", id]).stdout(std::process::Stdio::piped()).stderr(std::process::Stdio::null()).spawn() {
        Ok(c) => c,
        Err(e) => return ("spawn-failed".into(), format!("{e}")),
    };
    let t0 = Instant::now();
    loop {
        match child.try_wait() {
            Ok(Some(st)) => {
                let mut out = String::new();
                if let Some(mut so) = child.stdout.take() {
                    use std::io::Read;
                    let _ = so.read_to_string(&mut out);
                }
                let status = if st.success() { "exit0".to_string() } else { format!("{st}") };
                return (status, out.trim().to_string());
            }
            Ok(None) => {
                if t0.elapsed() > Duration::from_secs(60) {
                    let _ = child.kill();
                    let _ = child.wait();
                    return ("timeout".into(), String::new());
                }
                std::thread::sleep(Duration::from_millis(20));
            }
            Err(e) => return ("wait-failed".into(), format!("{e}")),
        }
    }
}

// ------------------------------------------------------------------ apieq

fn run_apieq(sink: &mut Sink, meta: &mut Meta, rng: &mut Rng, kinds: &[Value]) {
    let (mut params, rest) = random_sig(rng);
    let printable: Vec<Value> = kinds.iter().filter(|v| !v.is_undefined()).cloned().collect();
    // supplied: distinct keys
    let mut supplied: Vec<(String, Value)> = Vec::new();
    for p in &params {
        if rng.chance(3, 4) {
            let attrs = random_attrs(rng, std::slice::from_ref(p), &printable, &[], true);
            for a in attrs { if let Attr::Kv(k, v, _) = a { if !supplied.iter().any(|(x, _)| *x == k) { supplied.push((k, v)); } } }
        }
    }
    if rng.chance(1, 4) { supplied.push(("extra".into(), Value::from("<e>"))); }
    if rng.chance(1, 12) { supplied.push(("body".into(), Value::from("kw-body"))); }
    let ae = rng.chance(1, 2);
    let body_src = if rng.chance(1, 2) { Some(rng.pick(&["<b>{{ x }}</b>", "plain", "{{ x }}&{{ y | safe }}", "{% for i in [1,2] %}{{ x }}{{ i }}{% endfor %}", ""]).to_string()) } else { None };
    // component body: every parameter, the rest map size, the body
    let mut cb = String::from("[");
    for p in &params { cb.push_str(&format!("{}={{{{ {} }}}};", p.name, p.name)); }
    if let Some(r) = &rest { cb.push_str(&format!("rest#{{{{ {r} | length }}}}:{{{{ {r}.extra | default(value=\"-\") }}}};")); }
    cb.push_str("body={{ body | default(value=\"NOBODY\") }}]");
    let mut tera = Tera::default();
    if register_component(&mut tera, &mut params, &rest, &cb).is_err() {
        meta.oracle_fail("generator produced an unregistrable apieq case", None, json!({"sig": signature_src(&params, &rest)}));
        return;
    }
    let mut ctx = Context::new();
    ctx.insert_value("x", Value::from("<x&>"));
    ctx.insert_value("y", Value::from("<y>"));
    let attrs: Vec<Attr> = supplied.iter().map(|(k, v)| Attr::Kv(k.clone(), v.clone(), AttrForm::Expr)).collect();
    let site = call_site(&attrs, &body_src, &mut ctx, "zz");
    // the caller is a registered template whose autoescape comes from its suffix, or a one-off
    let registered = rng.chance(1, 2);
    let tpl_r: Outcome<String> = if registered {
        let name = if ae { "page.html" } else { "page.txt" };
        match tera.add_raw_template(name, &site) {
            Ok(()) => guarded(|| tera.render(name, &ctx)),
            Err(e) => Outcome::Err("register".into(), format!("{e}")),
        }
    } else {
        guarded(|| tera.render_str(&site, &ctx, ae))
    };
    // the equivalent API call: same arguments, body = the body as the caller renders it
    let body_text: Option<String> = match &body_src {
        None => None,
        Some(b) => match tera.render_str(b, &ctx, ae) { Ok(t) => Some(t), Err(_) => return },
    };
    let mut actx = Context::new();
    for (k, v) in &supplied { actx.insert_value(k.clone(), v.clone()); }
    let api_r = guarded(|| tera.render_component("C", &actx, body_text.as_deref(), ae));
    let same = matches!((&tpl_r, &api_r), (Outcome::Ok(a), Outcome::Ok(b)) if a == b);
    let okb = |r: &Outcome<String>| -> Outcome<bool> { match r { Outcome::Ok(_) => Outcome::Ok(true), Outcome::Err(a, b) => Outcome::Err(a.clone(), b.clone()), Outcome::Panic(m) => Outcome::Panic(m.clone()) } };
    let g = format!(
        "{{| a_params := {}; a_rest := {}; a_supplied := {}; a_body := {}; a_tpl_ok := {}; a_api_ok := {}; a_same_text := {} |}}",
        gal_list(params.iter().map(gal_param).collect()), gal_opt(&rest, |r| gal_str(r)), gal_ctx(&supplied),
        gal_opt(&body_text, |b| gal_str(b)), gal_res_bool(&okb(&tpl_r)), gal_res_bool(&okb(&api_r)), gal_bool(same)
    );
    let desc = json!({"component": format!("C({}) = {}", signature_src(&params, &rest), cb), "call_site": site, "autoescape": ae, "caller": if registered { "registered template" } else { "render_str" },
        "supplied": json_ctx(&supplied), "api_body": body_text, "template_path": tpl_r.json(|s| json!(s)), "api_path": api_r.json(|s| json!(s))});
    meta.oracle_checks += 1;
    if tpl_r.is_panic() || api_r.is_panic() { meta.oracle_fail("panic", None, desc.clone()); }
    if let (Outcome::Ok(a), Outcome::Ok(b)) = (&tpl_r, &api_r) {
        if a != b { meta.oracle_fail("render_component differs from the equivalent call site", None, desc.clone()); }
    }
    let tag = match (&tpl_r, &api_r) { (Outcome::Ok(_), Outcome::Ok(_)) => "both:ok", (Outcome::Err(..), Outcome::Err(..)) => "both:err", _ => "split" };
    sink.push(g, desc, !supplied.is_empty() && matches!(tpl_r, Outcome::Ok(_)), None, &[tag, if ae { "autoescape:on" } else { "autoescape:off" }, if body_src.is_some() { "with-body" } else { "no-body" }]);
}

// ------------------------------------------------------------------ shape

fn gal_instr(i: &VInstr) -> String {
    let s0 = || gal_str(&i.strs[0]);
    let n = || i.num.unwrap();
    let bits = || format!("[{}]", i.bits.as_ref().unwrap().iter().map(|b| gal_bool(*b)).collect::<Vec<_>>().join("; "));
    match i.op {
        "LoadConst" => format!("(LoadConst {})", gal_value(i.konst.as_ref().unwrap())),
        "Set" => format!("(SetI {})", s0()),
        "LoadName" | "LoadAttr" | "LoadAttrOpt" | "WriteText" | "SetGlobal" | "Include" | "CallFunction" | "RenderInlineComponent"
        | "RenderBodyComponent" | "ApplyFilter" | "RunTest" | "RenderBlock" | "StoreLocal" => format!("({} {})", i.op, s0()),
        "BuildMap" | "BuildList" | "Jump" | "PopJumpIfFalse" | "JumpIfFalseOrPop" | "JumpIfTrueOrPop" | "Iterate" => format!("({} {}%nat)", i.op, n()),
        "StartIterate" | "StartIterateComprehension" => format!("({} {})", i.op, gal_bool(n() == 1)),
        "BuildMapWithSpreads" | "BuildListWithSpreads" => format!("({} {})", i.op, bits()),
        "LoadPath" | "WritePath" => format!("({} [{}])", i.op, i.strs.iter().map(|s| gal_str(s)).collect::<Vec<_>>().join("; ")),
        "In" => "InOp".to_string(),
        other => other.to_string(),
    }
}

/// One case per chunk that contains a component call. `known`: (body calls, inline calls,
/// marker) for the main chunk when the generator knows them.
fn push_shapes(sink: &mut Sink, meta: &mut Meta, label: &str, src: &str, known: Option<(usize, usize, Option<&str>)>) {
    let Ok(ls) = chunk_listings("t", src, Delimiters::default()) else { return };
    for cl in ls {
        let nb = cl.after.iter().filter(|(i, _)| i.op == "RenderBodyComponent").count();
        let ni = cl.after.iter().filter(|(i, _)| i.op == "RenderInlineComponent").count();
        if nb + ni == 0 && !(cl.id == "main" && known.is_some()) { continue; }
        let (eb, ei, marker) = match (&known, cl.id.as_str()) { (Some((b, i, m)), "main") => (*b, *i, *m), _ => (nb, ni, None) };
        let listing = gal_list(cl.after.iter().map(|(ins, _)| format!("({}, []%N)", gal_instr(ins))).collect());
        let g = format!("{{| sh_chunk := {listing}; sh_body := {eb}%nat; sh_inline := {ei}%nat; sh_marker := {} |}}", gal_opt(&marker, |m| gal_str(m)));
        let desc = json!({"source_label": label, "source": src, "chunk": cl.id, "body_calls": nb, "inline_calls": ni, "expected_from_source": known.is_some() && cl.id == "main"});
        meta.oracle_checks += 1;
        sink.push(g, desc, nb >= 1, None, &[if nb > 0 { "has-body-call" } else { "inline-only" }]);
    }
}

/// A caller template with `nb` body calls and some inline calls in assorted positions.
fn gen_caller(rng: &mut Rng, depth: u32) -> (String, usize, usize) {
    let mut nb = 0;
    let mut ni = 0;
    fn node(rng: &mut Rng, depth: u32, nb: &mut usize, ni: &mut usize, first: &mut bool) -> String {
        match rng.below(if depth == 0 { 3 } else { 8 }) {
            0 => gen_tpl::stmt(rng, 1, false),
            1 => { *ni += 1; format!("{{{{ <show v={{{}}} /> }}}}", gen_tpl::path(rng)) }
            2 => { *ni += 1; format!("{{% set q = <show v=\"s\" {{...{}}} /> %}}", gen_tpl::path(rng)) }
            3 | 4 => {
                *nb += 1;
                let mark = if *first { *first = false; "MARK" } else { "" };
                let inner: String = (0..1 + rng.below(2)).map(|_| node(rng, depth - 1, nb, ni, first)).collect();
                format!("{{% <wrap t={{{}}}> %}}{mark}{inner}{{% </wrap> %}}", gen_tpl::atom(rng))
            }
            5 => format!("{{% for i in {} %}}{}{{% endfor %}}", gen_tpl::path(rng), node(rng, depth - 1, nb, ni, first)),
            6 => format!("{{% if {} %}}{}{{% else %}}{}{{% endif %}}", gen_tpl::expr(rng, 1), node(rng, depth - 1, nb, ni, first), node(rng, depth - 1, nb, ni, first)),
            _ => { *ni += 2; format!("{{{{ <show v={{<show v={{{}}} />}} /> }}}}", gen_tpl::path(rng)) }
        }
    }
    let mut first = true;
    let mut s = String::new();
    for _ in 0..(1 + rng.below(3)) { s.push_str(&node(rng, depth, &mut nb, &mut ni, &mut first)); }
    (s, nb, ni)
}

fn oracle_contexts() -> Vec<(&'static str, Context)> {
    let mut out = Vec::new();
    let leaf = |v: Value| {
        let mut m2 = Map::new();
        m2.insert("z".into(), v.clone());
        m2.insert("x".into(), Value::from(vec![v.clone(), Value::from(2u64)]));
        let mut m = Map::new();
        m.insert("x".into(), v.clone());
        m.insert("y".into(), Value::from(m2));
        Value::from(m)
    };
    for (n, v) in [("markup", Value::from("<s&\"'>")), ("safe", Value::safe_string("<b>")), ("int", Value::from(1u64)), ("none", Value::none())] {
        let mut c = Context::new();
        c.insert_value("a", leaf(v.clone()));
        c.insert_value("b", Value::from(vec![leaf(v.clone()), v.clone()]));
        c.insert_value("c", v);
        out.push((n, c));
    }
    out.push(("empty", Context::new()));
    out
}

fn same_outcome(a: &Outcome<String>, b: &Outcome<String>) -> bool {
    match (a, b) {
        (Outcome::Ok(x), Outcome::Ok(y)) => x == y,
        (Outcome::Err(c1, _), Outcome::Err(c2, _)) => c1 == c2,
        _ => false,
    }
}

/// body in the caller's scope and escaping mode; result inserted without further escaping:
/// `{% <wrap> %}B{% </wrap> %}` with wrap = `{{ body }}` renders as B itself does, in place.
fn oracle_wrap(meta: &mut Meta, rng: &mut Rng, n: usize) -> (usize, usize) {
    let mut tera = Tera::default();
    tera.add_raw_template("w.html", "{% component wrap() %}{{ body }}{% endcomponent wrap %}{% component show(v) %}{{ v }}{% endcomponent show %}{% component pass(v) %}{{ <show v={v} /> }}{% endcomponent pass %}").expect("wrap");
    let ctxs = oracle_contexts();
    let mut runs = 0;
    let mut nontrivial = 0;
    for k in 0..n {
        let b = gen_tpl::body(rng, 1 + (k % 2) as u32, false);
        let pre = if rng.chance(1, 2) { "{% set s = a.x %}" } else { "" };
        let (inline, wrapped) = match k % 4 {
            0 | 1 => (format!("{pre}<{b}>{{{{ s }}}}"), format!("{pre}<{{% <wrap> %}}{b}{{% </wrap> %}}>{{{{ s }}}}")),
            2 => (format!("{{% for i in b %}}{b}{{% endfor %}}"), format!("{{% for i in b %}}{{% <wrap> %}}{b}{{% </wrap> %}}{{% endfor %}}")),
            _ => (format!("{b}"), format!("{{% <wrap> %}}{{% <wrap> %}}{b}{{% </wrap> %}}{{% </wrap> %}}")),
        };
        for (cname, ctx) in &ctxs {
            for ae in [false, true] {
                let w = guarded(|| tera.render_str(&wrapped, ctx, ae));
                if matches!(&w, Outcome::Err(c, _) if c == "syntax") { continue; }   // break/continue are not allowed in a body
                let i = guarded(|| tera.render_str(&inline, ctx, ae));
                runs += 1;
                meta.oracle_checks += 1;
                if matches!(&i, Outcome::Ok(s) if s.len() > 2) { nontrivial += 1; }
                if !same_outcome(&w, &i) || w.is_panic() {
                    meta.oracle_fail("a call body does not render as it would in place (caller's scope / escaping mode / no second escaping)", None,
                        json!({"wrapped": wrapped, "inline": inline, "context": cname, "autoescape": ae, "wrapped_result": w.json(|s| json!(s)), "inline_result": i.json(|s| json!(s))}));
                }
            }
        }
    }
    // the value a call leaves on the stack is a SAFE string holding the component's output
    register_probe(&mut tera);
    for e in ["c", "a.x", "\"<lit>\"", "c | safe"] {
        for (cname, ctx) in &ctxs {
            for ae in [false, true] {
                take_probe();
                let direct = guarded(|| tera.render_str(&format!("{{{{ {e} }}}}"), ctx, ae));
                let via = guarded(|| tera.render_str(&format!("{{{{ <show v={{{e}}} /> | probe }}}}"), ctx, ae));
                let probed = take_probe().pop();
                runs += 1;
                meta.oracle_checks += 1;
                if let (Outcome::Ok(d), Outcome::Ok(_)) = (&direct, &via) {
                    let ok = matches!(&probed, Some(v) if v.is_safe() && v.as_str() == Some(d.as_str()));
                    if !ok {
                        meta.oracle_fail("the value of a component call is not a safe string holding its output", None,
                            json!({"expr": e, "context": cname, "autoescape": ae, "direct": d, "probed": probed.as_ref().map(json_value)}));
                    }
                } else if !same_outcome(&via, &direct) {
                    meta.oracle_fail("component call fails differently from printing its argument", None, json!({"expr": e, "context": cname, "autoescape": ae}));
                }
            }
        }
    }
    // inline results: `{{ <show v={e} /> }}` prints what `{{ e }}` prints, also through two levels
    for e in ["c", "a.x", "b[1]", "a.y.z", "c ~ \"<lit>\"", "\"<lit>\"", "c | safe", "a.y.x[0]"] {
        for (cname, ctx) in &ctxs {
            for ae in [false, true] {
                let direct = guarded(|| tera.render_str(&format!("{{{{ {e} }}}}"), ctx, ae));
                for form in [format!("{{{{ <show v={{{e}}} /> }}}}"), format!("{{{{ <pass v={{{e}}} /> }}}}"), format!("{{{{ <show v={{<show v={{{e}}} />}} /> }}}}"), format!("{{% set q = <show v={{{e}}} /> %}}{{{{ q }}}}")] {
                    let via = guarded(|| tera.render_str(&form, ctx, ae));
                    runs += 1;
                    meta.oracle_checks += 1;
                    if matches!(&direct, Outcome::Ok(s) if !s.is_empty()) { nontrivial += 1; }
                    // an undefined/none argument: printing differs by design only in erroring; compare classes
                    if !same_outcome(&via, &direct) {
                        meta.oracle_fail("a component result is escaped again / differs from printing the argument in place", None,
                            json!({"call": form, "expr": e, "context": cname, "autoescape": ae, "via": via.json(|s| json!(s)), "direct": direct.json(|s| json!(s))}));
                    }
                }
            }
        }
    }
    (runs, nontrivial)
}

// ------------------------------------------------------------------ main

fn main() {
    let args = parse_args();
    if args.extra.first().map(|s| s.as_str()) == Some("child") {
        run_child(&args.extra[1]);
    }
    silence_panics();
    let thorough = args.tier == "thorough";
    let mut rng = Rng::new(args.seed);
    let mut meta = Meta::default();
    let hdr = "From TeraV Require Import Model.Value Model.Instr Model.Component Gen.TypeTables Corr.CorrC05.";
    let mut bind = Sink::new(&args.out, "bind", hdr, "check_bind");
    let mut iso = Sink::new(&args.out, "iso", hdr, "check_iso");
    let mut prio = Sink::new(&args.out, "prio", hdr, "check_prio");
    let mut depth = Sink::new(&args.out, "depth", hdr, "check_depth");
    let mut apieq = Sink::new(&args.out, "apieq", hdr, "check_apieq");
    let mut shape = Sink::new(&args.out, "shape", hdr, "check_shape");

    let kinds = pools::kind_pool();
    let spreads = spread_maps();

    // ---- bind: hand-written corner cases first
    {
        let cases: Vec<(Vec<Param>, Option<&str>, Vec<Attr>, Option<&str>, bool)> = vec![
            (vec![], None, vec![], None, false),
            (vec![], None, vec![], Some("B"), false),
            (vec![], None, vec![Attr::Kv("body".into(), Value::from("kw"), AttrForm::Expr)], Some("B"), false),
            (vec![], Some("rest"), vec![Attr::Kv("body".into(), Value::from("kw"), AttrForm::Expr)], Some("B"), false),
            (vec![], Some("rest"), vec![Attr::Kv("rest".into(), Value::from("kw"), AttrForm::Expr)], None, false),
            (vec![], Some("rest"), vec![Attr::Kv("body".into(), Value::from("kw"), AttrForm::Expr)], Some("B"), true),
            (vec![mk_param("a", Some("string"), Some("7"))], None, vec![], None, false),
            (vec![mk_param("a", Some("string"), Some("7"))], None, vec![Attr::Kv("a".into(), Value::from(7u64), AttrForm::Expr)], None, false),
            (vec![mk_param("a", None, Some("none"))], None, vec![Attr::Kv("a".into(), Value::from(7u64), AttrForm::Expr)], None, false),
            (vec![mk_param("a", None, None)], None, vec![Attr::Kv("a".into(), Value::undefined(), AttrForm::Expr)], None, false),
            (vec![mk_param("a", Some("number"), None)], None, vec![Attr::Kv("a".into(), Value::from(f64::NAN), AttrForm::Expr)], None, false),
            (vec![mk_param("a", None, None)], None, vec![Attr::Kv("a".into(), Value::from(1u64), AttrForm::Expr), Attr::Kv("a".into(), Value::from(2u64), AttrForm::Expr)], None, false),
            (vec![mk_param("a", None, None)], None, vec![Attr::Spread(spreads[1].clone()), Attr::Kv("a".into(), Value::from(2u64), AttrForm::Expr)], None, false),
            (vec![mk_param("a", None, None)], None, vec![Attr::Kv("a".into(), Value::from(2u64), AttrForm::Expr), Attr::Spread(spreads[1].clone())], None, false),
            (vec![mk_param("a", None, None)], Some("rest"), vec![Attr::Spread(spreads[7].clone()), Attr::Spread(spreads[8].clone())], None, false),
            (vec![mk_param("a", None, None)], None, vec![Attr::Spread(spreads[8].clone()), Attr::Kv("a".into(), Value::from("x"), AttrForm::Lit)], None, false),
        ];
        for (params, rest, attrs, body, api) in cases {
            push_bind(&mut bind, &mut meta, BindCase { params, rest: rest.map(|s| s.to_string()), attrs, body: body.map(|s| s.to_string()), api, depth: 0, autoescape: false });
        }
    }
    // ---- bind: exhaustive one-parameter space: declared x default x supplied
    let mut exhaustive_bind = 0usize;
    {
        let declared: Vec<Option<&'static str>> = std::iter::once(None).chain(TYPES.iter().map(|t| Some(*t))).collect();
        let defaults: Vec<Option<&'static str>> = std::iter::once(None).chain(DEFAULTS.iter().map(|d| Some(*d))).collect();
        let supplied: Vec<Option<Value>> = std::iter::once(None).chain(kinds.iter().map(|v| Some(v.clone()))).collect();
        let mut variant = 0usize;
        for d in &declared {
            for df in &defaults {
                for s in &supplied {
                    variant += 1;
                    // quick: every (declared, default) pair with a third of the supplied values, rotating
                    if !thorough && (variant % 3 != 0) && s.is_some() { continue; }
                    let attrs = match s { None => vec![], Some(v) => vec![Attr::Kv("a".into(), v.clone(), AttrForm::Expr)] };
                    let (rest, body, api) = match variant % 8 { 0 => (Some("rest"), None, false), 1 => (None, Some("B<i>"), false), 2 => (None, None, true), 3 => (Some("rest"), Some(""), true), _ => (None, None, false) };
                    push_bind(&mut bind, &mut meta, BindCase { params: vec![mk_param("a", *d, *df)], rest: rest.map(|s| s.to_string()), attrs, body: body.map(|s| s.to_string()), api, depth: 0, autoescape: variant % 2 == 0 });
                    exhaustive_bind += 1;
                }
            }
        }
    }
    // ---- bind: random product space
    let n_bind = if thorough { 26_000 } else { 900 };
    for _ in 0..n_bind {
        let (params, rest) = random_sig(&mut rng);
        let api = rng.chance(1, 4);
        let attrs = random_attrs(&mut rng, &params, &kinds, &spreads, api);
        let body = if rng.chance(1, 3) { Some(rng.pick(&["B", "", "<i>&amp;</i>", "é日 x"]).to_string()) } else { None };
        push_bind(&mut bind, &mut meta, BindCase { params, rest, attrs, body, api, depth: 0, autoescape: rng.chance(1, 2) });
    }
    // ---- bind below a chain of callers: argument errors come before the depth error
    for d in [1usize, 2, 19, 20] {
        for (decl, attrs) in [
            (Some("string"), vec![Attr::Kv("a".into(), Value::from("lit"), AttrForm::Lit)]),
            (Some("integer"), vec![Attr::Kv("a".into(), Value::from("lit"), AttrForm::Lit)]),
            (None, vec![]),
            (None, vec![Attr::Kv("a".into(), Value::from("x"), AttrForm::Lit), Attr::Kv("zz".into(), Value::from("y"), AttrForm::Lit)]),
        ] {
            for body in [None, Some("B")] {
                push_bind(&mut bind, &mut meta, BindCase { params: vec![mk_param("a", decl, None)], rest: None, attrs: attrs.clone(), body: body.map(|s: &str| s.to_string()), api: false, depth: d, autoescape: false });
            }
        }
    }

    // ---- iso
    for _ in 0..(if thorough { 6_000 } else { 500 }) {
        run_iso(&mut iso, &mut meta, &mut rng);
    }

    // ---- prio: fixed shapes, then random
    let fixed: Vec<(Vec<&str>, Vec<(&str, Vec<&str>)>)> = vec![
        (vec![], vec![("a.html", vec!["Btn"]), ("b.html", vec!["Btn"])]),
        (vec!["themes/a/"], vec![("a.html", vec!["Btn"]), ("themes/a/c.html", vec!["Btn"])]),
        (vec!["themes/a/", "themes/b/"], vec![("themes/b/c.html", vec!["Btn"]), ("themes/a/c.html", vec!["Btn"])]),
        (vec!["themes/a/", "themes/b/"], vec![("themes/b/c.html", vec!["Btn"]), ("themes/a/c.html", vec!["Btn"]), ("z.html", vec!["Btn"])]),
        // two definitions at the same lower priority, shadowed by a higher-priority one that sorts first / last
        (vec!["themes/a/"], vec![("comp.html", vec!["Btn"]), ("themes/a/c.html", vec!["Btn"]), ("themes/a/d.html", vec!["Btn"])]),
        (vec!["themes/a/"], vec![("zcomp.html", vec!["Btn"]), ("themes/a/c.html", vec!["Btn"]), ("themes/a/d.html", vec!["Btn"])]),
        (vec!["themes/", "themes/a/"], vec![("themes/a/c.html", vec!["Btn"]), ("themes/c.html", vec!["Btn"])]),
        // the call site stands in the template that itself holds the LOWER-priority definition
        (vec!["t/"], vec![("t/x.html", vec!["Btn"]), ("comp.html", vec!["Btn"]), ("t/y.html", vec![])]),
        (vec!["themes/a/", "themes/b/"], vec![("themes/b/c.html", vec!["Btn", "Card"]), ("themes/a/c.html", vec!["Btn"]), ("a.html", vec!["Card"])]),
        (vec!["zz/"], vec![("zz/q.html", vec!["ui.x", "Btn"]), ("a.html", vec!["ui.x"])]),
    ];
    for f in fixed { run_prio(&mut prio, &mut meta, &mut rng, Some(f)); }
    for _ in 0..(if thorough { 4_000 } else { 300 }) {
        run_prio(&mut prio, &mut meta, &mut rng, None);
    }

    // ---- depth: all-call paths of every length around the limit, both entries; mixed paths
    for api in [false, true] {
        for calls in 0..=24usize {
            let path = vec![true; calls];
            let r = render_path(api, &path);
            push_depth(&mut depth, &mut meta, api, &path, r, "chain");
        }
    }
    for kind in 0..4usize {
        for calls in 1..=24usize {
            let (path, r) = render_recursive(kind, calls);
            push_depth(&mut depth, &mut meta, false, &path, r, ["self-recursive", "mutually-recursive", "recursive-through-include", "recursive-body-call"][kind]);
        }
    }
    for _ in 0..(if thorough { 3_000 } else { 250 }) {
        let calls = match rng.below(4) { 0 => rng.below(18), _ => 17 + rng.below(7) };
        let incs = rng.below(9);
        let mut path: Vec<bool> = std::iter::repeat(true).take(calls).chain(std::iter::repeat(false).take(incs)).collect();
        for i in (1..path.len()).rev() { path.swap(i, rng.below(i + 1)); }
        let api = rng.chance(1, 3);
        let r = render_path(api, &path);
        push_depth(&mut depth, &mut meta, api, &path, r, "mixed-chain");
    }
    // ---- unbounded recursion in a child process: must end with an error value
    let mut child_results = Vec::new();
    for (id, _, _) in child_scenarios() {
        let (status, out) = spawn_child(id);
        meta.oracle_checks += 1;
        let ok = status == "exit0" && out.starts_with("ERR:");
        if !ok {
            meta.oracle_fail("unbounded component recursion did not end with an error value", None, json!({"scenario": id, "templates": child_scenarios().into_iter().find(|s| s.0 == id).map(|s| s.1), "status": status, "output": out}));
        }
        child_results.push(json!({"scenario": id, "status": status, "output": out}));
    }

    // ---- apieq
    for _ in 0..(if thorough { 6_000 } else { 450 }) {
        run_apieq(&mut apieq, &mut meta, &mut rng, &kinds);
    }

    // ---- shape: corpus chunks with component calls, then generated callers
    for (label, src) in corpus::corpus_templates() {
        push_shapes(&mut shape, &mut meta, &label, &src, None);
    }
    for k in 0..(if thorough { 3_000 } else { 300 }) {
        let (src, nb, ni) = gen_caller(&mut rng, 1 + (k % 3) as u32);
        let marker = if nb > 0 { Some("MARK") } else { None };
        push_shapes(&mut shape, &mut meta, &format!("gen#{k}"), &src, Some((nb, ni, marker)));
    }

    // ---- render-level oracle for bodies and results
    let (wrap_runs, wrap_nontrivial) = oracle_wrap(&mut meta, &mut rng, if thorough { 1_500 } else { 150 });

    meta.extra.insert("exhaustive_bind_cases".into(), json!(exhaustive_bind));
    meta.extra.insert("exhaustive_bind_space".into(), json!("one parameter: (undeclared | 8 types) x (no default | 12 literals) x (absent | 16 value kinds)"));
    meta.extra.insert("child_process_recursion".into(), json!(child_results));
    meta.extra.insert("wrap_oracle_renders".into(), json!(wrap_runs));
    meta.extra.insert("oracle_only_evaluations".into(), json!(wrap_runs + child_scenarios().len()));
    meta.extra.insert("oracle_only_nontrivial".into(), json!(wrap_nontrivial));
    for s in [bind, iso, prio, depth, apieq, shape] {
        meta.families.push(s.finish());
    }
    meta.write(&args.out);
}
