//! C17 — every built-in filter, test and function over the full kind x kwarg matrix.
//!
//! One cell = (kind, name, receiver, kwargs).  The cell is evaluated through a template
//! (`{{ (x | name(k=a0)) | probe }}`, `{{ (x is name(k=a0)) | probe }}`, `{{ (name(k=a0)) | probe }}`)
//! and its outcome is classified as Ok(value) | InvalidArgument | MissingArgument | OutOfRange |
//! other error | panic from the text of the error the built-in returned (the VM re-wraps it in a
//! rendering error, so the ErrorKind itself is gone; its Display text is not).
//!
//! * implementation side, every cell, both tiers: never a panic, every string in the result valid
//!   UTF-8, every registered name resolves;
//! * model side (family `cell`): outcome class and value against Model.Builtins via Corr.CorrC17 —
//!   a stratified sample in the quick tier, every modelled cell in the thorough tier;
//! * `--arith-debug`: the arithmetic built-ins (range, abs, int, round, ...) are run again by a
//!   debug-profile build of this binary (overflow checks on) and the outcomes compared.
use std::collections::{BTreeMap, HashSet};
use std::fmt::Write as _;

use serde_json::json;
use tera::{Context, Tera, Value};
use tvh::*;

#[derive(Clone, Copy, PartialEq, Eq, Debug)]
enum BK {
    Filter,
    Test,
    Function,
}

#[derive(Clone, Copy, PartialEq, Eq, Debug)]
enum AK {
    Str,
    Usize,
    U32,
    I32,
    I128,
    Bool,
    Any,
}

struct Kw {
    name: &'static str,
    kind: AK,
    good_str: &'static [&'static str],
}

const fn kw(name: &'static str, kind: AK) -> Kw {
    Kw { name, kind, good_str: &[] }
}
const fn kws(name: &'static str, good: &'static [&'static str]) -> Kw {
    Kw { name, kind: AK::Str, good_str: good }
}

const PATS: &[&str] = &["", "a", "ab", " ", "日", "\n", "l", "|", "||", "aa", "o W", "Σ"];

/// The documented keyword arguments of each built-in (docs/content/_index.md "Built-ins").
fn spec(bk: BK, name: &str) -> Option<Vec<Kw>> {
    use AK::*;
    let v = match (bk, name) {
        (BK::Filter, "default") => vec![kw("value", Any), kw("boolean", Bool)],
        (BK::Filter, "pluralize") => vec![kws("singular", &["", "y", "é"]), kws("plural", &["s", "ies", ""])],
        (BK::Filter, "trim" | "trim_start" | "trim_end") => vec![kws("pat", PATS)],
        (BK::Filter, "replace") => vec![
            kws("from", &["", "l", "ll", "é", "\r\n", "a", "aa", "&", "ab"]),
            kws("to", &["", "L", "é日", "ll", "<br>", "a"]),
        ],
        (BK::Filter, "truncate") => vec![kw("length", Usize), kws("end", &["", "...", "é>"])],
        (BK::Filter, "indent") => vec![kw("width", Usize), kw("first", Bool), kw("blank", Bool)],
        (BK::Filter, "int") => vec![kw("base", U32)],
        (BK::Filter, "split") => vec![kws("pat", PATS)],
        (BK::Filter, "round") => vec![kws("method", &["ceil", "floor", "round", "", "Ceil"]), kw("precision", I32)],
        (BK::Filter, "nth") => vec![kw("n", Usize)],
        (BK::Filter, "join") => vec![kws("sep", &["", ", ", "é", "//"])],
        (BK::Filter, "sort") => vec![kws("attribute", &["a", "a.b", "", "x"])],
        (BK::Filter, "get") => vec![kws("key", &["a", "zz", "", "b"]), kw("default", Any)],
        (BK::Filter, "group_by") => vec![kws("attribute", &["a", "a.b", "", "x"])],
        (BK::Test, "divisible_by") => vec![kw("divisor", I128)],
        (BK::Test, "starting_with" | "ending_with") => vec![kws("pat", PATS)],
        (BK::Test, "containing") => vec![kw("pat", Any)],
        (BK::Function, "range") => vec![kw("start", I128), kw("end", I128), kw("step_by", I128)],
        (BK::Function, "throw") => vec![kws("message", &["boom", "", "é<日>"])],
        (BK::Filter, "safe" | "upper" | "lower" | "wordcount" | "escape_html" | "escape_xml" | "newlines_to_br"
            | "capitalize" | "title" | "str" | "float" | "length" | "reverse" | "abs" | "first" | "last"
            | "unique" | "values" | "keys" | "pairs") => vec![],
        (BK::Test, "string" | "number" | "map" | "bool" | "array" | "integer" | "float" | "none" | "iterable"
            | "defined" | "undefined" | "odd" | "even") => vec![],
        _ => return None,
    };
    Some(v)
}

/// Built-ins whose value the Gallina model computes (Model.Builtins.filter_table / test_table /
/// function_table); the rest is oracle-only.
fn has_model(bk: BK, name: &str) -> bool {
    match bk {
        BK::Filter => spec(bk, name).is_some() && !matches!(name, "sort" | "unique" | "group_by"),
        _ => spec(bk, name).is_some(),
    }
}

fn two_pow(k: u32) -> f64 {
    2f64.powi(k as i32)
}

/// Width and float edges every integer-typed kwarg is tried with (ArgFromValue table): the ends of
/// every 64/128-bit representation, +-0.0, +-inf, the smallest subnormal and normal floats.
fn width_edges() -> Vec<Value> {
    vec![
        Value::from(i128::MIN), Value::from(i128::MAX), Value::from(i128::MAX as u128 + 1), Value::from(u128::MAX),
        Value::from(u64::MAX), Value::from(i64::MIN), Value::from(i64::MAX), Value::from(0.0f64), Value::from(-0.0f64),
        Value::from(f64::INFINITY), Value::from(f64::NEG_INFINITY), Value::from(f64::from_bits(1)),
        Value::from(f64::MIN_POSITIVE), Value::from(-f64::from_bits(1)), Value::from(f64::MAX),
    ]
}

fn good_values(k: &Kw) -> Vec<Value> {
    let mut v = good_values_base(k);
    if matches!(k.kind, AK::Usize | AK::U32 | AK::I32 | AK::I128) {
        v.extend(width_edges());
    }
    v
}

fn good_values_base(k: &Kw) -> Vec<Value> {
    match k.kind {
        AK::Str => k.good_str.iter().map(|s| Value::from(*s)).collect(),
        AK::Bool => vec![Value::from(true), Value::from(false)],
        AK::Usize => vec![
            Value::from(0u64), Value::from(1u64), Value::from(2u64), Value::from(3i64), Value::from(5u128),
            Value::from(4i128), Value::from(2.0f64), Value::from(10u64), Value::from(1000u64), Value::from(1001u64),
            Value::from(u64::MAX), Value::from(u64::MAX as u128 + 1), Value::from(-1i64), Value::from(-1i128),
            Value::from(1e30f64), Value::from(f64::INFINITY), Value::from(-0.0f64), Value::from(two_pow(64)),
            Value::from(u128::MAX),
        ],
        AK::U32 => vec![
            Value::from(10u64), Value::from(2u64), Value::from(8i64), Value::from(16u128), Value::from(36i128),
            Value::from(37u64), Value::from(1u64), Value::from(0u64), Value::from(u32::MAX as u64),
            Value::from(u32::MAX as u64 + 1), Value::from(-1i64), Value::from(16.0f64), Value::from(two_pow(32)),
        ],
        AK::I32 => vec![
            Value::from(0u64), Value::from(1u64), Value::from(2i64), Value::from(-1i64), Value::from(3u128),
            Value::from(-2i128), Value::from(15u64), Value::from(22u64), Value::from(23u64), Value::from(308u64),
            Value::from(309u64), Value::from(400u64), Value::from(-400i64), Value::from(-308i64),
            Value::from(i32::MAX as i64), Value::from(i32::MIN as i64), Value::from(i32::MAX as i64 + 1),
            Value::from(i32::MIN as i64 - 1), Value::from(2.0f64), Value::from(-two_pow(31)), Value::from(two_pow(31)),
        ],
        AK::I128 => vec![
            Value::from(0u64), Value::from(1u64), Value::from(-1i64), Value::from(2u64), Value::from(-2i64),
            Value::from(3u128), Value::from(-3i128), Value::from(7u64), Value::from(10u64), Value::from(-10i64),
            Value::from(100_000u64), Value::from(100_001u64), Value::from(i64::MIN), Value::from(u64::MAX),
            Value::from(i128::MAX), Value::from(i128::MAX - 1), Value::from(i128::MIN), Value::from(i128::MIN + 1),
            Value::from(i128::MAX as u128), Value::from(i128::MAX as u128 + 1), Value::from(u128::MAX),
            Value::from(2.0f64), Value::from(-3.0f64), Value::from(-two_pow(127)), Value::from(two_pow(127)),
            Value::from(f64::NEG_INFINITY), Value::from(1i128 << 126), Value::from(-(1i128 << 126)),
        ],
        AK::Any => {
            let mut v = pools::kind_pool();
            v.push(Value::from(""));
            v.push(Value::from("a"));
            v.push(Value::from(0u64));
            v.push(Value::from(1i64));
            v
        }
    }
}

fn receivers() -> Vec<Value> {
    let mut v = pools::kind_pool();
    for z in [0i128, 1, -1, 2, 7, 10, -10] {
        v.extend(pools::int_reps(z));
    }
    v.push(Value::from(i64::MIN));
    v.push(Value::from(i64::MIN as i128));
    v.push(Value::from(u64::MAX));
    v.push(Value::from(i128::MIN));
    v.push(Value::from(i128::MIN + 1));
    v.push(Value::from(i128::MAX));
    v.push(Value::from(i128::MAX as u128));
    v.push(Value::from(i128::MAX as u128 + 1));
    v.push(Value::from(u128::MAX));
    v.push(Value::from(1u128 << 100));
    for f in [
        0.0f64, -0.0, 2.5, -2.5, 0.5, -0.5, -0.4, 3.0, -7.0, 1e300, f64::MAX, f64::INFINITY, f64::NEG_INFINITY,
        9007199254740993.0, 1e-310, 2.675, 1234.5678, 0.1, 1e22, 4503599627370497.5,
    ] {
        v.push(Value::from(f));
    }
    v.push(Value::from(two_pow(127)));
    v.push(Value::from(-two_pow(127)));
    v.push(Value::from(two_pow(63)));
    for s in [
        "", "hello world", "  hello World \n", "日本語éa😀z", "ΑΣ ΟΔΟΣ", "ΣΑΣ", "a\r\nb\n\nc\r", "&<>\"'/&amp;", "0x1f",
        "0b101", "0o17", "0x0x10", "-170141183460469231731687303715884105728", "170141183460469231731687303715884105728",
        "12", " +7 ", "1.5", "1e3", "-", "+", "zz", "ǆ ǅ ǈ ŉ ß ﬁ İ", "it's o'clock-now", "||a||", "aaa", "aaaa",
        "line1\n  \n\nline4\n", "ab ab ab", "\n", "\r\n", "a\n", "\u{a0}x\u{2028}\u{3000}", "hello", "ll", "1.0", "-0",
        "００１",
    ] {
        v.push(Value::from(s));
    }
    v.push(Value::safe_string("  <b>safe</b>  "));
    let ints = |xs: &[i64]| Value::from(xs.iter().map(|x| Value::from(*x)).collect::<Vec<_>>());
    v.push(ints(&[3, 1, 2]));
    v.push(Value::from(vec![Value::from("b"), Value::from("a"), Value::from("é")]));
    v.push(Value::from(vec![ints(&[1]), ints(&[2])]));
    v.push(Value::from(vec![Value::from(1.5f64), Value::from(2u64)]));
    v.push(Value::from(vec![Value::none(), Value::from(1u64), Value::undefined()]));
    v.push(Value::from(vec![Value::from(true), Value::from(false)]));
    let mk = |pairs: Vec<(tera::value::Key<'static>, Value)>| {
        let mut m = tera::Map::new();
        for (k, x) in pairs {
            m.insert(k, x);
        }
        Value::from(m)
    };
    let ma = mk(vec![("a".into(), Value::from(1u64))]);
    let mb = mk(vec![("a".into(), Value::from(2u64)), ("b".into(), Value::from("x"))]);
    let mc = mk(vec![("a".into(), Value::none())]);
    v.push(Value::from(vec![mb.clone(), ma.clone()]));
    v.push(Value::from(vec![ma.clone(), mc, Value::from(3u64)]));
    v.push(mk(vec![]));
    v.push(mb);
    v.push(mk(vec![
        (tera::value::Key::U64(1), Value::from("one")),
        (tera::value::Key::Bool(true), Value::from(2u64)),
        (tera::value::Key::I64(-1), Value::from(vec![Value::from(1u64)])),
    ]));
    v.push(Value::bytes(Vec::<u8>::new()));
    v.push(Value::bytes(b"abc".to_vec()));
    v.push(Value::from(f64::from_bits(1)));
    v.push(Value::from(f64::MIN_POSITIVE));
    v.push(Value::from(-f64::from_bits(1)));
    v.push(Value::from(i64::MAX));
    v.push(Value::from(i128::MAX - 1));
    v
}

/// Receivers appended after `receivers()`: one string per UTF-8 lead byte ("x", first and last
/// scalar value of that lead byte, "y") — 4 characters, 6 to 10 bytes each. They meet every
/// built-in with no kwargs and the string built-ins with receiver-specific kwargs (`focus_cells`).
fn lead_byte_receivers() -> Vec<Value> {
    let mut v: Vec<Value> = pools::utf8_lead_byte_strings().iter().map(|s| Value::from(s.as_str())).collect();
    // mixed line endings (CR, LF, CRLF in every adjacency) and runs of blanks/tabs around them: they go
    // through every string built-in on the model side as well (newlines_to_br, indent, trim*, wordcount, title ...)
    for s in ["a\r\n\nb", "\r\n\n\n", "\r\r\n", "\n\r\n\r", "x\r\n\r\n\ny\r\n", "\r", "a\rb\n\nc", "\n\n", " \r\n \n\t\r x"] {
        v.push(Value::from(s));
    }
    v
}

type Shape = Vec<(&'static str, Value)>;

/// Kwarg shapes of one built-in: every documented kwarg absent / at each boundary value of the
/// right kind / at a value of each wrong kind, the others absent or at their first good value;
/// plus the product of the (first `prod_cap`) good values; plus an undocumented kwarg.
fn shapes(spec: &[Kw], prod_cap: usize) -> Vec<Shape> {
    let mut out: Vec<Shape> = vec![vec![]];
    out.push(vec![("zz", Value::from(1u64))]);
    if spec.is_empty() {
        return out;
    }
    let goods: Vec<Vec<Value>> = spec.iter().map(good_values).collect();
    let bad = pools::kind_pool();
    let n = spec.len();
    for i in 0..n {
        let mut vals = goods[i].clone();
        vals.extend(bad.iter().cloned());
        for v in vals {
            for mask in 0..(1u32 << (n - 1)) {
                let mut sh: Shape = Vec::new();
                let mut bit = 0;
                for j in 0..n {
                    if j == i {
                        sh.push((spec[j].name, v.clone()));
                    } else {
                        if mask >> bit & 1 == 1 {
                            sh.push((spec[j].name, goods[j][0].clone()));
                        }
                        bit += 1;
                    }
                }
                out.push(sh);
            }
        }
    }
    // product of good values
    let lens: Vec<usize> = goods.iter().map(|g| g.len().min(prod_cap)).collect();
    let total: usize = lens.iter().product();
    for mut idx in 0..total {
        let mut sh: Shape = Vec::new();
        for j in 0..n {
            let k = idx % lens[j];
            idx /= lens[j];
            sh.push((spec[j].name, goods[j][k].clone()));
        }
        out.push(sh);
    }
    out
}

/// range: every combination of (absent | boundary integer) for start, end, step_by
fn range_boundary_shapes() -> Vec<Shape> {
    let pool: Vec<Option<Value>> = std::iter::once(None)
        .chain(
            [
                0i128, 1, -1, 2, -2, 5, -7, 99_999, 100_000, 100_001, -100_000,
                i128::MAX, i128::MAX - 1, i128::MAX - 2, i128::MIN, i128::MIN + 1, i128::MIN + 2,
                1i128 << 126, -(1i128 << 126), (1i128 << 126) + 1, i64::MAX as i128, i64::MIN as i128,
            ]
            .into_iter()
            .map(|z| Some(Value::from(z))),
        )
        .collect();
    let mut out = Vec::new();
    for a in &pool {
        for b in &pool {
            for c in &pool {
                let mut sh: Shape = Vec::new();
                if let Some(v) = a {
                    sh.push(("start", v.clone()));
                }
                if let Some(v) = b {
                    sh.push(("end", v.clone()));
                }
                if let Some(v) = c {
                    sh.push(("step_by", v.clone()));
                }
                out.push(sh);
            }
        }
    }
    out
}

fn generic_shapes() -> Vec<Shape> {
    let mut out: Vec<Shape> = vec![vec![]];
    for v in pools::kind_pool() {
        out.push(vec![("value", v.clone())]);
        out.push(vec![("pat", v.clone())]);
        out.push(vec![("n", v)]);
    }
    out
}

// ---------------------------------------------------------------- evaluation

fn cell_expr(bk: BK, name: &str, sh: &Shape) -> String {
    let mut args = String::new();
    for (i, (k, _)) in sh.iter().enumerate() {
        if i > 0 {
            args.push_str(", ");
        }
        let _ = write!(args, "{k}=a{i}");
    }
    match bk {
        BK::Filter => {
            if sh.is_empty() {
                format!("x | {name}")
            } else {
                format!("x | {name}({args})")
            }
        }
        BK::Test => {
            if sh.is_empty() {
                format!("x is {name}")
            } else {
                format!("x is {name}({args})")
            }
        }
        BK::Function => format!("{name}({args})"),
    }
}

fn run_cell(tera: &Tera, bk: BK, name: &str, recv: &Value, sh: &Shape) -> Outcome<Value> {
    let mut ctx = Context::new();
    if !recv.is_undefined() {
        ctx.insert_value("x", recv.clone());
    }
    for (i, (_, v)) in sh.iter().enumerate() {
        if !v.is_undefined() {
            ctx.insert_value(format!("a{i}"), v.clone());
        }
    }
    eval_expr(tera, &cell_expr(bk, name, sh), &ctx)
}

/// Outcome class of a cell: "ok", "invalid", "missing", "range", "other", "panic", or "harness:*"
/// when the template itself was refused (a harness problem, never expected).
fn class_of(o: &Outcome<Value>) -> &'static str {
    match o {
        Outcome::Ok(_) => "ok",
        Outcome::Panic(_) => "panic",
        Outcome::Err(c, m) => {
            if c != "render" {
                "harness:not-a-render-error"
            } else if m.contains("Invalid type for the value, expected `") {
                "invalid"
            } else if m.contains("Missing keyword argument `") {
                "missing"
            } else if m.contains("Value `") && m.contains("` is out of range for `") {
                "range"
            } else {
                "other"
            }
        }
    }
}

fn gal_bres(o: &Outcome<Value>) -> String {
    match class_of(o) {
        "ok" => match o {
            Outcome::Ok(v) => format!("(BOk {})", gal_value(v)),
            _ => unreachable!(),
        },
        "invalid" => "(BErr EInvalidArg)".into(),
        "missing" => "(BErr EMissingArg)".into(),
        "range" => "(BErr EOutOfRange)".into(),
        "panic" => "(BErr EPanic)".into(),
        _ => "(BErr EOther)".into(),
    }
}

fn all_strings_valid(v: &Value) -> bool {
    if let Some(s) = v.as_str() {
        return std::str::from_utf8(s.as_bytes()).is_ok();
    }
    if let Some(a) = v.as_array() {
        return a.iter().all(all_strings_valid);
    }
    if let Some(m) = v.as_map() {
        return m.iter().all(|(k, x)| k.as_str().map_or(true, |s| std::str::from_utf8(s.as_bytes()).is_ok()) && all_strings_valid(x));
    }
    true
}

fn value_size(v: &Value) -> usize {
    if let Some(a) = v.as_array() {
        return 1 + a.iter().map(value_size).sum::<usize>();
    }
    if let Some(m) = v.as_map() {
        return 1 + m.iter().map(|(_, x)| value_size(x)).sum::<usize>();
    }
    if let Some(s) = v.as_str() {
        return 1 + s.len() / 16;
    }
    1
}

fn needs_fmt_oracle(v: &Value) -> bool {
    v.is_f64() || v.is_array() || v.is_map() || v.is_bytes()
}

/// Cells whose value the model leaves to a std oracle (must be a superset of the cells on which
/// Model.Builtins returns None).
fn cell_unmodelled(bk: BK, name: &str, recv: &Value) -> bool {
    match (bk, name) {
        (BK::Filter, "safe" | "str") => needs_fmt_oracle(recv),
        (BK::Filter, "join") => recv.as_array().map_or(false, |a| a.iter().any(needs_fmt_oracle)),
        (BK::Filter, "int") => recv.as_str().map_or(false, |s| s.contains('.')),
        (BK::Filter, "float") => recv.is_string(),
        (BK::Test, "containing") => recv.is_array() || recv.is_map(),
        _ => false,
    }
}

// ---------------------------------------------------------------- std oracles for a cell

fn gal_list<T>(xs: impl Iterator<Item = T>, f: impl Fn(T) -> String) -> String {
    let parts: Vec<String> = xs.map(f).collect();
    format!("[{}]", parts.join("; "))
}

fn casemap_terms(bk: BK, name: &str, recv: &Value) -> (String, String) {
    if bk != BK::Filter || !matches!(name, "upper" | "lower" | "capitalize" | "title") {
        return ("[]".into(), "[]".into());
    }
    let Some(s) = recv.as_str() else { return ("[]".into(), "[]".into()) };
    let mut seen = std::collections::BTreeSet::new();
    let mut ents = Vec::new();
    for c in s.chars() {
        if !seen.insert(c) {
            continue;
        }
        let up: Vec<char> = c.to_uppercase().collect();
        let lo: Vec<char> = c.to_lowercase().collect();
        if up == [c] && lo == [c] {
            continue;
        }
        ents.push(format!(
            "({}%N, ({}, {}))",
            c as u32,
            gal_nlist(up.iter().map(|x| *x as u64)),
            gal_nlist(lo.iter().map(|x| *x as u64))
        ));
    }
    // Final_Sigma: read off std's str::to_lowercase on the whole string and on its tail
    let mut sig = Vec::new();
    let tail: String = s.chars().skip(1).collect();
    let mut strs = vec![s.to_string()];
    if tail != s {
        strs.push(tail);
    }
    for t in strs {
        if !t.contains('Σ') {
            continue;
        }
        let low: Vec<char> = t.to_lowercase().chars().collect();
        let mut j = 0;
        let mut finals = Vec::new();
        for (i, c) in t.chars().enumerate() {
            if c == 'Σ' {
                if low[j] == 'ς' {
                    finals.push(i);
                }
                j += 1;
            } else {
                j += c.to_lowercase().count();
            }
        }
        sig.push(format!("({}, {})", gal_str(&t), gal_list(finals.iter(), |i| format!("{i}%nat"))));
    }
    (format!("[{}]", ents.join("; ")), format!("[{}]", sig.join("; ")))
}

fn pow10_term(bk: BK, name: &str, sh: &Shape) -> String {
    if bk != BK::Filter || name != "round" {
        return "[]".into();
    }
    for (k, v) in sh {
        if *k == "precision" {
            let p: Option<i32> = i32::try_from(v.clone()).ok();
            if let Some(p) = p {
                return format!("[({}, {})]", gal_z(p as i128), gal_f64(10.0_f64.powi(p)));
            }
        }
    }
    "[]".into()
}

fn kind_tag(v: &Value) -> &'static str {
    v.name()
}

/// Cells that are compared with the model in BOTH tiers whatever the sampler draws: the type-test
/// partition on every receiver, and the string built-ins on multi-byte receivers where a byte
/// count used for a character count (or the reverse) shows.
fn focus_cells(recvs: &[Value], lb_start: usize, has: &dyn Fn(BK, &str) -> bool) -> Vec<Cell> {
    let mut out = Vec::new();
    let push = |out: &mut Vec<Cell>, bk: BK, name: &str, ri: usize, sh: Shape| {
        if has(bk, name) {
            out.push(Cell { bk, name: name.to_string(), ri, sh, focus: true });
        }
    };
    for (ri, r) in recvs.iter().enumerate() {
        let Some(s) = r.as_str() else { continue };
        if s.is_ascii() && !s.is_empty() && s != "hello world" {
            continue;
        }
        let chars: Vec<char> = s.chars().collect();
        // truncate at every length 0..=chars+2, default / empty / multi-byte end marker
        for n in 0..=(chars.len() as u64 + 2) {
            push(&mut out, BK::Filter, "truncate", ri, vec![("length", Value::from(n))]);
            if (ri >= lb_start && (3..=5).contains(&n)) || (ri < lb_start && n % 2 == 0) {
                push(&mut out, BK::Filter, "truncate", ri, vec![("length", Value::from(n)), ("end", Value::from(""))]);
                push(&mut out, BK::Filter, "truncate", ri, vec![("length", Value::from(n)), ("end", Value::from("é>"))]);
            }
        }
        // a length between the character count and the byte count, in other representations
        if s.len() > chars.len() {
            let mid = (chars.len() + s.len()) / 2;
            for v in [Value::from(mid as i64), Value::from(mid as u128), Value::from(mid as f64), Value::from(s.len() as u64 - 1), Value::from(chars.len() as i128)] {
                push(&mut out, BK::Filter, "truncate", ri, vec![("length", v)]);
            }
        }
        if ri < lb_start || chars.len() != 4 {
            continue;
        }
        // receiver-specific patterns: the ASCII ends, the multi-byte middle, mixed
        let pats: Vec<String> = vec![
            chars[1].to_string(),
            chars[1..3].iter().collect(),
            chars[2..].iter().collect(),
            chars[..2].iter().collect(),
        ];
        for p in &pats {
            for name in ["trim", "trim_start", "trim_end", "split"] {
                push(&mut out, BK::Filter, name, ri, vec![("pat", Value::from(p.as_str()))]);
            }
            for name in ["starting_with", "ending_with", "containing"] {
                push(&mut out, BK::Test, name, ri, vec![("pat", Value::from(p.as_str()))]);
            }
        }
        push(&mut out, BK::Filter, "split", ri, vec![("pat", Value::from(""))]);
        push(&mut out, BK::Filter, "replace", ri, vec![("from", Value::from(pats[0].as_str())), ("to", Value::from(""))]);
        push(&mut out, BK::Filter, "replace", ri, vec![("from", Value::from(pats[1].as_str())), ("to", Value::from("é"))]);
        push(&mut out, BK::Filter, "replace", ri, vec![("from", Value::from("")), ("to", Value::from(pats[0].as_str()))]);
        for w in [0u64, 1, 3] {
            push(&mut out, BK::Filter, "indent", ri, vec![("width", Value::from(w)), ("first", Value::from(true))]);
        }
        push(&mut out, BK::Filter, "pluralize", ri, vec![("plural", Value::from(pats[1].as_str()))]);
    }
    // nth / first / last / join / reverse / length on arrays of multi-byte strings
    out
}

struct Cell {
    focus: bool,
    bk: BK,
    name: String,
    ri: usize,
    sh: Shape,
}

fn cell_gallina(c: &Cell, recv: &Value, o: &Outcome<Value>) -> String {
    let (cm, sg) = casemap_terms(c.bk, &c.name, recv);
    let kwt = gal_list(c.sh.iter(), |(k, v)| format!("({}, {})", gal_str(k), gal_value(v)));
    format!(
        "{{| b_kind := {}%N; b_name := \"{}\"%string; b_recv := {}; b_kw := {}; b_casemap := {}; b_sigma := {}; b_pow10 := {}; b_impl := {} |}}",
        match c.bk { BK::Filter => 0, BK::Test => 1, BK::Function => 2 },
        c.name,
        if c.bk == BK::Function { "VNone".to_string() } else { gal_value(recv) },
        kwt,
        cm,
        sg,
        pow10_term(c.bk, &c.name, &c.sh),
        gal_bres(o)
    )
}

fn cell_desc(c: &Cell, recv: &Value, o: &Outcome<Value>) -> serde_json::Value {
    json!({"kind": format!("{:?}", c.bk), "name": c.name, "recv_idx": c.ri, "recv": json_value(recv),
        "expr": cell_expr(c.bk, &c.name, &c.sh),
        "kwargs": c.sh.iter().map(|(k, v)| json!([k, json_value(v)])).collect::<Vec<_>>(),
        "class": class_of(o), "impl": o.json(json_value)})
}

// ---------------------------------------------------------------- names

fn read_names() -> Result<(Vec<String>, Vec<String>, Vec<String>), String> {
    let candidates = ["coq/Gen/Builtins.v".to_string(), format!("{}/../coq/Gen/Builtins.v", env!("CARGO_MANIFEST_DIR"))];
    let mut text = None;
    for p in &candidates {
        if let Ok(t) = std::fs::read_to_string(p) {
            text = Some(t);
            break;
        }
    }
    let text = text.ok_or("coq/Gen/Builtins.v not found (run tools/gen_tables.py)")?;
    let list = |def: &str| -> Result<Vec<String>, String> {
        let line = text.lines().find(|l| l.starts_with(&format!("Definition {def} "))).ok_or(format!("{def} missing"))?;
        let mut out = Vec::new();
        let mut it = line.split('"');
        it.next();
        while let Some(s) = it.next() {
            out.push(s.to_string());
            it.next();
        }
        Ok(out)
    };
    Ok((list("builtin_filters")?, list("builtin_tests")?, list("builtin_functions")?))
}

/// `range` law checked on the implementation: when the exact progression is representable and
/// within the cap the call must succeed with exactly that progression; otherwise it must fail.
/// Returns a description of the deviation, if any.
fn range_law(sh: &Shape, o: &Outcome<Value>) -> Option<(&'static str, String)> {
    let mut start = 0i128;
    let mut end: Option<i128> = None;
    let mut step = 1i128;
    for (k, v) in sh {
        let z = match i128::try_from(v.clone()) {
            Ok(z) => z,
            Err(_) => return None, // argument errors are the matrix's business
        };
        match *k {
            "start" => start = z,
            "end" => end = Some(z),
            "step_by" => step = z,
            _ => {}
        }
    }
    let end = end?;
    let must_fail = step == 0 || (start > end && step > 0);
    let len: u128 = if must_fail {
        0
    } else if step > 0 {
        (end as u128).wrapping_sub(start as u128).div_ceil(step as u128)
    } else if start <= end {
        0
    } else {
        (start as u128).wrapping_sub(end as u128).div_ceil(step.unsigned_abs())
    };
    match o {
        Outcome::Ok(v) => {
            if must_fail || len > 100_000 {
                return Some(("range:accepted-what-it-must-refuse", format!("expected an error, {len} terms")));
            }
            let a = v.as_array()?;
            let mut cur = start;
            if a.len() as u128 != len {
                return Some(("range:wrong-length", format!("{} terms instead of {len}", a.len())));
            }
            for x in a {
                if x.as_i128() != Some(cur) {
                    return Some(("range:wrong-term", format!("term {x} instead of {cur}")));
                }
                cur = cur.wrapping_add(step);
            }
            None
        }
        Outcome::Err(..) => {
            if !must_fail && len <= 100_000 {
                Some(("range:span-overflow-refused", format!("a representable progression of {len} terms within the cap was refused")))
            } else {
                None
            }
        }
        Outcome::Panic(_) => None,
    }
}

/// `truncate` law on the implementation, counted in characters: at most `length` characters are
/// kept and the end marker is appended exactly when something was cut.
fn truncate_law(recv: &Value, sh: &Shape, o: &Outcome<Value>) -> Option<String> {
    let s = recv.as_str()?;
    let mut length: Option<usize> = None;
    let mut end = "…".to_string();
    for (k, v) in sh {
        match *k {
            "length" => length = Some(usize::try_from(v.clone()).ok()?),
            "end" => end = v.as_str()?.to_string(),
            _ => {}
        }
    }
    let length = length?;
    let n = s.chars().count();
    let expected: String = if n <= length { s.to_string() } else { s.chars().take(length).collect::<String>() + &end };
    match o {
        Outcome::Ok(v) if v.as_str() == Some(expected.as_str()) => None,
        Outcome::Ok(v) => Some(format!(
            "truncate(length={length}) of a {n}-character / {}-byte string returned {v:?}, expected {expected:?}",
            s.len()
        )),
        Outcome::Err(_, m) => Some(format!("truncate with valid arguments failed: {m}")),
        Outcome::Panic(_) => None,
    }
}

/// What each kind test must answer, from the kind of the receiver alone (documentation:
/// `number` = integer or float, `integer` = any integer width, `iterable` = map/array/string/bytes).
fn type_test_expected(name: &str, v: &Value) -> Option<bool> {
    use tera::value::ValueKind as K;
    let k = v.kind();
    let int = matches!(k, K::U64 | K::I64 | K::U128 | K::I128);
    Some(match name {
        "string" => k == K::String,
        "number" => int || k == K::F64,
        "integer" => int,
        "float" => k == K::F64,
        "map" => k == K::Map,
        "bool" => k == K::Bool,
        "array" => k == K::Array,
        "none" => k == K::None,
        "iterable" => matches!(k, K::Map | K::Array | K::String | K::Bytes),
        "defined" => k != K::Undefined,
        "undefined" => k == K::Undefined,
        _ => return None,
    })
}

/// Known-finding class of a cell (used when model and implementation disagree on it): `range`
/// arguments on which the checked length computation of functions.rs overflows.
fn cell_kf(c: &Cell) -> Option<&'static str> {
    if c.bk != BK::Function || c.name != "range" {
        return None;
    }
    let mut start = 0i128;
    let mut end: Option<i128> = None;
    let mut step = 1i128;
    for (k, v) in &c.sh {
        let z = i128::try_from(v.clone()).ok()?;
        match *k {
            "start" => start = z,
            "end" => end = Some(z),
            "step_by" => step = z,
            _ => {}
        }
    }
    let end = end?;
    let overflow = if step > 0 && start <= end {
        end.checked_sub(start).and_then(|s| s.checked_add(step - 1)).is_none()
    } else if step < 0 && start > end {
        step.checked_neg().and_then(|st| start.checked_sub(end).and_then(|s| s.checked_add(st - 1))).is_none()
    } else {
        false
    };
    if overflow { Some("range:span-overflow-refused") } else { None }
}

fn bump(counts: &mut BTreeMap<String, usize>, key: &str) -> bool {
    let n = counts.entry(key.to_string()).or_default();
    *n += 1;
    *n <= 20
}

/// Receivers of the pattern sweep: every word over {x,y,h} up to 5 letters, every word over
/// {日,本,語} up to 3, and a few texts whose ends carry whole, permuted and partial occurrences.
fn pattern_sweep_receivers() -> Vec<Value> {
    fn words(alpha: &[char], max: usize) -> Vec<String> {
        let mut out = vec![String::new()];
        let mut last = vec![String::new()];
        for _ in 0..max {
            let mut next = Vec::new();
            for w in &last {
                for c in alpha {
                    let mut t = w.clone();
                    t.push(*c);
                    next.push(t);
                }
            }
            out.extend(next.iter().cloned());
            last = next;
        }
        out
    }
    let mut v: Vec<String> = words(&['x', 'y', 'h'], 5);
    v.extend(words(&['日', '本', '語'], 3).into_iter().skip(1));
    for s in ["--> a-b <--", "->->a->b->->", "xyxyhixyxy", "yxhixy", "xyhxyhxy", "abcabcXabcabc", "cabXbca", "日本日本語本日本", "éàéàzàé", "\r\n\r\nline\n\r"] {
        v.push(s.to_string());
    }
    v.into_iter().map(|s| Value::from(s.as_str())).collect()
}

/// The pattern-taking string built-ins over the sweep receivers x multi-character patterns: whole
/// occurrences at the ends x0..3, permuted / partial occurrences, pattern characters in the middle
/// only, the empty pattern, patterns longer than the receiver, receiver == pattern^n. Every cell is
/// checked against `pat_law` on the implementation; the cells over words of <= 4 (trim family) /
/// <= 3 letters (the others) always go to the model.
fn pattern_sweep_cells(recvs: &[Value], sweep_start: usize, has: &dyn Fn(BK, &str) -> bool) -> Vec<Cell> {
    let mut out = Vec::new();
    for ri in sweep_start..recvs.len() {
        let s = recvs[ri].as_str().unwrap_or("");
        let n = s.chars().count();
        let ascii_word = s.chars().all(|c| matches!(c, 'x' | 'y' | 'h'));
        let cjk_word = !s.is_empty() && s.chars().all(|c| matches!(c, '日' | '本' | '語'));
        let pats: Vec<&str> = if ascii_word {
            vec!["", "x", "y", "xx", "xy", "yx", "yy", "xyx", "hxy"]
        } else if cjk_word {
            vec!["", "日", "日本", "本日", "語日本"]
        } else {
            vec!["", "->", ">-", "-", "xy", "yx", "abc", "cab", "bc", "日本", "本日", "éà", "àé", "\r\n", "\n\r"]
        };
        for p in pats {
            let pl = p.chars().count();
            let small = pl <= 2 || !ascii_word;
            for name in ["trim", "trim_start", "trim_end"] {
                if has(BK::Filter, name) {
                    let focus = (ascii_word && small && ((n <= 3 && matches!(p, "" | "x" | "xy" | "yx" | "xx")) || (n == 4 && p == "xy")))
                        || (cjk_word && (n <= 2 || p == "日本"))
                        || (!ascii_word && !cjk_word);
                    out.push(Cell { bk: BK::Filter, name: name.to_string(), ri, sh: vec![("pat", Value::from(p))], focus });
                }
            }
            let focus2 = (ascii_word && n <= 3 && matches!(p, "" | "xy")) || (cjk_word && n <= 2 && p == "日本") || (!ascii_word && !cjk_word && pl == 2);
            if has(BK::Filter, "split") {
                out.push(Cell { bk: BK::Filter, name: "split".into(), ri, sh: vec![("pat", Value::from(p))], focus: focus2 });
            }
            if has(BK::Filter, "replace") {
                out.push(Cell { bk: BK::Filter, name: "replace".into(), ri, sh: vec![("from", Value::from(p)), ("to", Value::from("-"))], focus: focus2 });
            }
            for name in ["starting_with", "ending_with", "containing"] {
                if has(BK::Test, name) {
                    out.push(Cell { bk: BK::Test, name: name.to_string(), ri, sh: vec![("pat", Value::from(p))], focus: focus2 });
                }
            }
        }
    }
    out
}

/// Reference semantics of the pattern-taking built-ins, written from their documentation with
/// nothing but prefix/suffix tests on whole patterns: trim_start/trim_end remove whole occurrences
/// of `pat` while one is there (the empty pattern removes nothing), trim = trim_end after
/// trim_start, split/replace cut at the leftmost non-overlapping occurrences.
fn pat_law(name: &str, recv: &Value, sh: &Shape, o: &Outcome<Value>) -> Option<String> {
    let s = recv.as_str()?;
    let arg = |k: &str| sh.iter().find(|(n, _)| *n == k).and_then(|(_, v)| v.as_str());
    fn strip_start<'a>(mut s: &'a str, p: &str) -> &'a str {
        if p.is_empty() {
            return s;
        }
        while let Some(r) = s.strip_prefix(p) {
            s = r;
        }
        s
    }
    fn strip_end<'a>(mut s: &'a str, p: &str) -> &'a str {
        if p.is_empty() {
            return s;
        }
        while let Some(r) = s.strip_suffix(p) {
            s = r;
        }
        s
    }
    fn pieces(s: &str, p: &str) -> Vec<String> {
        if p.is_empty() {
            let mut v = vec![String::new()];
            v.extend(s.chars().map(|c| c.to_string()));
            v.push(String::new());
            return v;
        }
        let mut out = Vec::new();
        let mut cur = String::new();
        let mut rest = s;
        while !rest.is_empty() {
            if let Some(r) = rest.strip_prefix(p) {
                out.push(std::mem::take(&mut cur));
                rest = r;
            } else {
                let c = rest.chars().next().unwrap();
                cur.push(c);
                rest = &rest[c.len_utf8()..];
            }
        }
        out.push(cur);
        out
    }
    let expected: Value = match name {
        "trim" | "trim_start" | "trim_end" => {
            if sh.iter().any(|(k, _)| *k != "pat") {
                return None;
            }
            let p = arg("pat")?;
            let r = match name {
                "trim_start" => strip_start(s, p),
                "trim_end" => strip_end(s, p),
                _ => strip_end(strip_start(s, p), p),
            };
            Value::from(r)
        }
        "split" => Value::from(pieces(s, arg("pat")?).into_iter().map(Value::from).collect::<Vec<_>>()),
        "replace" => Value::from(pieces(s, arg("from")?).join(arg("to")?)),
        _ => return None,
    };
    match o {
        Outcome::Ok(v) if *v == expected => None,
        Outcome::Ok(v) => Some(format!("`{name}` of {s:?} with {:?} returned {v:?}, expected {expected:?} (whole occurrences of the pattern only)",
            sh.iter().map(|(k, v)| format!("{k}={v:?}")).collect::<Vec<_>>())),
        Outcome::Err(_, m) => Some(format!("`{name}` with valid string arguments failed: {m}")),
        Outcome::Panic(_) => None,
    }
}

/// filters whose result depends on the characters of a string receiver
const STRINGISH: &[&str] = &["safe", "upper", "lower", "wordcount", "escape_html", "escape_xml", "newlines_to_br", "trim",
    "trim_start", "trim_end", "capitalize", "title", "indent", "str", "int", "length", "reverse", "pluralize"];

const ARITH: &[&str] = &["range", "abs", "int", "float", "round", "odd", "even", "divisible_by", "nth", "truncate", "indent", "pluralize", "length"];

fn digest(o: &Outcome<Value>) -> String {
    match o {
        Outcome::Ok(v) => {
            // canonical text (sorted map entries): HashMap order differs between processes
            let s = gal_value(v);
            let mut h: u64 = 0xcbf29ce484222325;
            for b in s.bytes() {
                h ^= b as u64;
                h = h.wrapping_mul(0x100000001b3);
            }
            format!("ok:{h:016x}")
        }
        Outcome::Panic(m) => format!("panic:{}", m.replace('\n', " ")),
        _ => class_of(o).to_string(),
    }
}

fn main() {
    let args = parse_args();
    silence_panics();
    let mut tera = Tera::default();
    register_probe(&mut tera);
    let thorough = args.tier == "thorough";
    let arith_child = args.extra.iter().any(|x| x == "--arith-debug");
    let mut rng = Rng::new(args.seed);
    let mut meta = Meta::default();

    let (filters, tests, functions) = match read_names() {
        Ok(x) => x,
        Err(e) => {
            eprintln!("c17: {e}");
            std::process::exit(3);
        }
    };
    let mut recvs = receivers();
    let lb_start = recvs.len();
    recvs.extend(lead_byte_receivers());
    let sweep_start = recvs.len();
    recvs.extend(pattern_sweep_receivers());

    if let Some(rp) = &args.replay {
        let r: serde_json::Value = serde_json::from_str(&std::fs::read_to_string(rp).expect("replay file")).expect("json");
        let case = r.get("case").or_else(|| r.get("input")).unwrap_or(&r);
        let bk = match case["kind"].as_str().unwrap_or("Filter") { "Test" => BK::Test, "Function" => BK::Function, _ => BK::Filter };
        let name = case["name"].as_str().unwrap_or("").to_string();
        let ri = case["recv_idx"].as_u64().unwrap_or(0) as usize;
        let mut sh: Shape = Vec::new();
        for kv in case["kwargs"].as_array().cloned().unwrap_or_default() {
            let k: &'static str = Box::leak(kv[0].as_str().unwrap().to_string().into_boxed_str());
            sh.push((k, value_from_json(&kv[1])));
        }
        let o = run_cell(&tera, bk, &name, &recvs[ri.min(recvs.len() - 1)], &sh);
        println!("{} -> {}", cell_expr(bk, &name, &sh), o.json(json_value));
        return;
    }

    // ---- enumerate the matrix
    let mut cells: Vec<Cell> = Vec::new();
    let mut unknown: Vec<String> = Vec::new();
    for (bk, names) in [(BK::Filter, &filters), (BK::Test, &tests), (BK::Function, &functions)] {
        for name in names.iter() {
            if arith_child && !ARITH.contains(&name.as_str()) {
                continue;
            }
            let shs = match spec(bk, name) {
                Some(sp) => {
                    let mut v = shapes(&sp, if name == "range" { 14 } else { 6 });
                    if bk == BK::Function && name == "range" {
                        v.extend(range_boundary_shapes());
                    }
                    v
                }
                None => {
                    unknown.push(name.clone());
                    generic_shapes()
                }
            };
            if bk == BK::Function {
                for sh in shs {
                    cells.push(Cell { bk, name: name.clone(), ri: 1, sh, focus: false });
                }
            } else {
                for sh in &shs {
                    for ri in 0..sweep_start {
                        // the lead-byte strings meet every built-in without kwargs only (plus focus_cells)
                        if ri >= lb_start && !sh.is_empty() {
                            continue;
                        }
                        // the type tests on every receiver, and every built-in on the lead-byte strings
                        let focus = sh.is_empty()
                            && ((bk == BK::Test && ri < lb_start + 3)
                                || (bk == BK::Filter && ri >= lb_start && STRINGISH.contains(&name.as_str())));
                        cells.push(Cell { bk, name: name.clone(), ri, sh: sh.clone(), focus });
                    }
                }
            }
        }
    }

    {
        let has = |bk: BK, name: &str| -> bool {
            let names = match bk { BK::Filter => &filters, BK::Test => &tests, BK::Function => &functions };
            names.iter().any(|n| n == name) && !(arith_child && !ARITH.contains(&name))
        };
        cells.extend(focus_cells(&recvs[..sweep_start], lb_start, &has));
        cells.extend(pattern_sweep_cells(&recvs, sweep_start, &has));
    }

    if arith_child {
        // debug-profile re-run: one digest line per cell
        let mut out = String::new();
        for c in &cells {
            let o = run_cell(&tera, c.bk, &c.name, &recvs[c.ri], &c.sh);
            let _ = writeln!(out, "{}", digest(&o));
        }
        std::fs::create_dir_all(&args.out).expect("mkdir");
        std::fs::write(args.out.join("arith_debug.txt"), out).expect("write");
        return;
    }

    // ---- every registered name resolves through the engine
    for (bk, names) in [(BK::Filter, &filters), (BK::Test, &tests), (BK::Function, &functions)] {
        for name in names.iter() {
            meta.oracle_checks += 1;
            let o = run_cell(&tera, bk, name, &Value::from(1u64), &vec![]);
            if class_of(&o).starts_with("harness") {
                meta.oracle_fail(&format!("registered {bk:?} `{name}` does not resolve through the engine"), None, json!({"name": name, "impl": o.json(json_value)}));
            }
        }
    }
    let o = run_cell(&tera, BK::Filter, "zz_not_a_builtin", &Value::from(1u64), &vec![]);
    if !class_of(&o).starts_with("harness") {
        meta.oracle_fail("an unregistered filter name was accepted", None, json!({"impl": o.json(json_value)}));
    }

    // ---- run everything on the implementation
    let hdr = "From Coq Require Import String.\nFrom TeraV Require Import Model.Value Model.Builtins Corr.CorrC17.";
    let mut sink = Sink::new(&args.out, "cell", hdr, "check_case");
    let mut by_class: BTreeMap<String, usize> = BTreeMap::new();
    let mut per_builtin: BTreeMap<String, [usize; 3]> = BTreeMap::new(); // cells, modelled-eligible, sent
    let mut strata: HashSet<String> = HashSet::new();
    let mut arith_digests: Vec<String> = Vec::new();
    let mut n_oracle_only = 0usize;
    let mut n_oracle_only_nontrivial = 0usize;
    let mut n_modelled_eligible = 0usize;
    let mut pending: Vec<(usize, String, serde_json::Value, bool, Vec<String>)> = Vec::new();
    let quick_fill = 300usize;
    // known-finding classes are reported 20 times each at most (all are counted), so that they
    // cannot crowd a new failure out of the bounded failure list
    let mut kf_counts: BTreeMap<String, usize> = BTreeMap::new();
    // thorough tier: every stratum plus a uniform draw of the remaining modelled cells, about
    // `model_cap` cells in total (default 60000: ~1 min of coqc on 16 idle cores, ~15 min on a
    // heavily shared machine); C17_MODEL_CAP=0 sends every modelled cell
    let model_cap: Option<usize> = match std::env::var("C17_MODEL_CAP").ok().and_then(|x| x.parse::<usize>().ok()) {
        Some(0) => None,
        Some(n) => Some(n),
        None => Some(60_000),
    };
    let n_cells = cells.len();

    for (ci, c) in cells.iter().enumerate() {
        let recv = &recvs[c.ri];
        let o = run_cell(&tera, c.bk, &c.name, recv, &c.sh);
        let cls = class_of(&o);
        meta.oracle_checks += 1;
        *by_class.entry(cls.to_string()).or_default() += 1;
        let key = format!("{:?}:{}", c.bk, c.name);
        per_builtin.entry(key.clone()).or_default()[0] += 1;
        if ARITH.contains(&c.name.as_str()) {
            arith_digests.push(digest(&o));
        }
        match &o {
            Outcome::Panic(m) => {
                let kf = if c.name == "sort" { Some("sort:incomparable-panics-in-std") } else { None };
                meta.oracle_fail(&format!("panic in built-in `{}`: {m}", c.name), kf, cell_desc(c, recv, &o));
            }
            Outcome::Ok(v) => {
                if !all_strings_valid(v) {
                    meta.oracle_fail(&format!("invalid UTF-8 in the result of `{}`", c.name), None, cell_desc(c, recv, &o));
                }
            }
            Outcome::Err(..) => {
                if cls.starts_with("harness") {
                    meta.oracle_fail(&format!("cell template refused ({cls})"), None, cell_desc(c, recv, &o));
                }
            }
        }
        if c.bk == BK::Function && c.name == "range" {
            meta.oracle_checks += 1;
            if let Some((kf, what)) = range_law(&c.sh, &o).filter(|(kf, _)| bump(&mut kf_counts, kf)) {
                meta.oracle_fail(&format!("range: {what}"), Some(kf), cell_desc(c, recv, &o));
            }
        }
        if c.bk == BK::Filter && matches!(c.name.as_str(), "trim" | "trim_start" | "trim_end" | "split" | "replace") && !c.sh.is_empty() {
            meta.oracle_checks += 1;
            if let Some(what) = pat_law(&c.name, recv, &c.sh, &o) {
                if bump(&mut kf_counts, "law:pattern") {
                    meta.oracle_fail(&what, None, cell_desc(c, recv, &o));
                }
            }
        }
        if c.bk == BK::Filter && c.name == "truncate" {
            meta.oracle_checks += 1;
            if let Some(what) = truncate_law(recv, &c.sh, &o) {
                if bump(&mut kf_counts, "law:truncate") {
                    meta.oracle_fail(&what, None, cell_desc(c, recv, &o));
                }
            }
        }
        if c.bk == BK::Test {
            // kwargs are ignored by the kind tests, so the law applies to every shape
            if let Some(exp) = type_test_expected(&c.name, recv) {
                meta.oracle_checks += 1;
                let got = match &o { Outcome::Ok(v) => v.as_bool(), _ => None };
                if got != Some(exp) && bump(&mut kf_counts, "law:type-test") {
                    meta.oracle_fail(
                        &format!("type test `{}` on a value of kind {} answered {:?}, expected {exp} (integer xor float iff number, defined iff not undefined)", c.name, recv.name(), got),
                        None, cell_desc(c, recv, &o));
                }
            }
        }
        if c.bk == BK::Filter && c.name == "length" {
            if let (Some(s), Outcome::Ok(v)) = (recv.as_str(), &o) {
                meta.oracle_checks += 1;
                if v.as_u64() != Some(s.chars().count() as u64) && bump(&mut kf_counts, "law:length") {
                    meta.oracle_fail("length of a string is not its number of characters", None, cell_desc(c, recv, &o));
                }
            }
        }
        if c.bk == BK::Filter && c.name == "round" {
            // conversions agree with exact arithmetic or fail: a finite number must not round to NaN/inf
            if let (Outcome::Ok(v), Ok(x)) = (&o, f64::try_from(recv.clone())) {
                meta.oracle_checks += 1;
                if x.is_finite() && v.as_f64().map_or(false, |r| !r.is_finite()) && bump(&mut kf_counts, "round:non-finite-result") {
                    meta.oracle_fail("round: finite receiver rounded to a non-finite value", Some("round:non-finite-result"), cell_desc(c, recv, &o));
                }
            }
        }
        let nontrivial = !(c.sh.is_empty() && cls == "invalid");
        let eligible = has_model(c.bk, &c.name) && !cell_unmodelled(c.bk, &c.name, recv);
        // results too large to print as a Gallina term are compared on the implementation side only
        let size = match &o { Outcome::Ok(v) => value_size(v), _ => 0 };
        // (a 100 000-element list literal is beyond what coqc reads: the cap boundary itself is
        // covered by the implementation-side range law on every cell and by the error cell at 100 001)
        let printable = size <= 400;
        if !(eligible && printable) {
            n_oracle_only += 1;
            if nontrivial {
                n_oracle_only_nontrivial += 1;
            }
            continue;
        }
        n_modelled_eligible += 1;
        per_builtin.entry(key.clone()).or_default()[1] += 1;
        let varied = c.sh.iter().map(|(k, v)| format!("{k}:{}", kind_tag(v))).collect::<Vec<_>>().join(",");
        let s1 = format!("{key}|{}|{cls}", kind_tag(recv));
        let s2 = format!("{key}|{varied}|{cls}");
        let fresh = strata.insert(s1) | strata.insert(s2);
        let tags = vec![format!("class:{cls}"), format!("kind:{:?}", c.bk)];
        let drawn = thorough && model_cap.map_or(true, |cap| rng.chance(cap as u64, n_cells as u64));
        if drawn || fresh || c.focus {
            per_builtin.entry(key).or_default()[2] += 1;
            let kf = cell_kf(c);
            sink.push(cell_gallina(c, recv, &o), cell_desc(c, recv, &o), nontrivial, kf, &tags.iter().map(|s| s.as_str()).collect::<Vec<_>>());
        } else {
            pending.push((ci, key, json!(null), nontrivial, tags));
        }
    }
    // quick tier: besides the strata and the focus cells, a uniform draw of `quick_fill` of the
    // remaining modelled cells; whatever is not sent to the model stays implementation-side only
    {
        let p_num = if thorough { 0 } else { quick_fill as u64 };
        let p_den = pending.len() as u64;
        for (ci, key, _, nontrivial, tags) in pending {
            if !rng.chance(p_num, p_den.max(1)) {
                n_oracle_only += 1;
                if nontrivial {
                    n_oracle_only_nontrivial += 1;
                }
                continue;
            }
            let c = &cells[ci];
            let recv = &recvs[c.ri];
            let o = run_cell(&tera, c.bk, &c.name, recv, &c.sh);
            per_builtin.entry(key).or_default()[2] += 1;
            sink.push(cell_gallina(c, recv, &o), cell_desc(c, recv, &o), nontrivial, cell_kf(c), &tags.iter().map(|s| s.as_str()).collect::<Vec<_>>());
        }
    }

    // ---- the arithmetic built-ins again under a debug-profile build (overflow checks on)
    let mut debug_status = "not run".to_string();
    if std::env::var("C17_NO_DEBUG").is_err() {
        let hdir = env!("CARGO_MANIFEST_DIR");
        let build = std::process::Command::new("cargo")
            .args(["build", "--offline", "--bin", "c17"])
            .current_dir(hdir)
            .env("CARGO_NET_OFFLINE", "true")
            .output();
        match build {
            Ok(b) if b.status.success() => {
                let exe = format!("{hdir}/../.cache/target/debug/c17");
                let dout = args.out.join("debug");
                let run = std::process::Command::new(&exe)
                    .args(["--tier", &args.tier, "--seed", &args.seed.to_string(), "--out"])
                    .arg(&dout)
                    .arg("--arith-debug")
                    .output();
                match run {
                    Ok(r) if r.status.success() => {
                        let txt = std::fs::read_to_string(dout.join("arith_debug.txt")).unwrap_or_default();
                        let lines: Vec<&str> = txt.lines().collect();
                        let arith_cells: Vec<&Cell> = cells.iter().filter(|c| ARITH.contains(&c.name.as_str())).collect();
                        if lines.len() != arith_digests.len() {
                            meta.oracle_fail("debug re-run produced a different number of cells", None, json!({"release": arith_digests.len(), "debug": lines.len()}));
                        } else {
                            let mut diffs = 0;
                            for (i, (a, b)) in arith_digests.iter().zip(lines.iter()).enumerate() {
                                meta.oracle_checks += 1;
                                if a != b {
                                    diffs += 1;
                                    let c = arith_cells[i];
                                    let o = run_cell(&tera, c.bk, &c.name, &recvs[c.ri], &c.sh);
                                    let mut d = cell_desc(c, &recvs[c.ri], &o);
                                    d["debug_profile"] = json!(b);
                                    d["release_profile"] = json!(a);
                                    meta.oracle_fail(&format!("`{}` behaves differently with overflow checks on: release {a}, debug {b}", c.name), None, d);
                                }
                            }
                            debug_status = format!("{} arithmetic cells compared between release and debug profile, {diffs} differences", lines.len());
                        }
                    }
                    Ok(r) => {
                        meta.oracle_fail("debug-profile re-run crashed", None, json!({"stderr": String::from_utf8_lossy(&r.stderr).chars().take(800).collect::<String>()}));
                        debug_status = "debug run crashed".into();
                    }
                    Err(e) => debug_status = format!("debug binary could not be started: {e}"),
                }
            }
            Ok(b) => debug_status = format!("debug build failed: {}", String::from_utf8_lossy(&b.stderr).chars().rev().take(400).collect::<String>().chars().rev().collect::<String>()),
            Err(e) => debug_status = format!("cargo not runnable: {e}"),
        }
    }

    meta.extra.insert("matrix_cells".into(), json!(cells.len()));
    meta.extra.insert("matrix_exhaustive".into(), json!(true));
    meta.extra.insert("matrix_space".into(), json!(format!(
        "{} filters + {} tests x {} receivers x kwarg shapes (each documented kwarg absent / boundary values of the right kind / one value of each kind; product of good values; undocumented kwarg) + {} functions x kwarg shapes",
        filters.len(), tests.len(), recvs.len(), functions.len())));
    meta.extra.insert("outcome_classes".into(), json!(by_class));
    meta.extra.insert("modelled_cells_available".into(), json!(n_modelled_eligible));
    meta.extra.insert("oracle_only_evaluations".into(), json!(n_oracle_only));
    meta.extra.insert("oracle_only_nontrivial".into(), json!(n_oracle_only_nontrivial));
    meta.extra.insert("oracle_only_builtins".into(), json!(
        filters.iter().filter(|n| !has_model(BK::Filter, n)).map(|n| format!("filter {n}"))
            .chain(tests.iter().filter(|n| !has_model(BK::Test, n)).map(|n| format!("test {n}")))
            .chain(functions.iter().filter(|n| !has_model(BK::Function, n)).map(|n| format!("function {n}")))
            .collect::<Vec<_>>()));
    meta.extra.insert("builtins_without_kwarg_spec".into(), json!(unknown));
    meta.extra.insert("per_builtin_cells_eligible_sent".into(), json!(per_builtin));
    meta.extra.insert("debug_profile_rerun".into(), json!(debug_status));
    meta.extra.insert("law_oracle_deviations_by_class".into(), json!(kf_counts));
    meta.families.push(sink.finish());
    meta.write(&args.out);
}
