//! C13 — integer arithmetic exact or error; mixed numeric comparisons exact. Families:
//!   arith : `{{ (a OP b) | probe }}` for OP in + - * / // % **   vs  Model.Number.vm_binop
//!           (one case = one operand pair with the results of every operation the model covers;
//!           f64::powf goes to the no-panic oracle only)
//!   neg   : `{{ (-a) | probe }}`                                   vs  Model.Number.vm_negative
//!   cmp   : `{{ [a == b, a != b, a < b, a <= b, a > b, a >= b] | probe }}` vs Model.Number.vm_cmp
//!   cmpx  : the same six operators with the left (or right) operand computed in the template
//!           (`0.0 * -1`, `inf - inf`, ...)                          vs  vm_binop then vm_cmp
//!   prim  : Rust's own `as f64`, `floor`, `as i128`, `as u128` vs the model's f64 primitives
//! Oracles on every evaluation: no panic; for `**` with base in {-1,0,1} and an exponent above
//! u32::MAX the exact result fits, so an error there is the known finding
//! `pow:exponent>u32::MAX`.
use serde_json::json;
use tera::Number;
use tera::{Context, Tera, Value};
use tvh::*;

const OPS: [(&str, &str); 7] = [
    ("OpAdd", "+"),
    ("OpSub", "-"),
    ("OpMul", "*"),
    ("OpDiv", "/"),
    ("OpFloorDiv", "//"),
    ("OpRem", "%"),
    ("OpPow", "**"),
];

const KF_POW: &str = "pow:exponent>u32::MAX";

fn ctx2(a: &Value, b: &Value) -> Context {
    let mut ctx = Context::new();
    if !a.is_undefined() {
        ctx.insert_value("a", a.clone());
    }
    if !b.is_undefined() {
        ctx.insert_value("b", b.clone());
    }
    ctx
}

fn is_float(v: &Value) -> bool {
    matches!(v.as_number(), Some(Number::Float(_)))
}
fn is_zero_number(v: &Value) -> bool {
    match v.as_number() {
        Some(Number::Float(f)) => f == 0.0,
        Some(Number::Integer(i)) => i == 0,
        _ => false,
    }
}

/// Does Model.Number compute this operation on this operand pair? (mirrors where the model
/// returns `m_unmodelled`: the float arms of floor_div / rem / pow)
fn modelled(sym: &str, a: &Value, b: &Value) -> bool {
    if !a.is_number() || !b.is_number() {
        return true;
    }
    if a.as_number().is_none() || b.as_number().is_none() {
        return true; // arg_error: modelled
    }
    let any_float = is_float(a) || is_float(b);
    match sym {
        "**" => {
            let neg_exp = matches!(b.as_number(), Some(Number::Integer(i)) if i < 0);
            !(any_float || neg_exp)
        }
        _ => true,
    }
}

struct Stats {
    oracle_only: usize,
    oracle_only_nontrivial: usize,
    pow_kf_hits: usize,
}

fn tag_of(v: &Value) -> &'static str {
    use tera::value::ValueKind as K;
    match v.kind() {
        K::U64 => "u64",
        K::I64 => "i64",
        K::U128 => "u128",
        K::I128 => "i128",
        K::F64 => "f64",
        _ => "other",
    }
}

fn push_arith(sink: &mut Sink, meta: &mut Meta, st: &mut Stats, tera: &Tera, a: &Value, b: &Value) {
    let ctx = ctx2(a, b);
    let mut parts = Vec::new();
    let mut jres = serde_json::Map::new();
    let mut n_err = 0;
    let mut n_ok = 0;
    for (name, sym) in OPS {
        let r = eval_expr(tera, &format!("a {sym} b"), &ctx);
        meta.oracle_checks += 2;
        let desc1 = json!({"op": sym, "a": json_value(a), "b": json_value(b), "impl": r.json(json_value)});
        if let Outcome::Panic(m) = &r {
            meta.oracle_fail(&format!("panic: {m}"), None, desc1.clone());
        }
        // D4: the exact result of (-1|0|1) ** b fits for every b >= 0
        if sym == "**" {
            if let (Some(Number::Integer(x)), Some(Number::Integer(y))) = (a.as_number(), b.as_number()) {
                if (-1..=1).contains(&x) && y > u32::MAX as i128 && !matches!(r, Outcome::Ok(_)) {
                    st.pow_kf_hits += 1;
                    meta.oracle_fail("integer ** errors although the exact result fits in i128", Some(KF_POW), desc1.clone());
                }
            }
        }
        // implementation-side "exact or error" oracle on two i128 operands, computed with Rust's
        // own checked arithmetic (independent of the Coq model): an Ok must carry the exact
        // value, an error is only allowed when the exact value does not exist / does not fit
        if let (Some(Number::Integer(x)), Some(Number::Integer(y))) = (a.as_number(), b.as_number()) {
            let exact: Option<Option<i128>> = match sym {
                "+" => Some(x.checked_add(y)),
                "-" => Some(x.checked_sub(y)),
                "*" => Some(x.checked_mul(y)),
                "//" => Some(if y == 0 { None } else { x.checked_div_euclid(y) }),
                "%" => Some(if y == 0 { None } else { Some(x.wrapping_rem_euclid(y)) }),
                "**" if y >= 0 && (-1..=1).contains(&x) => {
                    Some(Some(if y == 0 { 1 } else if x == -1 { if y % 2 == 0 { 1 } else { -1 } } else { x }))
                }
                "**" if y >= 0 && y <= 200 => Some(x.checked_pow(y as u32)),
                _ => None,
            };
            if let Some(exact) = exact {
                let bad = match (&r, exact) {
                    (Outcome::Ok(v), Some(e)) => v.as_i128() != Some(e) || v.as_number().map_or(true, |n| n.is_float()),
                    (Outcome::Ok(_), None) => true,
                    (Outcome::Err(..), Some(_)) => !(sym == "**" && y > u32::MAX as i128), // D4 is reported above
                    (Outcome::Err(..), None) => false,
                    (Outcome::Panic(_), _) => false, // reported above
                };
                if bad {
                    meta.oracle_fail(&format!("integer `{sym}` is neither the exact result nor an error-iff-out-of-range (exact: {exact:?})"), None, desc1.clone());
                }
            }
        }
        match &r {
            Outcome::Ok(_) => n_ok += 1,
            _ => n_err += 1,
        }
        if modelled(sym, a, b) {
            parts.push(format!("({name}, {})", r.gal(gal_value)));
            jres.insert(sym.to_string(), r.json(json_value));
        } else {
            st.oracle_only += 1;
            if a.as_number().is_some() && b.as_number().is_some() {
                st.oracle_only_nontrivial += 1;
            }
            jres.insert(format!("{sym} (oracle only)"), r.json(json_value));
        }
    }
    let g = format!(
        "{{| a_l := {}; a_r := {}; a_res := [{}] |}}",
        gal_value(a),
        gal_value(b),
        parts.join("; ")
    );
    let desc = json!({"family": "arith", "a": json_value(a), "b": json_value(b), "impl": jres});
    let both_int = matches!((a.as_number(), b.as_number()), (Some(Number::Integer(_)), Some(Number::Integer(_))));
    let nontrivial = a.as_number().is_some() && b.as_number().is_some() && !(is_zero_number(a) && is_zero_number(b));
    let t1 = format!("a:{}", tag_of(a));
    let t2 = format!("b:{}", tag_of(b));
    let t3 = if both_int { "kind:int-int" } else if a.is_number() && b.is_number() { "kind:float-involved" } else { "kind:non-number" };
    let t4 = format!("errors:{n_err}/ok:{n_ok}");
    sink.push(g, desc, nontrivial, None, &[&t1, &t2, t3, &t4]);
}

fn push_neg(sink: &mut Sink, meta: &mut Meta, tera: &Tera, a: &Value) {
    let ctx = ctx2(a, &Value::undefined());
    let r = eval_expr(tera, "-a", &ctx);
    meta.oracle_checks += 1;
    let desc = json!({"family": "neg", "a": json_value(a), "impl": r.json(json_value)});
    if let Outcome::Panic(m) = &r {
        meta.oracle_fail(&format!("panic: {m}"), None, desc.clone());
    }
    let g = format!("{{| n_a := {}; n_impl := {} |}}", gal_value(a), r.gal(gal_value));
    let tag = match &r { Outcome::Ok(_) => "impl:ok", Outcome::Err(..) => "impl:err", Outcome::Panic(_) => "impl:panic" };
    sink.push(g, desc, a.is_number() && !is_zero_number(a), None, &[tag, tag_of(a)]);
}

fn nan_note(vs: &[&Value]) -> String {
    // NaNs of every sign / payload are one S754_nan in the model; keep the bit patterns visible
    // (and the cases distinct) with a comment inside the term
    let bits: Vec<String> = vs
        .iter()
        .filter_map(|v| match v.as_number() {
            Some(Number::Float(f)) if f.is_nan() => Some(format!("{:#018x}", f.to_bits())),
            _ => None,
        })
        .collect();
    if bits.is_empty() { String::new() } else { format!(" (* nan bits {} *)", bits.join(" ")) }
}

fn gal_ordering(o: std::cmp::Ordering) -> &'static str {
    match o {
        std::cmp::Ordering::Less => "Lt",
        std::cmp::Ordering::Equal => "Eq",
        std::cmp::Ordering::Greater => "Gt",
    }
}

fn check_six(meta: &mut Meta, r: &Outcome<Value>, desc: &serde_json::Value) {
    // implementation-side sanity of the six answers: exactly one of < == > for numbers
    if let Outcome::Ok(v) = r {
        let bs: Vec<bool> = v.as_array().map(|x| x.iter().map(|y| y.as_bool().unwrap_or(false)).collect()).unwrap_or_default();
        if bs.len() == 6 {
            let (eq, ne, lt, le, gt, ge) = (bs[0], bs[1], bs[2], bs[3], bs[4], bs[5]);
            let one = (eq as u8 + lt as u8 + gt as u8) == 1;
            if !(one && ne == !eq && le == (lt || eq) && ge == (gt || eq)) {
                meta.oracle_fail("the six comparison results are not those of one trichotomous order", None, desc.clone());
            }
        }
    }
}

fn push_cmp(sink: &mut Sink, meta: &mut Meta, tera: &Tera, a: &Value, b: &Value) {
    let ctx = ctx2(a, b);
    let r = eval_expr(tera, "[a == b, a != b, a < b, a <= b, a > b, a >= b]", &ctx);
    meta.oracle_checks += 1;
    // the Rust API on the same pair (what sort / min / max / unique / user code see)
    let api = if a.is_number() && b.is_number() {
        meta.oracle_checks += 1;
        let (a2, b2) = (a.clone(), b.clone());
        match guarded(move || Ok((a2.partial_cmp(&b2), a2.cmp(&b2), a2 == b2, b2.cmp(&a2))))
        {
            Outcome::Ok(t) => Some(t),
            Outcome::Panic(m) => {
                meta.oracle_fail(&format!("panic in Value::partial_cmp/cmp/eq: {m}"), None, json!({"a": json_value(a), "b": json_value(b)}));
                None
            }
            Outcome::Err(..) => None,
        }
    } else {
        None
    };
    let api_json = api.map(|(pc, o, e, _)| json!({"partial_cmp": format!("{pc:?}"), "cmp": format!("{o:?}"), "eq": e}));
    let desc = json!({"family": "cmp", "a": json_value(a), "b": json_value(b), "impl": r.json(json_value), "api": api_json});
    if let Outcome::Panic(m) = &r {
        meta.oracle_fail(&format!("panic: {m}"), None, desc.clone());
    }
    check_six(meta, &r, &desc);
    if let Some((pc, o, e, rev)) = api {
        // Ord must agree with PartialOrd and PartialEq, and be antisymmetric
        if pc != Some(o) || (o == std::cmp::Ordering::Equal) != e || rev != o.reverse() {
            meta.oracle_fail("Ord::cmp, PartialOrd::partial_cmp and PartialEq::eq disagree on two numbers", None, desc.clone());
        }
    }
    let api_gal = match api {
        None => "None".to_string(),
        Some((pc, o, e, _)) => format!(
            "(Some ({}, {}, {}))",
            match pc { None => "None".to_string(), Some(x) => format!("Some {}", gal_ordering(x)) },
            gal_ordering(o),
            gal_bool(e)
        ),
    };
    let g = format!(
        "{{| c_l := {}; c_r := {}; c_impl := {}; c_api := {} |}}{}",
        gal_value(a), gal_value(b), r.gal(gal_value), api_gal, nan_note(&[a, b])
    );
    let mixed = tag_of(a) != tag_of(b);
    let t = format!("{}~{}", tag_of(a), tag_of(b));
    let is_nan = |v: &Value| matches!(v.as_number(), Some(Number::Float(f)) if f.is_nan());
    let is_zero_f = |v: &Value| matches!(v.as_number(), Some(Number::Float(f)) if f == 0.0);
    let mut tags: Vec<&str> = vec![&t];
    if is_nan(a) || is_nan(b) { tags.push("with-nan"); }
    if is_zero_f(a) && is_zero_f(b) { tags.push("zero~zero(float)"); }
    sink.push(g, desc, mixed || is_nan(a) || is_nan(b) || (is_zero_f(a) && is_zero_f(b)), None, &tags);
}

/// `(a OP b)` computed inside the template and compared with `c` (swap: `c` on the left)
fn push_cmpx(sink: &mut Sink, meta: &mut Meta, tera: &Tera, op: (&str, &str), a: &Value, b: &Value, c: &Value, swap: bool) {
    let mut ctx = ctx2(a, b);
    ctx.insert_value("c", c.clone());
    let (name, sym) = op;
    let l = if swap { "c".to_string() } else { format!("(a {sym} b)") };
    let r_ = if swap { format!("(a {sym} b)") } else { "c".to_string() };
    let e = format!("[{l} == {r_}, {l} != {r_}, {l} < {r_}, {l} <= {r_}, {l} > {r_}, {l} >= {r_}]");
    let r = eval_expr(tera, &e, &ctx);
    meta.oracle_checks += 1;
    let desc = json!({"family": "cmpx", "expr": e, "a": json_value(a), "b": json_value(b), "c": json_value(c), "impl": r.json(json_value)});
    if let Outcome::Panic(m) = &r {
        meta.oracle_fail(&format!("panic: {m}"), None, desc.clone());
    }
    check_six(meta, &r, &desc);
    let g = format!(
        "{{| x_op := {name}; x_a := {}; x_b := {}; x_c := {}; x_swap := {}; x_impl := {} |}}{}",
        gal_value(a), gal_value(b), gal_value(c), gal_bool(swap), r.gal(gal_value), nan_note(&[a, b, c])
    );
    let tag = match &r { Outcome::Ok(_) => "impl:ok", Outcome::Err(..) => "impl:err", Outcome::Panic(_) => "impl:panic" };
    sink.push(g, desc, true, None, &[tag, sym]);
}

/// The floats every comparison must get right: both zeros, both ends of the subnormal and normal
/// ranges, the integer-width boundaries with both signs, infinities, and NaNs of both signs with
/// quiet / signalling / assorted payloads.
fn core_float_pool() -> Vec<f64> {
    let mut v = Vec::new();
    let p53 = 9007199254740992.0f64;
    for m in [
        0.0,
        f64::from_bits(1),
        f64::MIN_POSITIVE,
        0.5,
        1.0,
        1.5,
        p53 - 1.0,
        p53,
        p53 + 2.0,
        2f64.powi(63),
        f64::from_bits(2f64.powi(63).to_bits() - 1),
        2f64.powi(64),
        f64::from_bits(2f64.powi(64).to_bits() + 1),
        2f64.powi(127),
        2f64.powi(128),
        f64::MAX,
        f64::INFINITY,
    ] {
        v.push(m);
        v.push(-m);
    }
    for bits in [
        0x7FF8_0000_0000_0000u64, // f64::NAN
        0xFFF8_0000_0000_0000,    // -f64::NAN, what x86 gives for inf - inf
        0x7FF8_0000_0000_0001,
        0xFFF8_0000_DEAD_BEEF,
        0x7FF0_0000_0000_0001, // signalling
        0xFFF0_0000_0000_0001,
        0x7FFF_FFFF_FFFF_FFFF,
        0xFFFF_FFFF_FFFF_FFFF,
    ] {
        v.push(f64::from_bits(bits));
    }
    v
}

fn push_prim_conv(sink: &mut Sink, meta: &mut Meta, z_gal: String, z_json: String, f: f64) {
    meta.oracle_checks += 1;
    let g = format!("{{| p_kind := 0%N; p_z := {z_gal}; p_x := S754_nan; p_y := S754_nan; p_f := {}; p_i := 0 |}}", gal_f64(f));
    sink.push(g, json!({"family": "prim", "op": "as f64", "z": z_json, "impl_bits": format!("{:#018x}", f.to_bits())}), true, None, &["as-f64"]);
}

fn push_prim_float(sink: &mut Sink, meta: &mut Meta, x: f64) {
    meta.oracle_checks += 3;
    let xs = format!("{:#018x}", x.to_bits());
    let fl = x.floor();
    let g = format!("{{| p_kind := 1%N; p_z := 0; p_x := {}; p_y := S754_nan; p_f := {}; p_i := 0 |}}", gal_f64(x), gal_f64(fl));
    sink.push(g, json!({"family": "prim", "op": "floor", "x": xs, "impl_bits": format!("{:#018x}", fl.to_bits())}), x.fract() != 0.0, None, &["floor"]);
    let i = x as i128;
    let g = format!("{{| p_kind := 2%N; p_z := 0; p_x := {}; p_y := S754_nan; p_f := S754_nan; p_i := {} |}}", gal_f64(x), gal_z(i));
    sink.push(g, json!({"family": "prim", "op": "as i128", "x": xs, "impl": i.to_string()}), x.is_finite(), None, &["as-i128"]);
    let tr = x.trunc();
    meta.oracle_checks += 1;
    let g = format!("{{| p_kind := 5%N; p_z := 0; p_x := {}; p_y := S754_nan; p_f := {}; p_i := 0 |}}", gal_f64(x), gal_f64(tr));
    sink.push(g, json!({"family": "prim", "op": "trunc", "x": xs, "impl_bits": format!("{:#018x}", tr.to_bits())}), x.fract() != 0.0, None, &["trunc"]);
    let u = x as u128;
    let g = format!("{{| p_kind := 3%N; p_z := 0; p_x := {}; p_y := S754_nan; p_f := S754_nan; p_i := {} |}}", gal_f64(x), gal_zu(u));
    sink.push(g, json!({"family": "prim", "op": "as u128", "x": xs, "impl": u.to_string()}), x.is_finite(), None, &["as-u128"]);
}

fn push_prim_float2(sink: &mut Sink, meta: &mut Meta, x: f64, y: f64) {
    let xs = format!("{:#018x}", x.to_bits());
    let ys = format!("{:#018x}", y.to_bits());
    for (kind, name, r) in [(4, "%", x % y), (6, "rem_euclid", x.rem_euclid(y)), (7, "div_euclid", x.div_euclid(y))] {
        meta.oracle_checks += 1;
        let g = format!("{{| p_kind := {kind}%N; p_z := 0; p_x := {}; p_y := {}; p_f := {}; p_i := 0 |}}", gal_f64(x), gal_f64(y), gal_f64(r));
        sink.push(g, json!({"family": "prim", "op": name, "x": xs, "y": ys, "impl_bits": format!("{:#018x}", r.to_bits())}), x.is_finite() && y.is_finite() && y != 0.0, None, &[name]);
    }
}

/// random integer with a random bit length (so that every magnitude is exercised)
fn rand_i128(rng: &mut Rng) -> i128 {
    let bits = rng.below(128) as u32;
    let raw = ((rng.next() as u128) << 64) | rng.next() as u128;
    let mag = if bits == 0 { 0 } else { raw >> (128 - bits) };
    let mut z = mag as i128;
    // many trailing zeros / ones make rounding ties for `as f64`
    match rng.below(4) {
        0 if bits > 60 => z &= !((1i128 << (bits - 54)) - 1) | (1i128 << (bits - 55)),
        1 if bits > 60 => z |= (1i128 << (bits - 54)) - 1,
        _ => {}
    }
    if rng.chance(1, 2) { z.wrapping_neg() } else { z }
}

fn rand_f64(rng: &mut Rng) -> f64 {
    match rng.below(6) {
        0 => f64::from_bits(rng.next()),
        1 => {
            // magnitude spread over the integer widths, with fractional parts
            let e = rng.range(-8, 130) as i32;
            let m = 1.0 + (rng.next() >> 11) as f64 / (1u64 << 53) as f64;
            let s = if rng.chance(1, 2) { -1.0 } else { 1.0 };
            s * m * 2f64.powi(e)
        }
        2 => (rng.range(-1000, 1000) as f64) / 8.0,
        3 => rand_i128(rng) as f64,
        4 => {
            let x = rand_i128(rng) as f64;
            f64::from_bits(x.to_bits().wrapping_add(rng.range(-2, 2) as u64))
        }
        _ => (rng.range(-40, 40) as f64) + 0.5,
    }
}

/// the value z in a randomly chosen representation that can hold it
fn rand_rep(rng: &mut Rng, z: i128) -> Value {
    let reps = pools::int_reps(z);
    rng.pick(&reps).clone()
}

fn replay(path: &std::path::Path, tera: &Tera) {
    let j: serde_json::Value = serde_json::from_str(&std::fs::read_to_string(path).expect("read replay")).expect("json");
    let case = j.get("case").or_else(|| j.get("input")).unwrap_or(&j);
    let a = case.get("a").map(value_from_json).unwrap_or_else(Value::undefined);
    let b = case.get("b").map(value_from_json).unwrap_or_else(Value::undefined);
    let ctx = ctx2(&a, &b);
    if let Some(op) = case.get("op").and_then(|o| o.as_str()) {
        let r = eval_expr(tera, &format!("a {op} b"), &ctx);
        println!("a {op} b => {}", r.json(json_value));
        return;
    }
    for (_, sym) in OPS {
        let r = eval_expr(tera, &format!("a {sym} b"), &ctx);
        println!("a {sym} b => {}", r.json(json_value));
    }
    for sym in ["==", "!=", "<", "<=", ">", ">="] {
        let r = eval_expr(tera, &format!("a {sym} b"), &ctx);
        println!("a {sym} b => {}", r.json(json_value));
    }
    println!("-a => {}", eval_expr(tera, "-a", &ctx).json(json_value));
}

fn main() {
    let args = parse_args();
    if std::env::var("VERIF_SHOW_PANICS").is_err() {
        silence_panics();
    }
    let mut tera = Tera::default();
    register_probe(&mut tera);
    if let Some(p) = &args.replay {
        replay(p, &tera);
        return;
    }
    let mut rng = Rng::new(args.seed);
    let thorough = args.tier == "thorough";
    let mut meta = Meta::default();
    let mut st = Stats { oracle_only: 0, oracle_only_nontrivial: 0, pow_kf_hits: 0 };

    let hdr = "From TeraV Require Import Model.Value Model.Number Corr.CorrC13.";
    let mut arith = Sink::new(&args.out, "arith", hdr, "check_arith");
    let mut neg = Sink::new(&args.out, "neg", hdr, "check_neg");
    let mut cmp = Sink::new(&args.out, "cmp", hdr, "check_cmp");
    let mut prim = Sink::new(&args.out, "prim", hdr, "check_prim");
    let mut cmpx = Sink::new(&args.out, "cmpx", hdr, "check_cmpx");
    for s in [&mut arith, &mut neg, &mut cmp, &mut prim, &mut cmpx] {
        s.shard_cap_set(400);
    }

    // ---- pools
    let int_vals = pools::int_pool_i128();
    let ints_all_reps = pools::int_values(); // every boundary integer in every representation
    let core_f: Vec<f64> = core_float_pool();
    let mut all_f: Vec<f64> = core_f.clone();
    for x in pools::float_pool() {
        if !all_f.iter().any(|y| y.to_bits() == x.to_bits()) {
            all_f.push(x);
        }
    }
    let floats: Vec<Value> = all_f.iter().map(|x| Value::from(*x)).collect();
    let core_floats: Vec<Value> = core_f.iter().map(|x| Value::from(*x)).collect();
    let big_u: Vec<Value> = pools::int_pool_u128_big().into_iter().map(Value::from).collect();
    let kinds = pools::kind_pool();
    let mut numbers: Vec<Value> = ints_all_reps.clone();
    numbers.extend(floats.iter().cloned());

    // ---- corpus: hand-written edge cases, always first
    {
        let v = |z: i128| Value::from(z);
        let pairs: Vec<(Value, Value)> = vec![
            (v(i128::MIN), Value::from(-1i64)),          // D3: % must give 0, // must stay an error
            (v(i128::MIN), v(-1)),
            (v(i128::MIN), Value::from(1u64)),
            (v(i128::MAX), Value::from(1u64)),
            (v(i128::MAX), v(i128::MAX)),
            (v(i128::MIN), v(i128::MIN)),
            (Value::from(1u64), Value::from(5_000_000_000u64)),      // D4
            (Value::from(-1i64), Value::from(5_000_000_001u64)),
            (Value::from(0u64), Value::from(u64::MAX)),
            (Value::from(2u64), Value::from(126u64)),
            (Value::from(2u64), Value::from(127u64)),
            (Value::from(-2i64), Value::from(127u64)),
            (Value::from(-2i64), Value::from(128u64)),
            (Value::from(0u64), Value::from(0u64)),
            (Value::from(7i64), Value::from(-2i64)),
            (Value::from(-7i64), Value::from(2i64)),
            (Value::from(-7i64), Value::from(-2i64)),
            (Value::from(u128::MAX), Value::from(0u64)),
            (Value::from(1u64), Value::from(u128::MAX)),
            (Value::from(9007199254740993u64), Value::from(9007199254740992.0f64)),
            (Value::from(f64::NAN), Value::from(f64::NAN)),
            (Value::from(f64::NAN), Value::from(u128::MAX)),
            (Value::from(-0.0f64), Value::from(0u64)),
            (Value::from(2f64.powi(127)), v(i128::MAX)),
            (Value::from(-(2f64.powi(127))), v(i128::MIN)),
            (Value::from(2f64.powi(128)), Value::from(u128::MAX)),
            (Value::from(2f64.powi(64)), Value::from(u64::MAX)),
            (Value::from(1.5f64), Value::from(0u64)),
        ];
        for (a, b) in &pairs {
            push_arith(&mut arith, &mut meta, &mut st, &tera, a, b);
            push_arith(&mut arith, &mut meta, &mut st, &tera, b, a);
            push_cmp(&mut cmp, &mut meta, &tera, a, b);
            push_cmp(&mut cmp, &mut meta, &tera, b, a);
        }
    }

    // ---- neg: every pool number in every representation + non-numbers
    for a in numbers.iter().chain(kinds.iter()) {
        push_neg(&mut neg, &mut meta, &tera, a);
    }
    for _ in 0..(if thorough { 2000 } else { 100 }) {
        let z = rand_i128(&mut rng);
        push_neg(&mut neg, &mut meta, &tera, &rand_rep(&mut rng, z));
        push_neg(&mut neg, &mut meta, &tera, &Value::from(rand_f64(&mut rng)));
    }

    // ---- arith
    // distinct operand values: boundary ints (one random representation each), big u128, floats
    let mut exhaustive_arith = false;
    if thorough {
        // all ordered pairs of distinct boundary values
        let mut vals: Vec<Option<i128>> = int_vals.iter().map(|z| Some(*z)).collect();
        let n_int = vals.len();
        vals.extend((0..big_u.len() + floats.len()).map(|_| None));
        let others: Vec<Value> = big_u.iter().chain(floats.iter()).cloned().collect();
        for i in 0..vals.len() {
            for j in 0..vals.len() {
                let a = match vals[i] { Some(z) => rand_rep(&mut rng, z), None => others[i - n_int].clone() };
                let b = match vals[j] { Some(z) => rand_rep(&mut rng, z), None => others[j - n_int].clone() };
                push_arith(&mut arith, &mut meta, &mut st, &tera, &a, &b);
            }
        }
        exhaustive_arith = true;
    }
    let n_arith_rand = if thorough { 10_000 } else { 1_500 };
    for k in 0..n_arith_rand {
        let pick = |rng: &mut Rng| -> Value {
            match rng.below(16) {
                0..=7 => rng.pick(&ints_all_reps).clone(),
                8..=9 => { let z = rand_i128(rng); rand_rep(rng, z) }
                10 => Value::from(rng.range(-20, 20)),
                11..=13 => rng.pick(&floats).clone(),
                14 => Value::from(rand_f64(rng)),
                _ => if rng.chance(1, 3) { rng.pick(&kinds).clone() } else { rng.pick(&big_u).clone() },
            }
        };
        let (a, b) = (pick(&mut rng), pick(&mut rng));
        // products/quotients that land exactly on the i128 boundary
        if k % 10 == 0 {
            let d = *rng.pick(&[2i128, 3, -2, -3, 5, 7, -1, 1, 1 << 63, 1 << 64, -(1 << 64)]);
            let q = (if rng.chance(1, 2) { i128::MAX } else { i128::MIN }).wrapping_div(d).wrapping_add(rng.range(-1, 1) as i128);
            push_arith(&mut arith, &mut meta, &mut st, &tera, &rand_rep(&mut rng, q), &rand_rep(&mut rng, d));
            continue;
        }
        push_arith(&mut arith, &mut meta, &mut st, &tera, &a, &b);
    }
    // small exponents and bases: pow around the overflow edge
    {
        let bases: Vec<i128> = vec![-11, -10, -3, -2, -1, 0, 1, 2, 3, 7, 10, 11, 1 << 31, (1 << 32) - 1, 1 << 42, (1i128 << 63) + 1, 13043817825332782212, 13043817825332782213];
        let exps: Vec<i128> = if thorough { (0..=130).collect() } else { vec![0, 1, 2, 3, 4, 36, 37, 38, 39, 40, 63, 64, 79, 80, 81, 126, 127, 128] };
        for bse in &bases {
            for e in &exps {
                if !thorough && rng.chance(1, 2) { continue; }
                push_arith(&mut arith, &mut meta, &mut st, &tera, &rand_rep(&mut rng, *bse), &rand_rep(&mut rng, *e));
            }
        }
        for e in [u32::MAX as i128 - 1, u32::MAX as i128, u32::MAX as i128 + 1, 1 << 40, i128::MAX] {
            for bse in [-2i128, -1, 0, 1, 2] {
                push_arith(&mut arith, &mut meta, &mut st, &tera, &rand_rep(&mut rng, bse), &rand_rep(&mut rng, e));
            }
        }
    }

    // ---- cmp
    // (1) every tier: ALL ordered pairs of the core float pool (both zeros, NaNs of both signs ...)
    for a in &core_floats {
        for b in &core_floats {
            push_cmp(&mut cmp, &mut meta, &tera, a, b);
        }
    }
    let core_pairs = core_floats.len() * core_floats.len();
    // (2) every tier: core floats x the integers at the width boundaries, both operand orders;
    //     0 and 1 in all four representations, the others in one representation chosen at random
    {
        let mut key_ints: Vec<Value> = Vec::new();
        for z in [0i128, 1] {
            key_ints.extend(pools::int_reps(z));
        }
        let p53 = 1i128 << 53;
        for z in [
            -1, 2, -2, p53 - 1, p53, p53 + 1, p53 + 2, -p53, -(p53 + 1), (1i128 << 63) - 1, 1i128 << 63, -(1i128 << 63),
            -(1i128 << 63) - 1, (1i128 << 64) - 1, 1i128 << 64, (1i128 << 64) + 1, i128::MAX, i128::MAX - 1, i128::MIN, i128::MIN + 1,
        ] {
            key_ints.push(rand_rep(&mut rng, z));
        }
        for u in [1u128 << 127, (1u128 << 127) + 1, u128::MAX, u128::MAX - 1] {
            key_ints.push(Value::from(u));
        }
        for f in &core_floats {
            let fx = f.as_f64().unwrap();
            let special = fx == 0.0 || !fx.is_finite();
            for z in &key_ints {
                // quick tier: both operand orders for zeros / infinities / NaNs and for the
                // integers 0 and 1, one order chosen at random for the rest
                let both = thorough || special || matches!(z.as_i128(), Some(0) | Some(1));
                let first = both || rng.chance(1, 2);
                if first {
                    push_cmp(&mut cmp, &mut meta, &tera, f, z);
                }
                if both || !first {
                    push_cmp(&mut cmp, &mut meta, &tera, z, f);
                }
            }
        }
    }
    // (3) operands that are RESULTS of arithmetic inside the template: -0.0 from `0.0 * -1`,
    //     the hardware NaN from `inf - inf` / `inf * 0`, inf from overflow, exact zero from x - x
    {
        let f = |x: f64| Value::from(x);
        let producers: Vec<((&str, &str), Value, Value)> = vec![
            (("OpMul", "*"), f(0.0), Value::from(-1i64)),
            (("OpMul", "*"), f(-0.0), Value::from(-1i64)),
            (("OpMul", "*"), f(0.0), f(-1.0)),
            (("OpMul", "*"), f(-0.0), Value::from(0u64)),
            (("OpMul", "*"), f(f64::INFINITY), Value::from(0u64)),
            (("OpMul", "*"), f(f64::NEG_INFINITY), f(0.0)),
            (("OpMul", "*"), f(f64::MAX), Value::from(2u64)),
            (("OpMul", "*"), f(f64::from_bits(1)), f(-0.5)),
            (("OpSub", "-"), f(f64::INFINITY), f(f64::INFINITY)),
            (("OpSub", "-"), f(f64::NEG_INFINITY), f(f64::NEG_INFINITY)),
            (("OpSub", "-"), f(1.5), f(1.5)),
            (("OpSub", "-"), f(-0.0), Value::from(0u64)),
            (("OpSub", "-"), f(-0.0), f(0.0)),
            (("OpAdd", "+"), f(f64::INFINITY), f(f64::NEG_INFINITY)),
            (("OpAdd", "+"), f(-0.0), f(-0.0)),
            (("OpAdd", "+"), f(-0.0), f(0.0)),
            (("OpAdd", "+"), f(-1.5), f(1.5)),
            (("OpDiv", "/"), f(0.0), Value::from(-1i64)),
            (("OpDiv", "/"), Value::from(0u64), Value::from(-5i64)),
            (("OpDiv", "/"), f(f64::INFINITY), f(f64::INFINITY)),
            (("OpDiv", "/"), f(-1.0), f(f64::INFINITY)),
            (("OpRem", "%"), f(-3.0), f(1.5)),
            (("OpRem", "%"), f(f64::INFINITY), f(2.0)),
            (("OpFloorDiv", "//"), f(-0.5), f(f64::INFINITY)),
            (("OpFloorDiv", "//"), f(f64::NAN), f(2.0)),
        ];
        let against: Vec<Value> = vec![
            f(0.0), f(-0.0), Value::from(0u64), Value::from(0i64), Value::from(0i128), f(1.0), Value::from(1u64), Value::from(-1i64),
            f(f64::NAN), f(-f64::NAN), f(f64::INFINITY), f(f64::NEG_INFINITY), f(f64::from_bits(1)), f(-f64::from_bits(1)), Value::from(u128::MAX),
        ];
        for (op, a, b) in &producers {
            for c in &against {
                push_cmpx(&mut cmpx, &mut meta, &tera, *op, a, b, c, false);
                push_cmpx(&mut cmpx, &mut meta, &tera, *op, a, b, c, true);
            }
            // ... and the result itself, taken out of the engine, as an ordinary operand
            if let Outcome::Ok(v) = eval_expr(&tera, &format!("a {} b", op.1), &ctx2(a, b)) {
                for c in &against {
                    push_cmp(&mut cmp, &mut meta, &tera, &v, c);
                    push_cmp(&mut cmp, &mut meta, &tera, c, &v);
                }
                push_cmp(&mut cmp, &mut meta, &tera, &v, &v);
            }
        }
    }
    let mut exhaustive_cmp = false;
    if thorough {
        // every float of the pool against every boundary integer in EVERY representation, both
        // operand orders, and every ordered pair of floats
        for f in &floats {
            for z in &ints_all_reps {
                push_cmp(&mut cmp, &mut meta, &tera, f, z);
                push_cmp(&mut cmp, &mut meta, &tera, z, f);
            }
            for g in &floats {
                push_cmp(&mut cmp, &mut meta, &tera, f, g);
            }
        }
        // every ordered pair of boundary integer VALUES (one representation each, at random) ...
        let vals: Vec<Value> = int_vals.iter().map(|z| rand_rep(&mut rng, *z)).chain(big_u.iter().cloned()).collect();
        for a in &vals {
            for b in &vals {
                push_cmp(&mut cmp, &mut meta, &tera, a, b);
            }
        }
        // ... and every ordered pair of ALL representations of the integers at the width boundaries
        let mut edge: Vec<Value> = Vec::new();
        for z in [0i128, 1, -1, (1 << 63) - 1, 1 << 63, -(1i128 << 63), -(1i128 << 63) - 1, (1 << 64) - 1, 1 << 64, i128::MAX, i128::MIN] {
            edge.extend(pools::int_reps(z));
        }
        edge.extend(big_u.iter().cloned());
        for a in &edge {
            for b in &edge {
                push_cmp(&mut cmp, &mut meta, &tera, a, b);
            }
        }
        exhaustive_cmp = true;
    }
    // neighbours: a float against the integers next to it, an integer against the floats next to it
    let n_nb = if thorough { 6000 } else { 400 };
    for k in 0..n_nb {
        if k % 2 == 0 {
            let x = if rng.chance(1, 3) { rng.pick(&floats).as_f64().unwrap() } else { rand_f64(&mut rng) };
            let base: Option<Value> = if x.is_finite() && x.abs() < 1.7e38 {
                let fl = x.floor() as i128;
                let z = fl.saturating_add(rng.range(-1, 1) as i128);
                Some(rand_rep(&mut rng, z))
            } else if x.is_finite() && x > 0.0 && x < 3.5e38 {
                let u = (x.floor() as u128).saturating_add(rng.range(0, 1) as u128).saturating_sub(rng.range(0, 1) as u128);
                Some(Value::from(u))
            } else {
                None
            };
            let b = base.unwrap_or_else(|| rng.pick(&ints_all_reps).clone());
            let a = Value::from(x);
            if rng.chance(1, 2) { push_cmp(&mut cmp, &mut meta, &tera, &a, &b) } else { push_cmp(&mut cmp, &mut meta, &tera, &b, &a) }
        } else {
            let (zv, f) = if rng.chance(1, 6) {
                let u = *rng.pick(&pools::int_pool_u128_big());
                (Value::from(u), u as f64)
            } else {
                let z = if rng.chance(1, 2) { *rng.pick(&int_vals) } else { rand_i128(&mut rng) };
                (rand_rep(&mut rng, z), z as f64)
            };
            let f2 = f64::from_bits(f.to_bits().wrapping_add(rng.range(-1, 1) as u64));
            let a = Value::from(f2);
            if rng.chance(1, 2) { push_cmp(&mut cmp, &mut meta, &tera, &a, &zv) } else { push_cmp(&mut cmp, &mut meta, &tera, &zv, &a) }
        }
    }
    let n_cmp_rand = if thorough { 6000 } else { 500 };
    for _ in 0..n_cmp_rand {
        let pick = |rng: &mut Rng| -> Value {
            match rng.below(12) {
                0..=5 => rng.pick(&numbers).clone(),
                6..=7 => { let z = rand_i128(rng); rand_rep(rng, z) }
                8 => Value::from(rand_f64(rng)),
                9 => rng.pick(&big_u).clone(),
                10 => Value::from(rng.range(-5, 5)),
                _ => rng.pick(&floats).clone(),
            }
        };
        let (a, b) = (pick(&mut rng), pick(&mut rng));
        push_cmp(&mut cmp, &mut meta, &tera, &a, &b);
    }
    // non-numbers against numbers (ordering is an error, equality false)
    for k in &kinds {
        push_cmp(&mut cmp, &mut meta, &tera, k, &Value::from(1u64));
        push_cmp(&mut cmp, &mut meta, &tera, &Value::from(1.5f64), k);
    }

    // ---- prim
    for z in &int_vals {
        push_prim_conv(&mut prim, &mut meta, gal_z(*z), z.to_string(), *z as f64);
    }
    for u in pools::int_pool_u128_big() {
        push_prim_conv(&mut prim, &mut meta, gal_zu(u), u.to_string(), u as f64);
    }
    for x in &all_f {
        push_prim_float(&mut prim, &mut meta, *x);
    }
    {
        let fp = pools::float_pool();
        for x in &fp {
            for y in &fp {
                if thorough || rng.chance(1, 20) {
                    push_prim_float2(&mut prim, &mut meta, *x, *y);
                }
            }
        }
    }
    for _ in 0..(if thorough { 1500 } else { 120 }) {
        if rng.chance(1, 3) {
            let (x, y) = (rand_f64(&mut rng), rand_f64(&mut rng));
            push_prim_float2(&mut prim, &mut meta, x, y);
        }
        let z = rand_i128(&mut rng);
        push_prim_conv(&mut prim, &mut meta, gal_z(z), z.to_string(), z as f64);
        let u = ((rng.next() as u128) << 64) | rng.next() as u128;
        if rng.chance(1, 4) {
            push_prim_conv(&mut prim, &mut meta, gal_zu(u), u.to_string(), u as f64);
        }
        push_prim_float(&mut prim, &mut meta, rand_f64(&mut rng));
    }

    meta.extra.insert("oracle_only_evaluations".into(), json!(st.oracle_only));
    meta.extra.insert("oracle_only_nontrivial".into(), json!(st.oracle_only_nontrivial));
    meta.extra.insert("oracle_only_note".into(), json!("`**` with a float operand or a negative integer exponent (f64::powf) is run for the no-panic oracle only; the model does not compute it"));
    meta.extra.insert("pow_exponent_above_u32_hits".into(), json!(st.pow_kf_hits));
    meta.extra.insert("exhaustive_arith_pairs_of_boundary_values".into(), json!(exhaustive_arith));
    meta.extra.insert("exhaustive_cmp_float_x_all_int_reps_and_value_pairs".into(), json!(exhaustive_cmp));
    meta.extra.insert("pool_sizes".into(), json!({"boundary_ints": int_vals.len(), "ints_all_reps": ints_all_reps.len(), "floats": floats.len(), "u128_above_i128": big_u.len()}));
    meta.families.push(arith.finish());
    meta.families.push(neg.finish());
    meta.families.push(cmp.finish());
    meta.families.push(prim.finish());
    meta.families.push(cmpx.finish());
    meta.extra.insert("cmp_core_float_pool_all_ordered_pairs".into(), json!(core_pairs));
    meta.extra.insert("core_float_pool_bits".into(), json!(core_f.iter().map(|x| format!("{:#018x}", x.to_bits())).collect::<Vec<_>>()));
    meta.write(&args.out);
}
