//! C14 — indexing and slicing. Families:
//!   slice : `{{ x[a:b:c] | probe }}` / `x?[a:b:c]`  vs  Model.Slice.vm_slice
//!   index : `{{ x[i] | probe }}` / `x?[i]`          vs  Model.Slice.vm_subscript
//!   strops: length / reverse / truncate / for-iteration on strings vs Model.StrOps
use serde_json::json;
use tera::{Context, Tera, Value};
use tvh::*;

struct Operand {
    /// None = absent in the syntax
    val: Option<Value>,
}

fn operand_src(name: &str, o: &Operand) -> String {
    match &o.val {
        None => String::new(),
        Some(_) => name.to_string(),
    }
}

fn seqs() -> Vec<Value> {
    let mut out = Vec::new();
    for n in 0..=12usize {
        out.push(Value::from((0..n).map(|i| Value::from(i as u64 * 10)).collect::<Vec<_>>()));
    }
    out.push(Value::from(vec![Value::from("a"), Value::none(), Value::from(1.5f64)]));
    for s in pools::string_pool() {
        out.push(Value::from(s));
    }
    out.push(Value::safe_string("sa<fe>é日"));
    out.push(Value::from("0123456789ab"));
    out.push(Value::from("日本語éa😀z"));
    for (i, s) in pools::utf8_lead_byte_strings().into_iter().enumerate() {
        // E0, ED, F0, F4 and two ordinary ones
        if matches!(i, 0 | 30 | 43 | 46 | 47 | 50) {
            out.push(Value::from(s));
        }
    }
    out
}

fn small_ints() -> Vec<Value> {
    (-15i64..=15).map(Value::from).collect()
}

fn run_slice(tera: &Tera, opt: bool, recv: &Value, a: &Operand, b: &Operand, c: &Operand) -> Outcome<Value> {
    let mut ctx = Context::new();
    ctx.insert_value("x", recv.clone());
    for (n, o) in [("a", a), ("b", b), ("c", c)] {
        if let Some(v) = &o.val {
            if !v.is_undefined() {
                ctx.insert_value(n, v.clone());
            }
        }
    }
    let q = if opt { "?" } else { "" };
    let mut e = format!("x{q}[{}:{}", operand_src("a", a), operand_src("b", b));
    if c.val.is_some() {
        e.push(':');
        e.push_str("c");
    }
    e.push(']');
    if recv.is_undefined() {
        // an undefined receiver is an unbound variable
        let mut ctx2 = ctx.clone();
        ctx2.remove("x");
        return eval_expr(tera, &e, &ctx2);
    }
    eval_expr(tera, &e, &ctx)
}

fn push_slice(sink: &mut Sink, meta: &mut Meta, tera: &Tera, opt: bool, recv: &Value, a: Operand, b: Operand, c: Operand) {
    let r = run_slice(tera, opt, recv, &a, &b, &c);
    let vm = |o: &Operand, absent: &str| match &o.val {
        None => absent.to_string(),
        Some(v) => gal_value(v),
    };
    let g = format!(
        "{{| s_opt := {}; s_val := {}; s_start := {}; s_stop := {}; s_step := {}; s_impl := {} |}}",
        gal_bool(opt),
        gal_value(recv),
        vm(&a, "VNone"),
        vm(&b, "VNone"),
        vm(&c, "(VInt I64 1)"),
        r.gal(gal_value)
    );
    let jo = |o: &Operand| match &o.val {
        None => json!("absent"),
        Some(v) => json_value(v),
    };
    let desc = json!({"op": "slice", "optional": opt, "recv": json_value(recv), "start": jo(&a),
        "stop": jo(&b), "step": jo(&c), "impl": r.json(json_value)});
    let is_big_u128 = |o: &Operand| o.val.as_ref().map_or(false, |v| v.is_u128() && v.as_i128().is_none());
    let kf = if is_big_u128(&a) || is_big_u128(&b) || is_big_u128(&c) { Some("slice:u128-bound>i128::MAX") } else { None };
    let seq = recv.is_array() || recv.is_string();
    let nontrivial = seq && recv.len().unwrap_or(0) >= 2 && (a.val.is_some() || b.val.is_some() || c.val.is_some());
    let tag_recv = if recv.is_array() { "recv:array" } else if recv.is_string() { "recv:string" } else { "recv:other" };
    let tag_res = match &r { Outcome::Ok(_) => "impl:ok", Outcome::Err(..) => "impl:err", Outcome::Panic(_) => "impl:panic" };
    meta.oracle_checks += 1;
    if let Outcome::Panic(m) = &r {
        meta.oracle_fail(&format!("panic: {m}"), None, desc.clone());
    }
    if let Outcome::Ok(v) = &r {
        if let Some(s) = v.as_str() {
            if std::str::from_utf8(s.as_bytes()).is_err() {
                meta.oracle_fail("invalid utf-8 in slice result", None, desc.clone());
            }
        }
    }
    sink.push(g, desc, nontrivial, kf, &[tag_recv, tag_res]);
}

fn run_index(tera: &Tera, opt: bool, recv: &Value, i: &Value) -> Outcome<Value> {
    let mut ctx = Context::new();
    if !recv.is_undefined() {
        ctx.insert_value("x", recv.clone());
    }
    if !i.is_undefined() {
        ctx.insert_value("i", i.clone());
    }
    let q = if opt { "?" } else { "" };
    eval_expr(tera, &format!("x{q}[i]"), &ctx)
}

fn push_index(sink: &mut Sink, meta: &mut Meta, tera: &Tera, opt: bool, recv: &Value, i: &Value) {
    let r = run_index(tera, opt, recv, i);
    let g = format!(
        "{{| i_opt := {}; i_val := {}; i_sub := {}; i_impl := {} |}}",
        gal_bool(opt),
        gal_value(recv),
        gal_value(i),
        r.gal(gal_value)
    );
    let desc = json!({"op": "index", "optional": opt, "recv": json_value(recv), "index": json_value(i),
        "impl": r.json(json_value)});
    meta.oracle_checks += 1;
    if let Outcome::Panic(m) = &r {
        meta.oracle_fail(&format!("panic: {m}"), None, desc.clone());
    }
    let seq = recv.is_array() || recv.is_string();
    let nontrivial = seq && recv.len().unwrap_or(0) >= 1 && i.as_i128().is_some();
    let tag_res = match &r { Outcome::Ok(v) if v.is_undefined() => "impl:undefined", Outcome::Ok(_) => "impl:ok", Outcome::Err(..) => "impl:err", Outcome::Panic(_) => "impl:panic" };
    sink.push(g, desc, nontrivial, None, &[tag_res]);
}

/// strops: op 0 = length, 1 = reverse, 2 = truncate(length=n, end=e), 3 = iteration
fn push_strop(sink: &mut Sink, meta: &mut Meta, tera: &Tera, op: u8, s: &Value, n: u64, end: Option<&str>) {
    let mut ctx = Context::new();
    ctx.insert_value("s", s.clone());
    ctx.insert_value("n", Value::from(n));
    if let Some(e) = end {
        ctx.insert_value("e", Value::from(e));
    }
    let (r, opname) = match op {
        0 => (eval_expr(tera, "s | length", &ctx), "length"),
        1 => (eval_expr(tera, "s | reverse", &ctx), "reverse"),
        2 => {
            if end.is_some() {
                (eval_expr(tera, "s | truncate(length=n, end=e)", &ctx), "truncate")
            } else {
                (eval_expr(tera, "s | truncate(length=n)", &ctx), "truncate")
            }
        }
        _ => {
            // each character probed in turn, plus loop.length/index0/last as an array
            take_probe();
            let src = "{% for c in s %}{{ c | probe }}{{ [loop.index0, loop.length, loop.first, loop.last] | probe }}{% endfor %}";
            let r = guarded(|| tera.render_str(src, &ctx, false));
            let r = match r {
                Outcome::Ok(_) => Outcome::Ok(Value::from(take_probe())),
                Outcome::Err(a, b) => Outcome::Err(a, b),
                Outcome::Panic(m) => Outcome::Panic(m),
            };
            (r, "iterate")
        }
    };
    let g = format!(
        "{{| o_op := {}%N; o_str := {}; o_n := {}; o_end := {}; o_impl := {} |}}",
        op,
        gal_value(s),
        n,
        gal_opt(&end.map(|e| e.to_string()), |e| gal_str(e)),
        r.gal(gal_value)
    );
    let desc = json!({"op": opname, "s": json_value(s), "n": n, "end": end, "impl": r.json(json_value)});
    meta.oracle_checks += 1;
    if let Outcome::Panic(m) = &r {
        meta.oracle_fail(&format!("panic: {m}"), None, desc.clone());
    }
    let nontrivial = s.as_str().map_or(false, |x| x.chars().count() >= 2 && x.len() > x.chars().count());
    sink.push(g, desc, nontrivial, None, &[opname]);
}

fn main() {
    let args = parse_args();
    silence_panics();
    let mut tera = Tera::default();
    register_probe(&mut tera);
    let mut rng = Rng::new(args.seed);
    let thorough = args.tier == "thorough";
    let mut meta = Meta::default();

    let hdr = "From TeraV Require Import Model.Value Corr.CorrC14.";
    let mut slice = Sink::new(&args.out, "slice", hdr, "check_slice");
    let mut index = Sink::new(&args.out, "index", hdr, "check_index");
    let mut strops = Sink::new(&args.out, "strops", hdr, "check_strop");

    let recvs = seqs();
    let ints = pools::int_values();
    let small = small_ints();
    let kinds = pools::kind_pool();

    // --- corpus: hand-written edge cases always run first
    {
        let arr = &recvs[5];
        let big = Value::from(u128::MAX);
        let imin = Value::from(i128::MIN);
        let imax = Value::from(i128::MAX);
        for (a, b, c) in [
            (None, None, Some(Value::from(-1i64))),
            (Some(imin.clone()), Some(imax.clone()), Some(imax.clone())),
            (Some(imax.clone()), Some(imin.clone()), Some(imin.clone())),
            (None, Some(big.clone()), None),
            (Some(big.clone()), None, Some(Value::from(-1i64))),
            (None, None, Some(big.clone())),
            (None, None, Some(Value::from(0u64))),
            (Some(Value::from(-1i64)), Some(Value::from(i128::MIN + 1)), Some(Value::from(i128::MIN))),
        ] {
            for r in [arr, &Value::from("日本語éa😀z")] {
                push_slice(&mut slice, &mut meta, &tera, false, r, Operand { val: a.clone() }, Operand { val: b.clone() }, Operand { val: c.clone() });
            }
        }
    }

    // --- slice: exhaustive small space
    let max_len_exh = if thorough { 6 } else { 3 };
    let small_exh: Vec<Option<Value>> = {
        let lim = if thorough { 8 } else { 4 };
        let mut v: Vec<Option<Value>> = vec![None];
        v.extend((-lim..=lim).map(|z: i64| Some(Value::from(z))));
        v
    };
    // the same space over strings (characters of 1-4 bytes), empty string included: strings take their
    // own path through Value::slice
    let str_exh: Vec<Value> = ["", "é", "é日", "aé😀", "日a😀éz", "😀日éaz語"].iter().map(|s| Value::from(*s)).collect();
    for len in 0..=max_len_exh {
        let recv = &str_exh[len.min(str_exh.len() - 1)];
        for a in &small_exh {
            for b in &small_exh {
                for c in &small_exh {
                    push_slice(&mut slice, &mut meta, &tera, false, recv, Operand { val: a.clone() }, Operand { val: b.clone() }, Operand { val: c.clone() });
                }
            }
        }
    }
    for len in 0..=max_len_exh {
        let recv = &recvs[len];
        for a in &small_exh {
            for b in &small_exh {
                for c in &small_exh {
                    push_slice(&mut slice, &mut meta, &tera, false, recv, Operand { val: a.clone() }, Operand { val: b.clone() }, Operand { val: c.clone() });
                }
            }
        }
    }
    let exhaustive_slice = slice.count;

    // --- slice: random over pools
    let n_rand = if thorough { 120_000 } else { 2_500 };
    let pick_operand = |rng: &mut Rng| -> Operand {
        match rng.below(20) {
            0..=2 => Operand { val: None },
            3..=9 => Operand { val: Some(rng.pick(&small).clone()) },
            10..=17 => Operand { val: Some(rng.pick(&ints).clone()) },
            18 => Operand { val: Some(Value::none()) },
            _ => Operand { val: Some(rng.pick(&kinds).clone()) },
        }
    };
    for _ in 0..n_rand {
        let recv = if rng.chance(1, 12) { rng.pick(&kinds).clone() } else { rng.pick(&recvs).clone() };
        let opt = rng.chance(1, 8);
        let (a, b, c) = (pick_operand(&mut rng), pick_operand(&mut rng), pick_operand(&mut rng));
        push_slice(&mut slice, &mut meta, &tera, opt, &recv, a, b, c);
    }

    // --- index: all receivers x (all pool ints + small ints + kinds), both forms
    for recv in recvs.iter().chain(kinds.iter().filter(|k| !k.is_map())) {
        for i in small.iter().chain(ints.iter()).chain(kinds.iter()) {
            if !thorough && rng.chance(3, 4) {
                continue;
            }
            push_index(&mut index, &mut meta, &tera, false, recv, i);
            if rng.chance(1, 6) {
                push_index(&mut index, &mut meta, &tera, true, recv, i);
            }
        }
    }

    // --- strops
    let strs: Vec<Value> = pools::string_pool().iter().map(|s| Value::from(*s)).chain([Value::safe_string("é<日>"), Value::from("日本語éa😀z0123456789")]).collect();
    for s in &strs {
        push_strop(&mut strops, &mut meta, &tera, 0, s, 0, None);
        push_strop(&mut strops, &mut meta, &tera, 1, s, 0, None);
        push_strop(&mut strops, &mut meta, &tera, 3, s, 0, None);
        let nchars = s.as_str().unwrap().chars().count() as u64;
        for n in 0..=(nchars + 2) {
            push_strop(&mut strops, &mut meta, &tera, 2, s, n, None);
            push_strop(&mut strops, &mut meta, &tera, 2, s, n, Some("é>"));
            push_strop(&mut strops, &mut meta, &tera, 2, s, n, Some(""));
        }
    }

    // every UTF-8 lead byte: length / reverse / iterate / truncate at every cut
    let leads = pools::utf8_lead_byte_strings();
    for s in &leads {
        let v = Value::from(s.as_str());
        for op in [0u8, 1, 3] {
            push_strop(&mut strops, &mut meta, &tera, op, &v, 0, None);
        }
        for n in 0..=5u64 {
            push_strop(&mut strops, &mut meta, &tera, 2, &v, n, None);
            if thorough {
                push_strop(&mut strops, &mut meta, &tera, 2, &v, n, Some("é>"));
            }
        }
    }
    meta.extra.insert("utf8_lead_bytes_visited".into(), json!(leads.len()));

    meta.extra.insert("exhaustive_slice_cases".into(), json!(exhaustive_slice));
    meta.extra.insert("exhaustive_slice_space".into(), json!(format!("lengths 0..={max_len_exh} x (absent | -{0}..={0})^3", if thorough { 8 } else { 4 })));
    meta.families.push(slice.finish());
    meta.families.push(index.finish());
    meta.families.push(strops.finish());
    meta.write(&args.out);
}
