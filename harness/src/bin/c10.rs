//! C10 — template registration is atomic and independent of history.
//! Family `history`: a sequence of add_raw_templates / autoescape_on calls on ONE long-lived
//! `Tera`, drawn from a pool of (name, source) descriptors that contains every failure kind.
//!   * after each call: accept/reject + ErrorKind  vs  Model.Registry.run  (T-corr)
//!   * implementation-side oracle = the property itself: after a failing call the observable
//!     behaviour (names, every render, every render_block, every get_component_definition,
//!     error class and text of failing renders) is what it was before; after a successful call
//!     it equals that of a FRESH instance given the resulting set in one batch, in sorted and
//!     in shuffled order.
#[path = "../regdesc.rs"]
mod regdesc;

use regdesc::*;
use serde_json::json;
use std::collections::BTreeMap;
use tera::{Context, Tera};
use tvh::*;

const BLOCKS: [&str; 4] = ["y", "z", "q", "nope"];
const COMPS: [&str; 3] = ["c", "d", "nocomp"];
const KNOWN: [&str; 3] = ["upper", "odd", "range"];

fn pool() -> Vec<(String, Tpl, &'static str)> {
    use Item::*;
    let blk = |n: &str, v: Vec<Item>| Block(n.to_string(), v);
    let inc = |n: &str| Include(n.to_string());
    let t = |e: Option<&str>, b: Vec<Item>| Tpl::new(e, b);
    let mut p: Vec<(String, Tpl, &'static str)> = vec![];
    let mut add = |n: &str, tp: Tpl, what: &'static str| p.push((n.to_string(), tp, what));
    add("base.html", t(None, vec![Text(1), Var, blk("y", vec![Text(2)]), Text(3)]), "root");
    add("base.html", t(None, vec![Text(4), blk("y", vec![Text(5), blk("z", vec![Text(6), Var])])]), "root-v2");
    add("kid.html", t(Some("base.html"), vec![blk("y", vec![Text(7), Super])]), "child");
    add("kid.html", t(Some("base.html"), vec![blk("q", vec![Text(8)])]), "orphan-block");
    add("part.txt", t(None, vec![Text(9), Var]), "partial");
    add("page.html", t(None, vec![Text(10), inc("part.txt"), Call("c".into()), Filter("upper".into()), Test("odd".into()), Func("range".into())]), "page");
    add("comp.html", t(None, vec![Text(11)]).with_comp("c", vec![Text(12), Var]), "component-provider");
    add("comp2.html", t(None, vec![Text(13)]).with_comp("c", vec![Text(14), Text(15)]), "duplicate-component");
    add("broken.html", Tpl::broken("{% if x %}[16]"), "syntax-error");
    add("orphan.html", t(Some("nope.html"), vec![Text(17)]), "missing-parent");
    add("cyc1.html", t(Some("cyc2.html"), vec![Text(18)]), "extends-cycle-1");
    add("cyc2.html", t(Some("cyc1.html"), vec![Text(19)]), "extends-cycle-2");
    add("inc1.txt", t(None, vec![Text(20), inc("inc2.txt")]), "include-cycle-1");
    add("inc2.txt", t(None, vec![Text(21), inc("inc1.txt")]), "include-cycle-2");
    add("uf.html", t(None, vec![Text(22), Filter("nofilter".into())]), "unknown-filter");
    add("ut.html", t(None, vec![Text(23), Test("notest".into())]), "unknown-test");
    add("ufn.html", t(None, vec![Text(24), Func("nofunc".into())]), "unknown-function");
    add("uc.html", t(None, vec![Text(25), Call("nocomp".into())]), "unknown-component");
    add("ui.html", t(None, vec![Text(26), inc("missing.html")]), "unknown-include");
    add("base.html", t(Some("kid.html"), vec![blk("y", vec![Text(27)])]), "root-becomes-child-of-kid");
    add("part.txt", t(None, vec![Text(28), inc("page.html")]), "partial-includes-page");
    add("comp.html", t(None, vec![Text(29)]), "provider-without-component");
    add("self.html", t(Some("self.html"), vec![Text(30)]), "extends-self");
    add("selfinc.txt", t(None, vec![Text(31), inc("selfinc.txt")]), "includes-self");
    add("comp.html", t(None, vec![Text(32)]).with_comp("c", vec![Text(33)]).with_comp("d", vec![Text(34), Call("c".into())]), "provider-v2");
    // replacements that keep every cheap fingerprint (name, byte length, parent chain, block names)
    // and change only the content, with descendants at distance 1 and 2
    add("base.html", t(None, vec![Text(4), Var, blk("y", vec![Text(5)]), Text(6)]), "root-same-length-as-root");
    add("kid.html", t(Some("base.html"), vec![blk("y", vec![Text(0), Super])]), "child-same-length-as-child");
    add("leaf.html", t(Some("kid.html"), vec![blk("y", vec![Text(35), Super])]), "grandchild");
    add("base.html", t(None, vec![Text(7), blk("y", vec![Text(8), blk("z", vec![Text(9), Var])])]), "root-v2-same-length-as-root-v2");
    add("leaf.html", t(Some("kid.html"), vec![blk("y", vec![Text(36), Super])]), "grandchild-same-length");
    // replacements that CHANGE the parent chain of templates with descendants at distance >= 2
    // (re-parenting a root or a middle template, closing a cycle through a deep descendant)
    add("root0.html", t(None, vec![Text(40), blk("y", vec![Text(41)]), Text(42)]), "second-root");
    add("base.html", t(Some("root0.html"), vec![blk("y", vec![Text(43), Super])]), "root-becomes-child-of-second-root");
    add("kid.html", t(Some("root0.html"), vec![blk("y", vec![Text(44), Super])]), "child-reparented");
    add("root0.html", t(Some("leaf.html"), vec![blk("y", vec![Text(45)])]), "second-root-extends-deep-descendant");
    add("tip.html", t(Some("leaf.html"), vec![blk("y", vec![Text(46), Super])]), "great-grandchild");
    p
}

fn suffix_sets() -> Vec<Vec<String>> {
    vec![
        vec![".html".into(), ".htm".into(), ".xml".into()],
        vec![".txt".into()],
        vec![],
        vec![".html".into(), ".txt".into()],
    ]
}

#[derive(Clone, Debug)]
enum Call {
    Add(Vec<usize>),
    Auto(usize),
}

fn observe(tera: &Tera) -> Vec<String> {
    let mut ctx = Context::new();
    ctx.insert("x", "<&>");
    let mut names: Vec<String> = tera.get_template_names().map(|s| s.to_string()).collect();
    names.sort();
    let mut out = vec![format!("names={names:?}")];
    for n in &names {
        let r = guarded(|| tera.render(n, &ctx));
        out.push(match r {
            Outcome::Ok(s) => format!("render {n} = {s}"),
            Outcome::Err(c, m) => format!("render {n} ! {c}: {m}"),
            Outcome::Panic(m) => format!("render {n} PANIC {m}"),
        });
        for b in BLOCKS {
            let r = guarded(|| tera.render_block(n, b, &ctx));
            out.push(match r {
                Outcome::Ok(s) => format!("block {n}/{b} = {s}"),
                Outcome::Err(c, m) => format!("block {n}/{b} ! {c}: {m}"),
                Outcome::Panic(m) => format!("block {n}/{b} PANIC {m}"),
            });
        }
    }
    for c in COMPS {
        out.push(format!("component {c} = {:?}", tera.get_component_definition(c)));
        let r = guarded(|| tera.render_component(c, &ctx, None, true));
        out.push(match r {
            Outcome::Ok(s) => format!("render_component {c} = {s}"),
            Outcome::Err(cl, m) => format!("render_component {c} ! {cl}: {m}"),
            Outcome::Panic(m) => format!("render_component {c} PANIC {m}"),
        });
    }
    out
}

/// Child side of `observe_in_child`: replays the calls on a new instance and prints what
/// `observe` sees as one JSON line (an abort here is seen by the parent as a signal).
fn observe_child_main() -> ! {
    use std::io::Read;
    let mut input = String::new();
    std::io::stdin().read_to_string(&mut input).expect("stdin");
    let job: serde_json::Value = serde_json::from_str(&input).expect("job");
    silence_panics();
    let mut tera = Tera::default();
    for c in job["calls"].as_array().expect("calls") {
        if let Some(sf) = c.get("autoescape_on") {
            let v: Vec<String> = sf.as_array().unwrap().iter().map(|x| x.as_str().unwrap().to_string()).collect();
            tera.autoescape_on(v);
        } else {
            let b: Vec<(String, String)> = c["add"].as_array().unwrap().iter().map(|p| (p[0].as_str().unwrap().to_string(), p[1].as_str().unwrap().to_string())).collect();
            let _ = add_all(&mut tera, &b);
        }
    }
    println!("{}", json!(observe(&tera)));
    std::process::exit(0);
}

/// Observation of the instance reached by `calls`, taken in a child process: used after a
/// failing add that touched existing or repeated names, where a broken rollback can leave a
/// never-validated template behind whose render does not terminate.
fn observe_in_child(calls: &[serde_json::Value]) -> Result<Vec<String>, String> {
    let (lines, bad) = run_child_with("observe-child", &json!({"calls": calls}), std::time::Duration::from_secs(30));
    if let Some(b) = bad {
        return Err(b);
    }
    let last = lines.last().ok_or_else(|| "no output".to_string())?;
    let v: serde_json::Value = serde_json::from_str(last).map_err(|e| e.to_string())?;
    Ok(v.as_array().ok_or("not an array")?.iter().map(|x| x.as_str().unwrap_or("").to_string()).collect())
}

fn sorted_names(tera: &Tera) -> Vec<String> {
    let mut names: Vec<String> = tera.get_template_names().map(|s| s.to_string()).collect();
    names.sort();
    names
}

fn first_diff(a: &[String], b: &[String]) -> String {
    for (x, y) in a.iter().zip(b.iter()) {
        if x != y {
            return format!("`{x}` vs `{y}`");
        }
    }
    format!("lengths {} vs {}", a.len(), b.len())
}

struct Run {
    sink: Sink,
    meta: Meta,
    pool: Vec<(String, Tpl, &'static str)>,
    srcs: Vec<String>,
    sufs: Vec<Vec<String>>,
    calls_ok: usize,
    calls_err: BTreeMap<String, usize>,
    fresh_compared: usize,
    child_observations: usize,
}

impl Run {
    fn history(&mut self, rng: &mut Rng, calls: &[Call], tag: &str) {
        let mut tera = Tera::default();
        let mut cur_sufs = 0usize;
        let mut set: BTreeMap<String, String> = BTreeMap::new();
        let mut results: Vec<String> = vec![];
        let mut jcalls = vec![];
        let mut prev_obs = observe(&tera);
        let mut any_err = false;
        let mut any_ok = false;
        let mut prev_names = sorted_names(&tera);
        for (ci, c) in calls.iter().enumerate() {
            let mut touches_existing = false;
            match c {
                Call::Auto(k) => {
                    cur_sufs = *k;
                    tera.autoescape_on(self.sufs[*k].clone());
                    results.push("(Ok tt)".into());
                    jcalls.push(json!({"autoescape_on": self.sufs[*k]}));
                }
                Call::Add(idx) => {
                    let batch: Vec<(String, String)> = idx.iter().map(|i| (self.pool[*i].0.clone(), self.srcs[*i].clone())).collect();
                    touches_existing = batch.iter().enumerate().any(|(k, (n, _))| set.contains_key(n) || batch[..k].iter().any(|(m, _)| m == n));
                    let r = add_all(&mut tera, &batch);
                    jcalls.push(json!({"add": batch.iter().map(|(n, s)| json!([n, s])).collect::<Vec<_>>(),
                        "impl": match &r { Ok(()) => json!("ok"), Err(c) => json!({"err": c}) }}));
                    match &r {
                        Ok(()) => {
                            any_ok = true;
                            self.calls_ok += 1;
                            results.push("(Ok tt)".into());
                            for (n, s) in &batch {
                                set.insert(n.clone(), s.clone());
                            }
                        }
                        Err(cl) => {
                            any_err = true;
                            *self.calls_err.entry(cl.clone()).or_default() += 1;
                            results.push(format!("(Err {})", gal_ekind(cl)));
                        }
                    }
                    if let Err(cl) = &r {
                        if cl == "panic" {
                            self.meta.oracle_fail("add_raw_templates panicked", None, json!({"calls": jcalls}));
                        }
                    }
                }
            }
            // ---- oracle: the property itself
            let failed_add = matches!(c, Call::Add(_)) && results.last().map_or(false, |r| r.starts_with("(Err"));
            self.meta.oracle_checks += 1;
            let names_now = sorted_names(&tera);
            if failed_add && names_now != prev_names {
                // nothing is rendered on this instance any more: what is left may never have been validated
                self.meta.oracle_fail(
                    &format!("a FAILING add changed the set of template names at call {ci}: {prev_names:?} -> {names_now:?}"),
                    None,
                    json!({"calls": jcalls}),
                );
                return;
            }
            let obs = if failed_add && touches_existing {
                // a broken rollback could have left a never-validated template under an old name
                self.child_observations += 1;
                match observe_in_child(&jcalls) {
                    Ok(o) => o,
                    Err(how) => {
                        self.meta.oracle_fail(
                            &format!("after the FAILING add at call {ci} rendering the instance did not end ({how}): the rollback left something that was never validated"),
                            None,
                            json!({"calls": jcalls}),
                        );
                        return;
                    }
                }
            } else {
                observe(&tera)
            };
            prev_names = names_now;
            if failed_add && obs != prev_obs {
                self.meta.oracle_fail(
                    &format!("a FAILING add changed observable behaviour at call {ci}: {}", first_diff(&prev_obs, &obs)),
                    None,
                    json!({"calls": jcalls}),
                );
                // the instance holds something that was not validated: stop using it
                return;
            }
            // fresh instances given the resulting set in one batch: sorted order and shuffled
            let sorted: Vec<(String, String)> = set.iter().map(|(n, s)| (n.clone(), s.clone())).collect();
            let mut shuffled = sorted.clone();
            for i in (1..shuffled.len()).rev() {
                let j = rng.below(i + 1);
                shuffled.swap(i, j);
            }
            for (which, batch) in [("sorted", &sorted), ("shuffled", &shuffled)] {
                let mut fresh = Tera::default();
                fresh.autoescape_on(self.sufs[cur_sufs].clone());
                self.meta.oracle_checks += 1;
                self.fresh_compared += 1;
                match add_all(&mut fresh, batch) {
                    Err(cl) => self.meta.oracle_fail(
                        &format!("a fresh instance REJECTS ({cl}) the set the long-lived instance holds after call {ci} ({which} batch)"),
                        None,
                        json!({"calls": jcalls, "set": batch.iter().map(|(n, s)| json!([n, s])).collect::<Vec<_>>()}),
                    ),
                    Ok(()) => {
                        let fo = observe(&fresh);
                        if fo != obs {
                            self.meta.oracle_fail(
                                &format!("after call {ci} the instance differs from a fresh one given the same set ({which} batch): {}", first_diff(&obs, &fo)),
                                None,
                                json!({"calls": jcalls, "set": batch.iter().map(|(n, s)| json!([n, s])).collect::<Vec<_>>()}),
                            );
                        }
                    }
                }
            }
            prev_obs = obs;
        }
        // ---- Gallina case: pool restricted to the descriptors this history uses
        let mut used: Vec<usize> = vec![];
        for c in calls {
            if let Call::Add(idx) = c {
                for i in idx {
                    if !used.contains(i) {
                        used.push(*i);
                    }
                }
            }
        }
        let pos = |i: usize| used.iter().position(|u| *u == i).unwrap();
        let pool_g: Vec<String> = used.iter().map(|i| format!("({}, {})", gal_name(&self.pool[*i].0), gal_source(&self.pool[*i].1))).collect();
        let calls_g: Vec<String> = calls
            .iter()
            .map(|c| match c {
                Call::Add(idx) => format!("HAdd [{}]%nat", idx.iter().map(|i| pos(*i).to_string()).collect::<Vec<_>>().join(";")),
                Call::Auto(k) => format!("HAuto {}", gal_names(&self.sufs[*k])),
            })
            .collect();
        let known: Vec<String> = KNOWN.iter().map(|s| s.to_string()).collect();
        let g = format!(
            "{{| h_pre := []; h_known := {}; h_sufs := {}; h_pool := [{}]; h_calls := [{}]; h_impl := [{}] |}}",
            gal_names(&known),
            gal_names(&self.sufs[0]),
            pool_g.join("; "),
            calls_g.join("; "),
            results.join("; ")
        );
        let kinds: Vec<&str> = used.iter().map(|i| self.pool[*i].2).collect();
        let desc = json!({"calls": jcalls, "pool_kinds": kinds});
        let t2 = if any_err && any_ok { "mixed ok/err" } else if any_err { "only err" } else { "only ok" };
        self.sink.push(g, desc, calls.len() >= 2 && any_err && any_ok, None, &[tag, t2]);
    }
}

fn main() {
    if std::env::args().nth(1).as_deref() == Some("observe-child") {
        observe_child_main();
    }
    let args = parse_args();
    silence_panics();
    let mut rng = Rng::new(args.seed);
    let thorough = args.tier == "thorough";
    let pool = pool();
    let srcs: Vec<String> = pool.iter().map(|(_, t, _)| source_of(t)).collect();
    let hdr = "From TeraV Require Import Model.Value Model.Registry Corr.CorrC11 Corr.CorrC10.";
    let mut run = Run {
        sink: Sink::new(&args.out, "history", hdr, "check_history"),
        meta: Meta::default(),
        pool,
        srcs,
        sufs: suffix_sets(),
        calls_ok: 0,
        calls_err: BTreeMap::new(),
        fresh_compared: 0,
        child_observations: 0,
    };
    if let Some(p) = &args.replay {
        let r: serde_json::Value = serde_json::from_str(&std::fs::read_to_string(p).expect("replay")).expect("json");
        let case = if r.get("case").is_some() { &r["case"] } else if r.get("input").is_some() { &r["input"] } else { &r };
        let mut tera = Tera::default();
        for c in case["calls"].as_array().expect("calls") {
            if let Some(s) = c.get("autoescape_on") {
                let v: Vec<String> = s.as_array().unwrap().iter().map(|x| x.as_str().unwrap().to_string()).collect();
                println!("autoescape_on({v:?})");
                tera.autoescape_on(v);
            } else {
                let b: Vec<(String, String)> = c["add"].as_array().unwrap().iter().map(|p| (p[0].as_str().unwrap().to_string(), p[1].as_str().unwrap().to_string())).collect();
                println!("add {b:?} -> {:?}", add_all(&mut tera, &b));
            }
            for l in observe(&tera) {
                println!("    {l}");
            }
        }
        return;
    }
    let n = run.pool.len();

    // --- corpus: the two histories the existing tests pin, and replacement of a dependency
    run.history(&mut rng, &[Call::Add(vec![0]), Call::Add(vec![2]), Call::Add(vec![8]), Call::Add(vec![1])], "corpus");
    run.history(&mut rng, &[Call::Add(vec![6, 5, 4]), Call::Add(vec![21]), Call::Add(vec![24]), Call::Add(vec![7])], "corpus");
    run.history(&mut rng, &[Call::Add(vec![0, 2]), Call::Auto(1), Call::Add(vec![19]), Call::Add(vec![3]), Call::Auto(0)], "corpus");
    run.history(&mut rng, &[Call::Add(vec![4, 5, 6]), Call::Add(vec![20]), Call::Add(vec![0, 0, 1, 8]), Call::Add(vec![1, 0])], "corpus");

    // --- exhaustive: every history of <= 2 (thorough: <= 3) single-template calls over the pool
    let mut exhaustive = 0usize;
    for a in 0..n {
        run.history(&mut rng, &[Call::Add(vec![a])], "exh1");
        exhaustive += 1;
        for b in 0..n {
            run.history(&mut rng, &[Call::Add(vec![a]), Call::Add(vec![b])], "exh2");
            exhaustive += 1;
            if thorough {
                for c in 0..n {
                    if !rng.chance(1, 2) {
                        continue;
                    }
                    run.history(&mut rng, &[Call::Add(vec![a]), Call::Add(vec![b]), Call::Add(vec![c])], "exh3");
                    exhaustive += 1;
                }
            }
        }
    }
    // every two-template batch, alone and after one call
    for a in 0..n {
        for b in 0..n {
            run.history(&mut rng, &[Call::Add(vec![a, b])], "batch2");
        }
    }

    // --- replacements on top of an accepted core with descendants at distance 1 and 2
    // (root, child, grandchild, partial, page, component provider): every pool descriptor as
    // one replacement, and every pair of the same-name variants as two successive replacements
    let core = vec![0usize, 2, 27, 4, 5, 6, 30, 34];
    for r in 0..n {
        run.history(&mut rng, &[Call::Add(core.clone()), Call::Add(vec![r])], "replace1");
        run.history(&mut rng, &[Call::Add(vec![0]), Call::Add(vec![2]), Call::Add(vec![27]), Call::Add(vec![r])], "replace1");
    }
    let variants = [0usize, 1, 25, 28, 2, 26, 27, 29, 19, 3, 31, 32, 33];
    for a in variants {
        for b in variants {
            run.history(&mut rng, &[Call::Add(core.clone()), Call::Add(vec![a]), Call::Add(vec![b])], "replace2");
            // a failing batch that repeats a name: the undo list must be replayed in reverse
            run.history(&mut rng, &[Call::Add(core.clone()), Call::Add(vec![a, b, 8])], "rollback");
            run.history(&mut rng, &[Call::Add(vec![4, 5, 6]), Call::Add(vec![20, 4, 8]), Call::Add(vec![a, b, 9])], "rollback");
        }
    }

    // --- random histories, length <= 12, batches of 1..3, autoescape interleaved
    let k = if thorough { 4000 } else { 500 };
    // descriptors that make an accepted core, so that histories do not fail all the way
    let good = [0usize, 1, 2, 4, 5, 6, 24, 25, 26, 27, 28, 29, 30, 31, 32, 34];
    for _ in 0..k {
        let len = 2 + rng.below(11);
        let mut calls = vec![];
        for _ in 0..len {
            if rng.chance(1, 6) {
                calls.push(Call::Auto(rng.below(4)));
            } else {
                let bl = 1 + rng.below(3);
                let mut idx = vec![];
                for _ in 0..bl {
                    idx.push(if rng.chance(3, 5) { *rng.pick(&good) } else { rng.below(n) });
                }
                calls.push(Call::Add(idx));
            }
        }
        run.history(&mut rng, &calls, "random");
    }

    let Run { sink, mut meta, calls_ok, calls_err, fresh_compared, child_observations, .. } = run;
    meta.extra.insert("exhaustive_histories".into(), json!(exhaustive));
    meta.extra.insert("exhaustive_space".into(), json!(format!("all histories of <= 2 single-template add calls over the {} pool descriptors + all two-template batches{}", n, if thorough { " + half of all 3-call histories (sampled)" } else { "" })));
    meta.extra.insert("successful_add_calls".into(), json!(calls_ok));
    meta.extra.insert("failing_add_calls_by_kind".into(), json!(calls_err));
    meta.extra.insert("fresh_instance_comparisons".into(), json!(fresh_compared));
    meta.extra.insert("child_process_observations_after_failed_adds".into(), json!(child_observations));
    meta.families.push(sink.finish());
    meta.write(&args.out);
}
