//! C10 — template registration is atomic and independent of history.
//! Family `history`: a sequence of add_raw_templates / add_template_file / add_template_files /
//! autoescape_on calls on ONE long-lived `Tera`, drawn from a pool of (name, source) descriptors
//! that contains every failure kind. File calls read real files the harness writes under
//! `<out>/files` (its working directory): with an explicit name or with the path as the name,
//! and with the failure kinds only files have (no file, a directory, content that is not UTF-8,
//! a path that is not UTF-8) anywhere in a batch.
//!   * after each call: accept/reject + ErrorKind  vs  Model.Registry.run  (T-corr)
//!   * implementation-side oracle = the property itself: after a failing call the observable
//!     behaviour (names, every render, every render_block, every get_component_definition,
//!     error class and text of failing renders) is what it was before; after a successful call
//!     it equals that of a FRESH instance given the resulting set in one batch, in sorted and
//!     in shuffled order.
#[path = "../regdesc.rs"]
mod regdesc;

use regdesc::*;
use serde_json::json;
use std::collections::BTreeMap;
use tera::{Context, Tera};
use tvh::*;

const BLOCKS: [&str; 4] = ["y", "z", "q", "nope"];
const COMPS: [&str; 3] = ["c", "d", "nocomp"];
const KNOWN: [&str; 3] = ["upper", "odd", "range"];

fn pool() -> Vec<(String, Tpl, &'static str)> {
    use Item::*;
    let blk = |n: &str, v: Vec<Item>| Block(n.to_string(), v);
    let inc = |n: &str| Include(n.to_string());
    let t = |e: Option<&str>, b: Vec<Item>| Tpl::new(e, b);
    let mut p: Vec<(String, Tpl, &'static str)> = vec![];
    let mut add = |n: &str, tp: Tpl, what: &'static str| p.push((n.to_string(), tp, what));
    add("base.html", t(None, vec![Text(1), Var, blk("y", vec![Text(2)]), Text(3)]), "root");
    add("base.html", t(None, vec![Text(4), blk("y", vec![Text(5), blk("z", vec![Text(6), Var])])]), "root-v2");
    add("kid.html", t(Some("base.html"), vec![blk("y", vec![Text(7), Super])]), "child");
    add("kid.html", t(Some("base.html"), vec![blk("q", vec![Text(8)])]), "orphan-block");
    add("part.txt", t(None, vec![Text(9), Var]), "partial");
    add("page.html", t(None, vec![Text(10), inc("part.txt"), Call("c".into()), Filter("upper".into()), Test("odd".into()), Func("range".into())]), "page");
    add("comp.html", t(None, vec![Text(11)]).with_comp("c", vec![Text(12), Var]), "component-provider");
    add("comp2.html", t(None, vec![Text(13)]).with_comp("c", vec![Text(14), Text(15)]), "duplicate-component");
    add("broken.html", Tpl::broken("{% if x %}[16]"), "syntax-error");
    add("orphan.html", t(Some("nope.html"), vec![Text(17)]), "missing-parent");
    add("cyc1.html", t(Some("cyc2.html"), vec![Text(18)]), "extends-cycle-1");
    add("cyc2.html", t(Some("cyc1.html"), vec![Text(19)]), "extends-cycle-2");
    add("inc1.txt", t(None, vec![Text(20), inc("inc2.txt")]), "include-cycle-1");
    add("inc2.txt", t(None, vec![Text(21), inc("inc1.txt")]), "include-cycle-2");
    add("uf.html", t(None, vec![Text(22), Filter("nofilter".into())]), "unknown-filter");
    add("ut.html", t(None, vec![Text(23), Test("notest".into())]), "unknown-test");
    add("ufn.html", t(None, vec![Text(24), Func("nofunc".into())]), "unknown-function");
    add("uc.html", t(None, vec![Text(25), Call("nocomp".into())]), "unknown-component");
    add("ui.html", t(None, vec![Text(26), inc("missing.html")]), "unknown-include");
    add("base.html", t(Some("kid.html"), vec![blk("y", vec![Text(27)])]), "root-becomes-child-of-kid");
    add("part.txt", t(None, vec![Text(28), inc("page.html")]), "partial-includes-page");
    add("comp.html", t(None, vec![Text(29)]), "provider-without-component");
    add("self.html", t(Some("self.html"), vec![Text(30)]), "extends-self");
    add("selfinc.txt", t(None, vec![Text(31), inc("selfinc.txt")]), "includes-self");
    add("comp.html", t(None, vec![Text(32)]).with_comp("c", vec![Text(33)]).with_comp("d", vec![Text(34), Call("c".into())]), "provider-v2");
    // replacements that keep every cheap fingerprint (name, byte length, parent chain, block names)
    // and change only the content, with descendants at distance 1 and 2
    add("base.html", t(None, vec![Text(4), Var, blk("y", vec![Text(5)]), Text(6)]), "root-same-length-as-root");
    add("kid.html", t(Some("base.html"), vec![blk("y", vec![Text(0), Super])]), "child-same-length-as-child");
    add("leaf.html", t(Some("kid.html"), vec![blk("y", vec![Text(35), Super])]), "grandchild");
    add("base.html", t(None, vec![Text(7), blk("y", vec![Text(8), blk("z", vec![Text(9), Var])])]), "root-v2-same-length-as-root-v2");
    add("leaf.html", t(Some("kid.html"), vec![blk("y", vec![Text(36), Super])]), "grandchild-same-length");
    // replacements that CHANGE the parent chain of templates with descendants at distance >= 2
    // (re-parenting a root or a middle template, closing a cycle through a deep descendant)
    add("root0.html", t(None, vec![Text(40), blk("y", vec![Text(41)]), Text(42)]), "second-root");
    add("base.html", t(Some("root0.html"), vec![blk("y", vec![Text(43), Super])]), "root-becomes-child-of-second-root");
    add("kid.html", t(Some("root0.html"), vec![blk("y", vec![Text(44), Super])]), "child-reparented");
    add("root0.html", t(Some("leaf.html"), vec![blk("y", vec![Text(45)])]), "second-root-extends-deep-descendant");
    add("tip.html", t(Some("leaf.html"), vec![blk("y", vec![Text(46), Super])]), "great-grandchild");
    p
}

fn suffix_sets() -> Vec<Vec<String>> {
    vec![
        vec![".html".into(), ".htm".into(), ".xml".into()],
        vec![".txt".into()],
        vec![],
        vec![".html".into(), ".txt".into()],
    ]
}

/// one entry of a file call: pool descriptor `0` supplies the key (its name) and, for `Good`,
/// the content
#[derive(Clone, Copy, Debug, PartialEq)]
enum FK {
    Good,
    Missing,
    NotUtf8,
    Dir,
    BadPath,
}
const FILE_FAILS: [FK; 4] = [FK::Missing, FK::NotUtf8, FK::Dir, FK::BadPath];

#[derive(Clone, Copy, Debug)]
struct FArg {
    idx: usize,
    /// true: stored under a path of its own and registered with `Some(name)`;
    /// false: stored under `./<name>` and registered with `None` (path = name)
    named: bool,
    kind: FK,
}
fn fa(idx: usize, named: bool) -> FArg {
    FArg { idx, named, kind: FK::Good }
}
fn ff(idx: usize, named: bool, kind: FK) -> FArg {
    FArg { idx, named, kind }
}

#[derive(Clone, Debug)]
enum Call {
    Add(Vec<usize>),
    Auto(usize),
    /// add_template_files; a one-element list goes through add_template_file
    Files(Vec<FArg>),
}

/// one file of a glob directory: named like pool descriptor `idx`
#[derive(Clone, Copy, Debug)]
struct GEnt {
    idx: usize,
    /// Good / NotUtf8 / Dir (a sub-directory of that name: the walk skips it) / BadPath (the
    /// file name itself is not UTF-8)
    kind: FK,
}
fn ge(idx: usize) -> GEnt {
    GEnt { idx, kind: FK::Good }
}
fn gx(idx: usize, kind: FK) -> GEnt {
    GEnt { idx, kind }
}
const GLOB_FAILS: [FK; 2] = [FK::NotUtf8, FK::BadPath];

#[derive(Clone, Debug)]
enum GCallH {
    Plain(Call),
    /// put exactly these files into directory GDIRS[.0], then load_from_glob("<dir>/*")
    Load(usize, Vec<GEnt>),
    /// load_from_glob with a pattern without `*`
    LoadInvalid,
    /// put exactly these files into the directory of the remembered glob (if any), then full_reload
    Reload(Vec<GEnt>),
}
const GDIRS: [&str; 2] = ["ga", "gb"];

/// (file name, kind, content) of every file of a glob directory
type DirSpec = Vec<(String, String, String)>;

fn set_dir(dir: &str, spec: &DirSpec) {
    use std::os::unix::ffi::OsStringExt;
    let _ = std::fs::remove_dir_all(dir);
    std::fs::create_dir_all(dir).expect("mkdir glob dir");
    let d = std::path::Path::new(dir);
    for (name, kind, content) in spec {
        match kind.as_str() {
            "text" => std::fs::write(d.join(name), content).expect("write glob file"),
            "notutf8" => std::fs::write(d.join(name), b"[1]\xff\xfe{{ x }}").expect("write glob file"),
            "dir" => std::fs::create_dir(d.join(name)).expect("mkdir in glob dir"),
            "badpath" => {
                let mut b = name.as_bytes().to_vec();
                b.extend_from_slice(b"\xff\xfe.html");
                std::fs::write(d.join(std::ffi::OsString::from_vec(b)), content).expect("write glob file")
            }
            _ => {}
        }
    }
}

fn dirspec_json(spec: &DirSpec) -> serde_json::Value {
    json!(spec.iter().map(|(n, k, c)| json!({"name": n, "kind": k, "content": c})).collect::<Vec<_>>())
}
fn dirspec_from_json(v: &serde_json::Value) -> DirSpec {
    v.as_array()
        .map(|a| a.iter().map(|e| (e["name"].as_str().unwrap_or("").to_string(), e["kind"].as_str().unwrap_or("").to_string(), e["content"].as_str().unwrap_or("").to_string())).collect())
        .unwrap_or_default()
}

fn glob_call(tera: &mut Tera, pattern: Option<&str>) -> Result<(), String> {
    let r = std::panic::catch_unwind(std::panic::AssertUnwindSafe(|| match pattern {
        Some(p) => tera.load_from_glob(p),
        None => tera.full_reload(),
    }));
    match r {
        Ok(Ok(())) => Ok(()),
        Ok(Err(e)) => Err(err_class(&e)),
        Err(_) => Err("panic".to_string()),
    }
}

/// replays one JSON call (`add`, `add_files`, `autoescape_on`, `load_from_glob`, `full_reload`) on `tera`
fn replay_call(tera: &mut Tera, c: &serde_json::Value) -> String {
    if let Some(g) = c.get("load_from_glob") {
        if let Some(d) = g["dir"].as_str() {
            set_dir(d, &dirspec_from_json(&g["files"]));
        }
        let pat = g["pattern"].as_str().unwrap_or("");
        let r = glob_call(tera, Some(pat));
        return format!("load_from_glob({pat:?}) over {} -> {r:?}", g["files"]);
    }
    if let Some(g) = c.get("full_reload") {
        if let Some(d) = g["dir"].as_str() {
            set_dir(d, &dirspec_from_json(&g["files"]));
        }
        let r = glob_call(tera, None);
        return format!("full_reload() over {} -> {r:?}", g["files"]);
    }
    if let Some(sf) = c.get("autoescape_on") {
        let v: Vec<String> = sf.as_array().unwrap().iter().map(|x| x.as_str().unwrap().to_string()).collect();
        let d = format!("autoescape_on({v:?})");
        tera.autoescape_on(v);
        d
    } else if let Some(fs) = c.get("add_files") {
        let ents: Vec<FileEnt> = fs.as_array().unwrap().iter().map(FileEnt::from_json).collect();
        let r = add_files(tera, &ents, true);
        format!("add_files {:?} -> {r:?}", ents.iter().map(|e| (e.path.clone(), e.name.clone(), format!("{:?}", e.kind))).collect::<Vec<_>>())
    } else {
        let b: Vec<(String, String)> = c["add"].as_array().unwrap().iter().map(|p| (p[0].as_str().unwrap().to_string(), p[1].as_str().unwrap().to_string())).collect();
        let r = add_all(tera, &b);
        format!("add {b:?} -> {r:?}")
    }
}

fn observe(tera: &Tera) -> Vec<String> {
    let mut ctx = Context::new();
    ctx.insert("x", "<&>");
    let mut names: Vec<String> = tera.get_template_names().map(|s| s.to_string()).collect();
    names.sort();
    let mut out = vec![format!("names={names:?}")];
    for n in &names {
        let r = guarded(|| tera.render(n, &ctx));
        out.push(match r {
            Outcome::Ok(s) => format!("render {n} = {s}"),
            Outcome::Err(c, m) => format!("render {n} ! {c}: {m}"),
            Outcome::Panic(m) => format!("render {n} PANIC {m}"),
        });
        for b in BLOCKS {
            let r = guarded(|| tera.render_block(n, b, &ctx));
            out.push(match r {
                Outcome::Ok(s) => format!("block {n}/{b} = {s}"),
                Outcome::Err(c, m) => format!("block {n}/{b} ! {c}: {m}"),
                Outcome::Panic(m) => format!("block {n}/{b} PANIC {m}"),
            });
        }
    }
    for c in COMPS {
        out.push(format!("component {c} = {:?}", tera.get_component_definition(c)));
        let r = guarded(|| tera.render_component(c, &ctx, None, true));
        out.push(match r {
            Outcome::Ok(s) => format!("render_component {c} = {s}"),
            Outcome::Err(cl, m) => format!("render_component {c} ! {cl}: {m}"),
            Outcome::Panic(m) => format!("render_component {c} PANIC {m}"),
        });
    }
    out
}

/// Child side of `observe_in_child`: replays the calls on a new instance and prints what
/// `observe` sees as one JSON line (an abort here is seen by the parent as a signal).
fn observe_child_main() -> ! {
    use std::io::Read;
    let mut input = String::new();
    std::io::stdin().read_to_string(&mut input).expect("stdin");
    let job: serde_json::Value = serde_json::from_str(&input).expect("job");
    silence_panics();
    let mut tera = Tera::default();
    for c in job["calls"].as_array().expect("calls") {
        let _ = replay_call(&mut tera, c);
    }
    println!("{}", json!(observe(&tera)));
    std::process::exit(0);
}

/// Observation of the instance reached by `calls`, taken in a child process: used after a
/// failing add that touched existing or repeated names, where a broken rollback can leave a
/// never-validated template behind whose render does not terminate.
fn observe_in_child(calls: &[serde_json::Value]) -> Result<Vec<String>, String> {
    let (lines, bad) = run_child_with("observe-child", &json!({"calls": calls}), std::time::Duration::from_secs(30));
    if let Some(b) = bad {
        return Err(b);
    }
    let last = lines.last().ok_or_else(|| "no output".to_string())?;
    let v: serde_json::Value = serde_json::from_str(last).map_err(|e| e.to_string())?;
    Ok(v.as_array().ok_or("not an array")?.iter().map(|x| x.as_str().unwrap_or("").to_string()).collect())
}

fn sorted_names(tera: &Tera) -> Vec<String> {
    let mut names: Vec<String> = tera.get_template_names().map(|s| s.to_string()).collect();
    names.sort();
    names
}

fn first_diff(a: &[String], b: &[String]) -> String {
    for (x, y) in a.iter().zip(b.iter()) {
        if x != y {
            return format!("`{x}` vs `{y}`");
        }
    }
    format!("lengths {} vs {}", a.len(), b.len())
}

struct Run {
    sink: Sink,
    gsink: Sink,
    glob_calls_ok: usize,
    glob_calls_err: BTreeMap<String, usize>,
    reload_probes: usize,
    meta: Meta,
    pool: Vec<(String, Tpl, &'static str)>,
    srcs: Vec<String>,
    sufs: Vec<Vec<String>>,
    calls_ok: usize,
    calls_err: BTreeMap<String, usize>,
    fresh_compared: usize,
    fresh_from_files: usize,
    child_observations: usize,
    file_calls_ok: usize,
    file_calls_err: BTreeMap<String, usize>,
    file_entries_by_kind: BTreeMap<String, usize>,
}

impl Run {
    fn file_ent(&self, a: &FArg) -> FileEnt {
        let name = self.pool[a.idx].0.clone();
        let (path, nm) = if a.named { (format!("src/t{}.tpl", a.idx), Some(name)) } else { (name, None) };
        let kind = match a.kind {
            FK::Good => FileKind::Text(self.srcs[a.idx].clone()),
            FK::Missing => FileKind::Missing,
            FK::NotUtf8 => FileKind::NotUtf8,
            FK::Dir => FileKind::Dir,
            FK::BadPath => FileKind::BadPath,
        };
        FileEnt { path, name: nm, kind }
    }

    fn dirspec(&self, ents: &[GEnt]) -> DirSpec {
        // one directory entry per file name: the last description of a name wins (a file whose
        // NAME is not UTF-8 is a different directory entry)
        let last: Vec<&GEnt> = ents
            .iter()
            .enumerate()
            .filter(|(k, e)| e.kind == FK::BadPath || !ents[k + 1..].iter().any(|l| l.kind != FK::BadPath && self.pool[l.idx].0 == self.pool[e.idx].0))
            .map(|(_, e)| e)
            .collect();
        last.into_iter()
            .map(|e| {
                let kind = match e.kind {
                    FK::Good => "text",
                    FK::NotUtf8 => "notutf8",
                    FK::Dir => "dir",
                    FK::BadPath => "badpath",
                    FK::Missing => "missing",
                };
                (self.pool[e.idx].0.clone(), kind.to_string(), self.srcs[e.idx].clone())
            })
            .collect()
    }

    /// What the engine's own walk finds in `dir` now, as `hglob` term + the (name, content)
    /// pairs a successful load registers + whether an unreadable entry is among them.
    fn walk_term(&self, dir: &str, ents: &[GEnt], used: &mut Vec<usize>) -> (String, Vec<(String, String)>, bool) {
        let found = tera::load_from_glob(&format!("{dir}/*")).expect("walk");
        let mut terms = vec![];
        let mut reg = vec![];
        let mut bad = false;
        for (path, name) in found {
            let label = format!("{dir}/{name}");
            let nm = format!("(Some {})", gal_name(&name));
            if path.to_str().is_none() {
                bad = true;
                terms.push(format!("{{| hf_path := {}; hf_src := HFBadPath; hf_name := {nm} |}}", gal_name(&label)));
                continue;
            }
            // the last entry of that name wins in set_dir (same file written again)
            let e = ents.iter().rev().find(|e| self.pool[e.idx].0 == name && matches!(e.kind, FK::Good | FK::NotUtf8)).expect("walk found a file the harness did not write");
            match e.kind {
                FK::Good => {
                    if !used.contains(&e.idx) {
                        used.push(e.idx);
                    }
                    let pos = used.iter().position(|u| *u == e.idx).unwrap();
                    terms.push(format!("{{| hf_path := {}; hf_src := HFPool {pos}%nat; hf_name := {nm} |}}", gal_name(&label)));
                    reg.push((name.clone(), self.srcs[e.idx].clone()));
                }
                _ => {
                    bad = true;
                    terms.push(format!("{{| hf_path := {}; hf_src := HFNoRead; hf_name := {nm} |}}", gal_name(&label)));
                }
            }
        }
        (format!("(HGFiles [{}])", terms.join("; ")), reg, bad)
    }

    /// Like `history`, over all call kinds including load_from_glob / full_reload (family
    /// `globhistory`). Extra oracle after a failing call: a clone taken before the call and a clone
    /// taken after it must behave alike under full_reload (remembered glob and from_glob marks
    /// are observable only that way).
    fn ghistory(&mut self, rng: &mut Rng, calls: &[GCallH], tag: &str) {
        let mut tera = Tera::default();
        let mut cur_sufs = 0usize;
        let mut set: BTreeMap<String, String> = BTreeMap::new();
        let mut globbed: std::collections::BTreeSet<String> = Default::default();
        let mut cur_glob: Option<usize> = None;
        let mut results: Vec<String> = vec![];
        let mut jcalls: Vec<serde_json::Value> = vec![];
        let mut gcalls: Vec<String> = vec![];
        let mut used: Vec<usize> = vec![];
        let mut prev_obs = observe(&tera);
        let (mut any_err, mut any_ok, mut glob_ok, mut glob_err) = (false, false, false, false);
        for (ci, c) in calls.iter().enumerate() {
            let before = tera.clone();
            let mut registering = true;
            // (result, templates a success registers, keys a success un-marks / marks)
            let r: Result<(), String>;
            let mut registers: Vec<(String, String)> = vec![];
            let mut is_glob = false;
            let mut accepted_bad = false;
            match c {
                GCallH::Plain(Call::Auto(k)) => {
                    registering = false;
                    cur_sufs = *k;
                    tera.autoescape_on(self.sufs[*k].clone());
                    r = Ok(());
                    jcalls.push(json!({"autoescape_on": self.sufs[*k]}));
                    gcalls.push(format!("HG (HAuto {})", gal_names(&self.sufs[*k])));
                }
                GCallH::Plain(Call::Add(idx)) => {
                    let batch: Vec<(String, String)> = idx.iter().map(|i| (self.pool[*i].0.clone(), self.srcs[*i].clone())).collect();
                    r = add_all(&mut tera, &batch);
                    jcalls.push(json!({"add": batch.iter().map(|(n, s)| json!([n, s])).collect::<Vec<_>>(),
                        "impl": match &r { Ok(()) => json!("ok"), Err(c) => json!({"err": c}) }}));
                    let mut ps = vec![];
                    for i in idx {
                        if !used.contains(i) {
                            used.push(*i);
                        }
                        ps.push(used.iter().position(|u| u == i).unwrap().to_string());
                    }
                    gcalls.push(format!("HG (HAdd [{}]%nat)", ps.join(";")));
                    registers = batch;
                }
                GCallH::Plain(Call::Files(fargs)) => {
                    let ents: Vec<FileEnt> = fargs.iter().map(|a| self.file_ent(a)).collect();
                    r = add_files(&mut tera, &ents, true);
                    jcalls.push(json!({"add_files": ents.iter().map(|e| e.json()).collect::<Vec<_>>(),
                        "impl": match &r { Ok(()) => json!("ok"), Err(c) => json!({"err": c}) }}));
                    let mut ts = vec![];
                    for (a, e) in fargs.iter().zip(ents.iter()) {
                        let pos = if a.kind == FK::Good {
                            if !used.contains(&a.idx) {
                                used.push(a.idx);
                            }
                            used.iter().position(|u| *u == a.idx)
                        } else {
                            None
                        };
                        ts.push(gal_hfile(e, pos));
                        match &e.kind {
                            FileKind::Text(c) => registers.push((e.key().to_string(), c.clone())),
                            _ => accepted_bad = true,
                        }
                    }
                    gcalls.push(format!("HG (HAddFiles [{}])", ts.join("; ")));
                }
                GCallH::Load(d, ents) => {
                    is_glob = true;
                    let dir = GDIRS[*d];
                    let spec = self.dirspec(ents);
                    set_dir(dir, &spec);
                    let (term, reg, bad) = self.walk_term(dir, ents, &mut used);
                    let pat = format!("{dir}/*");
                    r = glob_call(&mut tera, Some(&pat));
                    jcalls.push(json!({"load_from_glob": {"dir": dir, "pattern": pat, "files": dirspec_json(&spec)},
                        "impl": match &r { Ok(()) => json!("ok"), Err(c) => json!({"err": c}) }}));
                    gcalls.push(format!("HGLoad {} {term}", gal_name(&pat)));
                    registers = reg;
                    accepted_bad = bad;
                    if r.is_ok() {
                        cur_glob = Some(*d);
                    }
                }
                GCallH::LoadInvalid => {
                    is_glob = true;
                    let pat = "ga/nostar.html";
                    r = glob_call(&mut tera, Some(pat));
                    jcalls.push(json!({"load_from_glob": {"pattern": pat, "files": []},
                        "impl": match &r { Ok(()) => json!("ok"), Err(c) => json!({"err": c}) }}));
                    gcalls.push(format!("HGLoad {} HGInvalid", gal_name(pat)));
                    accepted_bad = true;
                }
                GCallH::Reload(ents) => {
                    is_glob = true;
                    let spec = self.dirspec(ents);
                    let mut term = "HGInvalid".to_string();
                    if let Some(d) = cur_glob {
                        set_dir(GDIRS[d], &spec);
                        let (t, reg, bad) = self.walk_term(GDIRS[d], ents, &mut used);
                        term = t;
                        registers = reg;
                        accepted_bad = bad;
                    } else {
                        accepted_bad = true;
                    }
                    r = glob_call(&mut tera, None);
                    jcalls.push(json!({"full_reload": {"dir": cur_glob.map(|d| GDIRS[d]), "files": dirspec_json(&spec)},
                        "impl": match &r { Ok(()) => json!("ok"), Err(c) => json!({"err": c}) }}));
                    gcalls.push(format!("HGReload {term}"));
                }
            }
            match &r {
                Ok(()) => {
                    results.push("(Ok tt)".into());
                    if registering {
                        any_ok = true;
                        if accepted_bad {
                            self.meta.oracle_fail(&format!("call {ci} was ACCEPTED although an entry could not be read / the glob is invalid / no glob is remembered"), None, json!({"calls": jcalls}));
                        }
                        if is_glob {
                            glob_ok = true;
                            self.glob_calls_ok += 1;
                            for n in &globbed {
                                set.remove(n);
                            }
                            globbed.clear();
                        }
                        for (n, s) in &registers {
                            set.insert(n.clone(), s.clone());
                            if is_glob {
                                globbed.insert(n.clone());
                            } else {
                                globbed.remove(n);
                            }
                        }
                    }
                }
                Err(cl) => {
                    any_err = true;
                    if is_glob {
                        glob_err = true;
                        *self.glob_calls_err.entry(cl.clone()).or_default() += 1;
                    }
                    results.push(format!("(Err {})", gal_ekind(cl)));
                    if cl == "panic" {
                        self.meta.oracle_fail(&format!("call {ci} panicked"), None, json!({"calls": jcalls}));
                    }
                }
            }
            // ---- oracle: the property itself
            let failed = r.is_err();
            self.meta.oracle_checks += 1;
            let obs = if failed && !set.is_empty() {
                self.child_observations += 1;
                match observe_in_child(&jcalls) {
                    Ok(o) => o,
                    Err(how) => {
                        self.meta.oracle_fail(&format!("after the FAILING call {ci} rendering the instance did not end ({how})"), None, json!({"calls": jcalls}));
                        return;
                    }
                }
            } else {
                observe(&tera)
            };
            if failed && obs != prev_obs {
                self.meta.oracle_fail(&format!("a FAILING call changed observable behaviour at call {ci}: {}", first_diff(&prev_obs, &obs)), None, json!({"calls": jcalls}));
                return;
            }
            if failed && (is_glob || cur_glob.is_some()) {
                // remembered glob and from_glob marks: both clones reload the same directory now
                self.reload_probes += 1;
                self.meta.oracle_checks += 1;
                let mut p0 = before;
                let mut p1 = tera.clone();
                let r0 = glob_call(&mut p0, None);
                let r1 = glob_call(&mut p1, None);
                let (o0, o1) = (observe(&p0), observe(&p1));
                if r0 != r1 || o0 != o1 {
                    self.meta.oracle_fail(
                        &format!("after the FAILING call {ci} full_reload() behaves differently from full_reload() on a copy taken before the call ({r0:?} vs {r1:?}; {}): the remembered glob or the from_glob marks were not restored", first_diff(&o0, &o1)),
                        None,
                        json!({"calls": jcalls}),
                    );
                    return;
                }
            }
            // fresh instances given the resulting set: one sorted raw batch; one glob load of a
            // directory holding exactly the set
            // (after a failing call the observation equals the previous one, which was compared)
            let sorted: Vec<(String, String)> = set.iter().map(|(n, s)| (n.clone(), s.clone())).collect();
            for which in ["sorted batch", "glob load"] {
                if failed {
                    break;
                }
                let mut fresh = Tera::default();
                fresh.autoescape_on(self.sufs[cur_sufs].clone());
                self.meta.oracle_checks += 1;
                self.fresh_compared += 1;
                let fr = if which == "glob load" {
                    let spec: DirSpec = sorted.iter().map(|(n, s)| (n.clone(), "text".to_string(), s.clone())).collect();
                    set_dir("gfresh", &spec);
                    glob_call(&mut fresh, Some("gfresh/*"))
                } else {
                    add_all(&mut fresh, &sorted)
                };
                match fr {
                    Err(cl) => self.meta.oracle_fail(
                        &format!("a fresh instance REJECTS ({cl}) the set the long-lived instance holds after call {ci} ({which})"),
                        None,
                        json!({"calls": jcalls, "set": sorted.iter().map(|(n, s)| json!([n, s])).collect::<Vec<_>>()}),
                    ),
                    Ok(()) => {
                        let fo = observe(&fresh);
                        if fo != obs {
                            self.meta.oracle_fail(
                                &format!("after call {ci} the instance differs from a fresh one given the same set ({which}): {}", first_diff(&obs, &fo)),
                                None,
                                json!({"calls": jcalls, "set": sorted.iter().map(|(n, s)| json!([n, s])).collect::<Vec<_>>()}),
                            );
                        }
                    }
                }
            }
            prev_obs = obs;
        }
        let _ = rng;
        let pool_g: Vec<String> = used.iter().map(|i| format!("({}, {})", gal_name(&self.pool[*i].0), gal_source(&self.pool[*i].1))).collect();
        let known: Vec<String> = KNOWN.iter().map(|s| s.to_string()).collect();
        let g = format!(
            "{{| gh_pre := []; gh_known := {}; gh_sufs := {}; gh_pool := [{}]; gh_calls := [{}]; gh_impl := [{}] |}}",
            gal_names(&known),
            gal_names(&self.sufs[0]),
            pool_g.join("; "),
            gcalls.join("; "),
            results.join("; ")
        );
        let kinds: Vec<&str> = used.iter().map(|i| self.pool[*i].2).collect();
        let desc = json!({"calls": jcalls, "pool_kinds": kinds});
        let t2 = if any_err && any_ok { "mixed ok/err" } else if any_err { "only err" } else { "only ok" };
        let t3 = match (glob_ok, glob_err) {
            (true, true) => "glob calls: ok and err",
            (true, false) => "glob calls: ok only",
            (false, true) => "glob calls: err only",
            _ => "no glob call",
        };
        self.gsink.push(g, desc, calls.len() >= 2 && glob_ok && any_err, None, &[tag, t2, t3]);
    }

    fn history(&mut self, rng: &mut Rng, calls: &[Call], tag: &str) {
        let mut tera = Tera::default();
        let mut cur_sufs = 0usize;
        let mut set: BTreeMap<String, String> = BTreeMap::new();
        let mut results: Vec<String> = vec![];
        let mut jcalls = vec![];
        let mut prev_obs = observe(&tera);
        let mut any_err = false;
        let mut any_ok = false;
        let mut has_files = false;
        let mut prev_names = sorted_names(&tera);
        for (ci, c) in calls.iter().enumerate() {
            let mut touches_existing = false;
            match c {
                Call::Auto(k) => {
                    cur_sufs = *k;
                    tera.autoescape_on(self.sufs[*k].clone());
                    results.push("(Ok tt)".into());
                    jcalls.push(json!({"autoescape_on": self.sufs[*k]}));
                }
                Call::Add(idx) => {
                    let batch: Vec<(String, String)> = idx.iter().map(|i| (self.pool[*i].0.clone(), self.srcs[*i].clone())).collect();
                    touches_existing = batch.iter().enumerate().any(|(k, (n, _))| set.contains_key(n) || batch[..k].iter().any(|(m, _)| m == n));
                    let r = add_all(&mut tera, &batch);
                    jcalls.push(json!({"add": batch.iter().map(|(n, s)| json!([n, s])).collect::<Vec<_>>(),
                        "impl": match &r { Ok(()) => json!("ok"), Err(c) => json!({"err": c}) }}));
                    match &r {
                        Ok(()) => {
                            any_ok = true;
                            self.calls_ok += 1;
                            results.push("(Ok tt)".into());
                            for (n, s) in &batch {
                                set.insert(n.clone(), s.clone());
                            }
                        }
                        Err(cl) => {
                            any_err = true;
                            *self.calls_err.entry(cl.clone()).or_default() += 1;
                            results.push(format!("(Err {})", gal_ekind(cl)));
                        }
                    }
                    if let Err(cl) = &r {
                        if cl == "panic" {
                            self.meta.oracle_fail("add_raw_templates panicked", None, json!({"calls": jcalls}));
                        }
                    }
                }
                Call::Files(fargs) => {
                    has_files = true;
                    let ents: Vec<FileEnt> = fargs.iter().map(|a| self.file_ent(a)).collect();
                    touches_existing = ents.iter().enumerate().any(|(k, e)| set.contains_key(e.key()) || ents[..k].iter().any(|m| m.key() == e.key()));
                    for a in fargs {
                        *self.file_entries_by_kind.entry(format!("{:?}{}", a.kind, if a.named { "/named" } else { "/path-as-name" })).or_default() += 1;
                    }
                    let r = add_files(&mut tera, &ents, true);
                    jcalls.push(json!({"add_files": ents.iter().map(|e| e.json()).collect::<Vec<_>>(),
                        "impl": match &r { Ok(()) => json!("ok"), Err(c) => json!({"err": c}) }}));
                    match &r {
                        Ok(()) => {
                            any_ok = true;
                            self.file_calls_ok += 1;
                            results.push("(Ok tt)".into());
                            for e in &ents {
                                match &e.kind {
                                    FileKind::Text(c) => {
                                        set.insert(e.key().to_string(), c.clone());
                                    }
                                    k => self.meta.oracle_fail(
                                        &format!("add_template_files ACCEPTED a batch with an unreadable entry ({k:?}) at call {ci}"),
                                        None,
                                        json!({"calls": jcalls}),
                                    ),
                                }
                            }
                        }
                        Err(cl) => {
                            any_err = true;
                            *self.file_calls_err.entry(cl.clone()).or_default() += 1;
                            results.push(format!("(Err {})", gal_ekind(cl)));
                            if cl == "panic" {
                                self.meta.oracle_fail("add_template_files panicked", None, json!({"calls": jcalls}));
                            }
                        }
                    }
                }
            }
            // ---- oracle: the property itself
            let failed_add = matches!(c, Call::Add(_) | Call::Files(_)) && results.last().map_or(false, |r| r.starts_with("(Err"));
            self.meta.oracle_checks += 1;
            let names_now = sorted_names(&tera);
            if failed_add && names_now != prev_names {
                // nothing is rendered on this instance any more: what is left may never have been validated
                self.meta.oracle_fail(
                    &format!("a FAILING add changed the set of template names at call {ci}: {prev_names:?} -> {names_now:?}"),
                    None,
                    json!({"calls": jcalls}),
                );
                return;
            }
            let obs = if failed_add && touches_existing {
                // a broken rollback could have left a never-validated template under an old name
                self.child_observations += 1;
                match observe_in_child(&jcalls) {
                    Ok(o) => o,
                    Err(how) => {
                        self.meta.oracle_fail(
                            &format!("after the FAILING add at call {ci} rendering the instance did not end ({how}): the rollback left something that was never validated"),
                            None,
                            json!({"calls": jcalls}),
                        );
                        return;
                    }
                }
            } else {
                observe(&tera)
            };
            prev_names = names_now;
            if failed_add && obs != prev_obs {
                self.meta.oracle_fail(
                    &format!("a FAILING add changed observable behaviour at call {ci}: {}", first_diff(&prev_obs, &obs)),
                    None,
                    json!({"calls": jcalls}),
                );
                // the instance holds something that was not validated: stop using it
                return;
            }
            // fresh instances given the resulting set in one batch: sorted order and shuffled
            let sorted: Vec<(String, String)> = set.iter().map(|(n, s)| (n.clone(), s.clone())).collect();
            let mut shuffled = sorted.clone();
            for i in (1..shuffled.len()).rev() {
                let j = rng.below(i + 1);
                shuffled.swap(i, j);
            }
            for (which, batch) in [("sorted", &sorted), ("shuffled", &shuffled)] {
                let mut fresh = Tera::default();
                fresh.autoescape_on(self.sufs[cur_sufs].clone());
                self.meta.oracle_checks += 1;
                self.fresh_compared += 1;
                // in a history with file calls the shuffled fresh instance is filled from files
                let via_files = has_files && which == "shuffled";
                let r = if via_files {
                    self.fresh_from_files += 1;
                    let ents: Vec<FileEnt> = batch
                        .iter()
                        .enumerate()
                        .map(|(k, (n, src))| {
                            if rng.chance(1, 2) {
                                FileEnt { path: format!("fresh/f{k}.tpl"), name: Some(n.clone()), kind: FileKind::Text(src.clone()) }
                            } else {
                                FileEnt { path: n.clone(), name: None, kind: FileKind::Text(src.clone()) }
                            }
                        })
                        .collect();
                    add_files(&mut fresh, &ents, false)
                } else {
                    add_all(&mut fresh, batch)
                };
                let which = if via_files { "shuffled, from files" } else { which };
                match r {
                    Err(cl) => self.meta.oracle_fail(
                        &format!("a fresh instance REJECTS ({cl}) the set the long-lived instance holds after call {ci} ({which} batch)"),
                        None,
                        json!({"calls": jcalls, "set": batch.iter().map(|(n, s)| json!([n, s])).collect::<Vec<_>>()}),
                    ),
                    Ok(()) => {
                        let fo = observe(&fresh);
                        if fo != obs {
                            self.meta.oracle_fail(
                                &format!("after call {ci} the instance differs from a fresh one given the same set ({which} batch): {}", first_diff(&obs, &fo)),
                                None,
                                json!({"calls": jcalls, "set": batch.iter().map(|(n, s)| json!([n, s])).collect::<Vec<_>>()}),
                            );
                        }
                    }
                }
            }
            prev_obs = obs;
        }
        // ---- Gallina case: pool restricted to the descriptors this history uses
        let mut used: Vec<usize> = vec![];
        for c in calls {
            match c {
                Call::Add(idx) => {
                    for i in idx {
                        if !used.contains(i) {
                            used.push(*i);
                        }
                    }
                }
                Call::Files(fargs) => {
                    for a in fargs {
                        if a.kind == FK::Good && !used.contains(&a.idx) {
                            used.push(a.idx);
                        }
                    }
                }
                Call::Auto(_) => {}
            }
        }
        let pos = |i: usize| used.iter().position(|u| *u == i).unwrap();
        let pool_g: Vec<String> = used.iter().map(|i| format!("({}, {})", gal_name(&self.pool[*i].0), gal_source(&self.pool[*i].1))).collect();
        let calls_g: Vec<String> = calls
            .iter()
            .map(|c| match c {
                Call::Add(idx) => format!("HAdd [{}]%nat", idx.iter().map(|i| pos(*i).to_string()).collect::<Vec<_>>().join(";")),
                Call::Auto(k) => format!("HAuto {}", gal_names(&self.sufs[*k])),
                Call::Files(fargs) => format!(
                    "HAddFiles [{}]",
                    fargs.iter().map(|a| gal_hfile(&self.file_ent(a), if a.kind == FK::Good { Some(pos(a.idx)) } else { None })).collect::<Vec<_>>().join("; ")
                ),
            })
            .collect();
        let known: Vec<String> = KNOWN.iter().map(|s| s.to_string()).collect();
        let g = format!(
            "{{| h_pre := []; h_known := {}; h_sufs := {}; h_pool := [{}]; h_calls := [{}]; h_impl := [{}] |}}",
            gal_names(&known),
            gal_names(&self.sufs[0]),
            pool_g.join("; "),
            calls_g.join("; "),
            results.join("; ")
        );
        let kinds: Vec<&str> = used.iter().map(|i| self.pool[*i].2).collect();
        let desc = json!({"calls": jcalls, "pool_kinds": kinds});
        let t2 = if any_err && any_ok { "mixed ok/err" } else if any_err { "only err" } else { "only ok" };
        let t3 = if has_files { "with file calls" } else { "raw calls only" };
        self.sink.push(g, desc, calls.len() >= 2 && any_err && any_ok, None, &[tag, t2, t3]);
    }
}

/// Histories on instances configured with fallback prefixes (implementation-side oracle only; the
/// model's histories use the fixed configuration `env`): a small pool in which the same short name
/// exists under the exact name and under one or two prefixes, some with byte-identical sources, as
/// plain templates, parents, include targets and component providers. After every successful call
/// the instance must behave like a fresh instance given the resulting (name, source) set in one
/// batch; after every failing call like before the call.
fn prefix_histories(meta: &mut Meta, rng: &mut Rng, thorough: bool) {
    let prefixes: Vec<String> = vec!["p/".to_string(), "q/".to_string()];
    let v1 = "v1 {% block y %}one{% endblock %}";
    let v2 = "v2 {% block y %}two{% endblock %}";
    let pool: Vec<(&str, &str)> = vec![
        ("base", v1), ("p/base", v1), ("q/base", v1), ("p/base", v2), ("base", v2), ("q/base", v2),
        ("page", "{% extends \"base\" %}{% block y %}pg {{ super() }}{% endblock %}"),
        ("p/page", "{% extends \"base\" %}{% block y %}ppg {{ super() }}{% endblock %}"),
        ("inc", "[{% include \"base\" %}]"),
        ("lib", "{% component c(x) %}L{{ x }}{% endcomponent c %}"),
        ("p/lib", "{% component c(x) %}L{{ x }}{% endcomponent c %}"),
        ("q/lib", "{% component c(x) %}Q{{ x }}{% endcomponent c %}"),
        ("use", "{{ <c x={1}/> }}"),
        ("bad", "{{ 1 | nosuchfilter }}"),
        ("orphan", "{% extends \"nowhere\" %}"),
    ];
    let build = |set: &std::collections::BTreeMap<String, String>, shuffled: bool, rng: &mut Rng| -> Option<Vec<String>> {
        let mut t = Tera::default();
        t.set_fallback_prefixes(prefixes.clone()).ok()?;
        let mut items: Vec<(String, String)> = set.iter().map(|(a, b)| (a.clone(), b.clone())).collect();
        if shuffled {
            for i in (1..items.len()).rev() { let j = rng.below(i + 1); items.swap(i, j); }
        }
        match guarded(|| t.add_raw_templates(items.clone())) { Outcome::Ok(()) => Some(observe(&t)), _ => None }
    };
    let n_hist = if thorough { 4000 } else { 500 };
    for h in 0..n_hist {
        let mut t = Tera::default();
        t.set_fallback_prefixes(prefixes.clone()).expect("prefixes");
        let mut set: std::collections::BTreeMap<String, String> = Default::default();
        let len = 2 + rng.below(5);
        let mut calls: Vec<Vec<(String, String)>> = Vec::new();
        for _ in 0..len {
            let k = 1 + rng.below(if h % 3 == 0 { 1 } else { 3 });
            let batch: Vec<(String, String)> = (0..k).map(|_| { let (n, s) = pool[rng.below(pool.len())]; (n.to_string(), s.to_string()) }).collect();
            calls.push(batch.clone());
            let before = observe(&t);
            let r = guarded(|| t.add_raw_templates(batch.clone()));
            meta.oracle_checks += 1;
            let input = || json!({"prefixes": prefixes, "calls": calls});
            match r {
                Outcome::Ok(()) => {
                    for (n, s) in &batch { set.insert(n.clone(), s.clone()); }
                    let now = observe(&t);
                    for shuffled in [false, true] {
                        match build(&set, shuffled, rng) {
                            Some(fresh) if fresh == now => {}
                            Some(fresh) => { meta.oracle_fail("with fallback prefixes: after a successful add the instance differs from a fresh instance given the resulting set in one batch", None,
                                json!({"history": input(), "first_difference": first_diff(&now, &fresh)})); return; }
                            None => { meta.oracle_fail("with fallback prefixes: a set reached by successful adds is rejected by a fresh instance", None, json!({"history": input()})); return; }
                        }
                    }
                }
                Outcome::Err(..) => {
                    let now = observe(&t);
                    if now != before {
                        meta.oracle_fail("with fallback prefixes: a failing add changed the instance", None, json!({"history": input(), "first_difference": first_diff(&before, &now)}));
                        return;
                    }
                }
                Outcome::Panic(m) => { meta.oracle_fail(&format!("panic in add_raw_templates: {m}"), None, json!({"history": input()})); return; }
            }
        }
    }
}

fn main() {
    if std::env::args().nth(1).as_deref() == Some("observe-child") {
        observe_child_main();
    }
    let mut args = parse_args();
    silence_panics();
    // file calls use relative paths (a template registered without a name is named by its path):
    // work inside `<out>/files`; everything else gets absolute paths first
    let replay_text = args.replay.as_ref().map(|p| std::fs::read_to_string(p).expect("replay"));
    if args.replay.is_some() {
        args.out = std::env::temp_dir().join(format!("c10-replay-{}", std::process::id()));
    }
    std::fs::create_dir_all(&args.out).expect("mkdir out");
    args.out = std::fs::canonicalize(&args.out).expect("canonicalize out");
    let workdir = args.out.join("files");
    let _ = std::fs::remove_dir_all(&workdir);
    std::fs::create_dir_all(&workdir).expect("mkdir files");
    std::env::set_current_dir(&workdir).expect("chdir");
    let mut rng = Rng::new(args.seed);
    let thorough = args.tier == "thorough";
    let pool = pool();
    let srcs: Vec<String> = pool.iter().map(|(_, t, _)| source_of(t)).collect();
    let hdr = "From TeraV Require Import Model.Value Model.Registry Corr.CorrC11 Corr.CorrC10.";
    let mut run = Run {
        sink: Sink::new(&args.out, "history", hdr, "check_history"),
        gsink: Sink::new(&args.out, "globhistory", hdr, "check_ghistory"),
        glob_calls_ok: 0,
        glob_calls_err: BTreeMap::new(),
        reload_probes: 0,
        meta: Meta::default(),
        pool,
        srcs,
        sufs: suffix_sets(),
        calls_ok: 0,
        calls_err: BTreeMap::new(),
        fresh_compared: 0,
        fresh_from_files: 0,
        child_observations: 0,
        file_calls_ok: 0,
        file_calls_err: BTreeMap::new(),
        file_entries_by_kind: BTreeMap::new(),
    };
    if let Some(text) = &replay_text {
        let r: serde_json::Value = serde_json::from_str(text).expect("json");
        let case = if r.get("case").is_some() { &r["case"] } else if r.get("input").is_some() { &r["input"] } else { &r };
        let mut tera = Tera::default();
        for c in case["calls"].as_array().expect("calls") {
            println!("{}", replay_call(&mut tera, c));
            for l in observe(&tera) {
                println!("    {l}");
            }
        }
        let _ = std::env::set_current_dir("/");
        let _ = std::fs::remove_dir_all(&args.out);
        return;
    }
    let n = run.pool.len();

    // --- corpus: the two histories the existing tests pin, and replacement of a dependency
    run.history(&mut rng, &[Call::Add(vec![0]), Call::Add(vec![2]), Call::Add(vec![8]), Call::Add(vec![1])], "corpus");
    run.history(&mut rng, &[Call::Add(vec![6, 5, 4]), Call::Add(vec![21]), Call::Add(vec![24]), Call::Add(vec![7])], "corpus");
    run.history(&mut rng, &[Call::Add(vec![0, 2]), Call::Auto(1), Call::Add(vec![19]), Call::Add(vec![3]), Call::Auto(0)], "corpus");
    run.history(&mut rng, &[Call::Add(vec![4, 5, 6]), Call::Add(vec![20]), Call::Add(vec![0, 0, 1, 8]), Call::Add(vec![1, 0])], "corpus");

    // --- exhaustive: every history of <= 2 (thorough: <= 3) single-template calls over the pool
    let mut exhaustive = 0usize;
    for a in 0..n {
        run.history(&mut rng, &[Call::Add(vec![a])], "exh1");
        exhaustive += 1;
        for b in 0..n {
            run.history(&mut rng, &[Call::Add(vec![a]), Call::Add(vec![b])], "exh2");
            exhaustive += 1;
            if thorough {
                for c in 0..n {
                    if !rng.chance(1, 2) {
                        continue;
                    }
                    run.history(&mut rng, &[Call::Add(vec![a]), Call::Add(vec![b]), Call::Add(vec![c])], "exh3");
                    exhaustive += 1;
                }
            }
        }
    }
    // every two-template batch, alone and after one call
    for a in 0..n {
        for b in 0..n {
            run.history(&mut rng, &[Call::Add(vec![a, b])], "batch2");
        }
    }

    // --- replacements on top of an accepted core with descendants at distance 1 and 2
    // (root, child, grandchild, partial, page, component provider): every pool descriptor as
    // one replacement, and every pair of the same-name variants as two successive replacements
    let core = vec![0usize, 2, 27, 4, 5, 6, 30, 34];
    for r in 0..n {
        run.history(&mut rng, &[Call::Add(core.clone()), Call::Add(vec![r])], "replace1");
        run.history(&mut rng, &[Call::Add(vec![0]), Call::Add(vec![2]), Call::Add(vec![27]), Call::Add(vec![r])], "replace1");
    }
    let variants = [0usize, 1, 25, 28, 2, 26, 27, 29, 19, 3, 31, 32, 33];
    for a in variants {
        for b in variants {
            run.history(&mut rng, &[Call::Add(core.clone()), Call::Add(vec![a]), Call::Add(vec![b])], "replace2");
            // a failing batch that repeats a name: the undo list must be replayed in reverse
            run.history(&mut rng, &[Call::Add(core.clone()), Call::Add(vec![a, b, 8])], "rollback");
            run.history(&mut rng, &[Call::Add(vec![4, 5, 6]), Call::Add(vec![20, 4, 8]), Call::Add(vec![a, b, 9])], "rollback");
        }
    }

    // ================= registration from files (add_template_file / add_template_files)
    // --- corpus: explicit name and path-as-name; every file-only failure kind first, in the
    // middle and last in a batch that replaces existing templates; the same key twice
    run.history(&mut rng, &[Call::Files(vec![fa(0, true)]), Call::Files(vec![fa(2, false)]), Call::Files(vec![fa(8, true)]), Call::Files(vec![fa(1, false)])], "files-corpus");
    run.history(&mut rng, &[Call::Files(vec![fa(6, false), fa(5, true), fa(4, false)]), Call::Add(vec![21]), Call::Files(vec![fa(24, true)]), Call::Files(vec![fa(7, false)])], "files-corpus");
    run.history(&mut rng, &[Call::Files(vec![fa(0, true), fa(2, true)]), Call::Auto(1), Call::Files(vec![fa(19, false)]), Call::Files(vec![fa(3, true)]), Call::Auto(0)], "files-corpus");
    run.history(&mut rng, &[Call::Add(vec![4, 5, 6]), Call::Files(vec![fa(20, true)]), Call::Files(vec![fa(0, false), fa(0, true), fa(1, false), fa(8, true)]), Call::Files(vec![fa(1, true), fa(0, false)])], "files-corpus");
    for kind in FILE_FAILS {
        for named in [true, false] {
            run.history(&mut rng, &[Call::Files(vec![ff(0, named, kind)])], "files-corpus");
            run.history(&mut rng, &[Call::Files(vec![fa(0, true), fa(2, false)]), Call::Files(vec![ff(0, named, kind), fa(1, true), fa(26, false)])], "files-corpus");
            run.history(&mut rng, &[Call::Files(vec![fa(0, true), fa(2, false)]), Call::Files(vec![fa(1, true), ff(2, named, kind), fa(26, false)])], "files-corpus");
            run.history(&mut rng, &[Call::Files(vec![fa(0, true), fa(2, false)]), Call::Files(vec![fa(1, false), fa(26, true), ff(27, named, kind)]), Call::Files(vec![fa(1, false), fa(26, true), fa(27, named)])], "files-corpus");
        }
    }
    // --- every pool descriptor as a single file, both ways of naming it
    // (quick: one naming each, alternating; thorough: both)
    for a in 0..n {
        if thorough || a % 2 == 0 {
            run.history(&mut rng, &[Call::Files(vec![fa(a, true)])], "files1");
        }
        if thorough || a % 2 == 1 {
            run.history(&mut rng, &[Call::Files(vec![fa(a, false)])], "files1");
        }
    }
    // --- every two-call history and every two-file batch over the pool with at least one file
    // call (quick: every 61st pair, so that the quick tier keeps its number of Coq shards;
    // thorough: every pair, alternating between the two shapes)
    let mut pair_no = 0usize;
    for a in 0..n {
        for b in 0..n {
            pair_no += 1;
            if (thorough && pair_no % 2 == 0) || pair_no % 61 == 7 {
                let (na, nb) = (rng.chance(1, 2), rng.chance(1, 2));
                let calls = match rng.below(3) {
                    0 => vec![Call::Add(vec![a]), Call::Files(vec![fa(b, nb)])],
                    1 => vec![Call::Files(vec![fa(a, na)]), Call::Add(vec![b])],
                    _ => vec![Call::Files(vec![fa(a, na)]), Call::Files(vec![fa(b, nb)])],
                };
                run.history(&mut rng, &calls, "files2");
            }
            if (thorough && pair_no % 2 == 1) || pair_no % 61 == 38 {
                let (na, nb) = (rng.chance(1, 2), rng.chance(1, 2));
                run.history(&mut rng, &[Call::Files(vec![fa(a, na), fa(b, nb)])], "filebatch2");
            }
        }
    }
    // --- rollback of a file batch on top of an accepted core: two same-name variants (the
    // undo list must be replayed in reverse), then an entry that fails -- a file-only failure
    // kind, a syntax error, or a template that does not finalize; and the failing entry in the
    // middle with good files after it (they must never be looked at)
    let core_files: Vec<FArg> = core.iter().enumerate().map(|(k, i)| fa(*i, k % 2 == 0)).collect();
    let mut vk = 0usize;
    for a in variants {
        for b in variants {
            vk += 1;
            if !thorough && vk % 13 != 0 {
                continue;
            }
            let (na, nb) = (rng.chance(1, 2), rng.chance(1, 2));
            let fail = match vk % 7 {
                0 => fa(8, nb),  // syntax error
                1 => fa(9, na),  // missing parent
                2 => fa(22, nb), // extends itself
                k => ff(b, na, FILE_FAILS[k - 3]),
            };
            run.history(&mut rng, &[Call::Files(core_files.clone()), Call::Files(vec![fa(a, na), fa(b, nb), fail])], "files-rollback");
            run.history(&mut rng, &[Call::Add(core.clone()), Call::Files(vec![fa(a, na), fail, fa(b, nb)]), Call::Files(vec![fa(a, nb), fa(b, na)])], "files-rollback");
        }
    }
    // --- random histories mixing all call kinds
    let kf = if thorough { 1000 } else { 25 };
    let good_f = [0usize, 1, 2, 4, 5, 6, 24, 25, 26, 27, 28, 29, 30, 31, 32, 34];
    for _ in 0..kf {
        let len = 2 + rng.below(9);
        let mut calls = vec![];
        for _ in 0..len {
            if rng.chance(1, 7) {
                calls.push(Call::Auto(rng.below(4)));
                continue;
            }
            let bl = 1 + rng.below(3);
            let mut idx = vec![];
            for _ in 0..bl {
                idx.push(if rng.chance(3, 5) { *rng.pick(&good_f) } else { rng.below(n) });
            }
            if rng.chance(1, 3) {
                calls.push(Call::Add(idx));
            } else {
                let fargs = idx
                    .iter()
                    .map(|i| {
                        let named = rng.chance(1, 2);
                        if rng.chance(1, 10) { ff(*i, named, *rng.pick(&FILE_FAILS)) } else { fa(*i, named) }
                    })
                    .collect();
                calls.push(Call::Files(fargs));
            }
        }
        run.history(&mut rng, &calls, "files-random");
    }

    // ================= load_from_glob / full_reload (family `globhistory`)
    {
        use GCallH::*;
        let add = |v: Vec<usize>| Plain(Call::Add(v));
        let ges = |v: &[usize]| v.iter().map(|i| ge(*i)).collect::<Vec<_>>();
        // --- corpus: manual templates are kept, glob templates replaced by the next load; a
        // failing load restores templates AND the remembered glob; manual replacement of a glob
        // template; reload without a glob; invalid pattern
        run.ghistory(&mut rng, &[Reload(vec![]), LoadInvalid, add(vec![0]), Load(0, ges(&[2])), Reload(ges(&[2, 27])), Reload(ges(&[27])), Reload(ges(&[2]))], "glob-corpus");
        run.ghistory(&mut rng, &[Load(0, ges(&[0, 2, 27])), Load(1, ges(&[0, 8])), Reload(ges(&[0, 26])), Load(1, ges(&[4, 5, 6])), Reload(ges(&[4, 5])), Reload(ges(&[4, 5, 24]))], "glob-corpus");
        run.ghistory(&mut rng, &[add(vec![4, 5, 6]), Load(0, ges(&[0, 2])), add(vec![26]), Reload(ges(&[0])), Reload(ges(&[0, 1])), Load(1, ges(&[24])), LoadInvalid, Reload(ges(&[21]))], "glob-corpus");
        run.ghistory(&mut rng, &[Load(0, ges(&[0, 2])), Plain(Call::Auto(1)), Plain(Call::Files(vec![fa(2, false), fa(27, true)])), Reload(ges(&[1])), Plain(Call::Auto(0)), Reload(vec![])], "glob-corpus");
        for kind in [FK::NotUtf8, FK::BadPath, FK::Dir] {
            run.ghistory(&mut rng, &[Load(0, vec![gx(0, kind)]), Load(0, vec![ge(0), gx(2, kind)]), Load(0, vec![ge(0), ge(2)]), Reload(vec![ge(1), gx(2, kind), ge(27)]), Reload(vec![ge(1), ge(26), ge(27)])], "glob-corpus");
            run.ghistory(&mut rng, &[add(vec![0]), Load(0, vec![ge(2)]), Load(1, vec![ge(27), gx(4, kind)]), Reload(vec![ge(26)]), add(vec![1, 8]), Reload(vec![gx(26, kind)]), Reload(vec![])], "glob-corpus");
        }
        // --- every pool descriptor as the only matched file, on an empty instance and next to
        // a manual core; then gone again at the next reload
        for a in 0..n {
            run.ghistory(&mut rng, &[Load(0, vec![ge(a)]), Reload(vec![])], "glob1");
            if thorough || a % 2 == 0 {
                run.ghistory(&mut rng, &[add(vec![0, 2, 4, 5, 6]), Load(0, vec![ge(a)]), Reload(vec![])], "glob1");
            }
        }
        // --- same-name variants: loaded by one glob and replaced through a reload, with a bad
        // file next to them or not (quick: every 7th pair, thorough: every 2nd)
        let mut vk = 0usize;
        for a in variants {
            for b in variants {
                vk += 1;
                if (thorough && vk % 2 != 0) || (!thorough && vk % 7 != 0) {
                    continue;
                }
                let fail = match vk % 5 {
                    0 => vec![ge(8)],
                    1 => vec![gx(4, FK::NotUtf8)],
                    2 => vec![gx(4, FK::BadPath)],
                    3 => vec![ge(9)],
                    _ => vec![],
                };
                let mut second = vec![ge(a), ge(b)];
                second.extend(fail);
                run.ghistory(&mut rng, &[Load(0, core.iter().map(|i| ge(*i)).collect()), Reload(second.clone()), Reload(vec![ge(a), ge(b)])], "glob-replace");
                run.ghistory(&mut rng, &[add(core.clone()), Load(1, second), add(vec![a]), Reload(vec![ge(b)])], "glob-replace");
            }
        }
        // --- random histories over all call kinds
        let kg = if thorough { 600 } else { 100 };
        let good_g = [0usize, 1, 2, 4, 5, 6, 24, 25, 26, 27, 28, 29, 30, 31, 32, 34];
        for _ in 0..kg {
            let len = 3 + rng.below(8);
            let mut calls = vec![];
            for _ in 0..len {
                let mut idx = vec![];
                for _ in 0..rng.below(5) {
                    idx.push(if rng.chance(4, 5) { *rng.pick(&good_g) } else { rng.below(n) });
                }
                let ents = |rng: &mut Rng| idx.iter().map(|i| if rng.chance(1, 12) { gx(*i, *rng.pick(&GLOB_FAILS)) } else { ge(*i) }).collect::<Vec<_>>();
                match rng.below(20) {
                    0 => calls.push(LoadInvalid),
                    1 | 2 => calls.push(Plain(Call::Auto(rng.below(4)))),
                    3..=7 => {
                        let e = ents(&mut rng);
                        calls.push(Load(rng.below(2), e))
                    }
                    8..=12 => {
                        let e = ents(&mut rng);
                        calls.push(Reload(e))
                    }
                    13..=16 => {
                        if idx.is_empty() {
                            idx.push(*rng.pick(&good_g));
                        }
                        idx.truncate(3);
                        calls.push(add(idx.clone()))
                    }
                    _ => {
                        if idx.is_empty() {
                            idx.push(*rng.pick(&good_g));
                        }
                        idx.truncate(3);
                        calls.push(Plain(Call::Files(idx.iter().map(|i| fa(*i, rng.chance(1, 2))).collect())))
                    }
                }
            }
            run.ghistory(&mut rng, &calls, "glob-random");
        }
    }

    // --- random histories, length <= 12, batches of 1..3, autoescape interleaved
    let k = if thorough { 4000 } else { 500 };
    // descriptors that make an accepted core, so that histories do not fail all the way
    let good = [0usize, 1, 2, 4, 5, 6, 24, 25, 26, 27, 28, 29, 30, 31, 32, 34];
    for _ in 0..k {
        let len = 2 + rng.below(11);
        let mut calls = vec![];
        for _ in 0..len {
            if rng.chance(1, 6) {
                calls.push(Call::Auto(rng.below(4)));
            } else {
                let bl = 1 + rng.below(3);
                let mut idx = vec![];
                for _ in 0..bl {
                    idx.push(if rng.chance(3, 5) { *rng.pick(&good) } else { rng.below(n) });
                }
                calls.push(Call::Add(idx));
            }
        }
        run.history(&mut rng, &calls, "random");
    }

    let Run { gsink, glob_calls_ok, glob_calls_err, reload_probes, sink, mut meta, calls_ok, calls_err, fresh_compared, fresh_from_files, child_observations, file_calls_ok, file_calls_err, file_entries_by_kind, .. } = run;
    meta.extra.insert("successful_file_calls".into(), json!(file_calls_ok));
    meta.extra.insert("failing_file_calls_by_kind".into(), json!(file_calls_err));
    meta.extra.insert("file_entries_by_kind".into(), json!(file_entries_by_kind));
    meta.extra.insert("fresh_instances_filled_from_files".into(), json!(fresh_from_files));
    meta.extra.insert("exhaustive_histories".into(), json!(exhaustive));
    meta.extra.insert("exhaustive_space".into(), json!(format!("all histories of <= 2 single-template add calls over the {} pool descriptors + all two-template batches{}", n, if thorough { " + half of all 3-call histories (sampled)" } else { "" })));
    meta.extra.insert("successful_add_calls".into(), json!(calls_ok));
    meta.extra.insert("failing_add_calls_by_kind".into(), json!(calls_err));
    meta.extra.insert("fresh_instance_comparisons".into(), json!(fresh_compared));
    meta.extra.insert("child_process_observations_after_failed_adds".into(), json!(child_observations));
    meta.extra.insert("successful_glob_calls".into(), json!(glob_calls_ok));
    meta.extra.insert("failing_glob_calls_by_kind".into(), json!(glob_calls_err));
    meta.extra.insert("reload_probes_after_failing_calls".into(), json!(reload_probes));
    prefix_histories(&mut meta, &mut rng, thorough);
    meta.families.push(sink.finish());
    meta.families.push(gsink.finish());
    let _ = std::env::set_current_dir(&args.out);
    let _ = std::fs::remove_dir_all(&workdir);
    meta.write(&args.out);
}
