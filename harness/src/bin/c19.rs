//! C19 — serde fidelity. Families:
//!   rt    : (Rust type T, value v): `Value::try_from_serializable(&v)`, `T::deserialize(value)`,
//!           `T::deserialize(&value)`, render of `{{ v }}`   vs  Model.Serde.{ser, de} + Model.Format
//!   cross : (Rust type T, arbitrary Value x): `T::deserialize(x)` / `(&x)`  vs  Model.Serde.de
//!           (the acceptance table of serde's visitors, exercised off the round-trip diagonal)
//!   ctx   : `Context::from_serialize(&v)` read back key by key  vs  Model.Serde.from_serialize
//!   reser : an arbitrary Value through `Value::try_from_serializable(&value)` (`impl Serialize for Value`
//!           / `for Key`)  vs  Model.Serde.reser
//! Oracles (implementation side): integers print as Rust's own `Display`; `from_serialize` ==
//! `insert` per field == `insert_value` of the converted field; on every rt case the converted value sent
//! through serde again is strictly the same value and `insert(k, &converted)` stores and renders what
//! `insert_value(k, converted)` does; no panic anywhere.
#![allow(non_camel_case_types)]
use serde::de::DeserializeOwned;
use serde::{Deserialize, Serialize};
use serde_json::json;
use std::collections::{BTreeMap, HashMap};
use std::fmt::Debug;
use tera::{Context, Tera, Value};
use tvh::*;

// ---------------------------------------------------------------- description of Rust types

/// A Rust type mirrored by a `ty` term of Model/Serde.v; its values by `sval` terms.
trait Model: Serialize + DeserializeOwned + Debug + Clone {
    fn ty() -> String;
    fn sval(&self) -> String;
    fn arb(r: &mut Rng, depth: u32) -> Self;
    /// boundary values that are always run
    fn boundary() -> Vec<Self> {
        vec![]
    }
    /// `ctx.insert(field, &self.field)` for every field (structs) / entry (string-keyed maps)
    fn insert_fields(&self, _ctx: &mut Context) -> bool {
        false
    }
}


// ---------------------------------------------------------------- long strings, compactly

/// `list N` term for a sequence of numbers; long ones in run-length form
/// (`[..]%N ++ nrep c n ++ ..`, `nrep` is defined in Corr/CorrC19.v), so that a 65 536-byte
/// string costs Coq a few tokens to read while the model still works on the whole string.
fn gal_nums(v: &[u64]) -> String {
    if v.len() <= 48 {
        return gal_nlist(v.iter().copied());
    }
    let mut segs: Vec<String> = Vec::new();
    let mut lit: Vec<u64> = Vec::new();
    let mut i = 0;
    while i < v.len() {
        let mut j = i;
        while j < v.len() && v[j] == v[i] {
            j += 1;
        }
        if j - i >= 12 {
            if !lit.is_empty() {
                segs.push(gal_nlist(lit.drain(..)));
            }
            segs.push(format!("nrep {} {}", v[i], j - i));
        } else {
            lit.extend_from_slice(&v[i..j]);
        }
        i = j;
    }
    if !lit.is_empty() {
        segs.push(gal_nlist(lit.drain(..)));
    }
    format!("({})", segs.join(" ++ "))
}
/// JSON that is valid UTF-8 whatever the engine handed back (see INVALID_UTF8)
fn jclean(j: serde_json::Value) -> serde_json::Value {
    use serde_json::Value as J;
    match j {
        J::String(s) => J::String(String::from_utf8_lossy(s.as_bytes()).into_owned()),
        J::Array(a) => J::Array(a.into_iter().map(jclean).collect()),
        J::Object(o) => J::Object(o.into_iter().map(|(k, v)| (String::from_utf8_lossy(k.as_bytes()).into_owned(), jclean(v))).collect()),
        other => other,
    }
}

/// strings that turned out not to be valid UTF-8 (only possible after a memory-safety bug in the
/// engine: `as_str()` of a Value is `from_utf8_unchecked`); reported as oracle failures at the end
static INVALID_UTF8: std::sync::Mutex<Vec<String>> = std::sync::Mutex::new(Vec::new());

fn gal_lstr(s: &str) -> String {
    if std::str::from_utf8(s.as_bytes()).is_err() {
        let lossy = String::from_utf8_lossy(s.as_bytes()).into_owned();
        let mut g = INVALID_UTF8.lock().unwrap();
        if g.len() < 20 {
            g.push(format!("{} bytes: {:?}", s.len(), lossy.chars().take(40).collect::<String>()));
        }
        return gal_nums(&lossy.chars().map(|c| c as u32 as u64).collect::<Vec<_>>());
    }
    gal_nums(&s.chars().map(|c| c as u32 as u64).collect::<Vec<_>>())
}
fn gal_lbytes(b: &[u8]) -> String {
    gal_nums(&b.iter().map(|x| *x as u64).collect::<Vec<_>>())
}
fn gal_lkey(k: &tera::value::Key) -> String {
    use tera::value::Key;
    match k {
        Key::String(s) => format!("(KStr {} true)", gal_lstr(s)),
        Key::Str(s) => format!("(KStr {} false)", gal_lstr(s)),
        _ => gal_key(k),
    }
}
/// `tvh::gal_value` with the compact string form
fn gal_lvalue(v: &Value) -> String {
    use tera::value::ValueKind as K;
    match v.kind() {
        K::String => format!("(VStr {} {})", gal_lstr(v.as_str().unwrap()), gal_bool(v.is_safe())),
        K::Array => {
            let parts: Vec<String> = v.as_array().unwrap().iter().map(gal_lvalue).collect();
            format!("(VArr [{}])", parts.join("; "))
        }
        K::Map => {
            let parts: Vec<String> = sorted_entries(v.as_map().unwrap())
                .into_iter()
                .map(|(k, x)| format!("({}, {})", gal_lkey(k), gal_lvalue(x)))
                .collect();
            format!("(VMap [{}])", parts.join("; "))
        }
        K::Bytes => format!("(VBytes {})", gal_lbytes(v.as_bytes().unwrap())),
        _ => gal_value(v),
    }
}

/// Byte lengths at which the representation of a string could change: the inline/Arc limit of
/// SmartString (21/22), a u8 length wrapping (255/256/257, 256+21, 256+22, 511/512, 512+21), a
/// u16 length wrapping (65535/65536, 65536+21).
const LONG_LENS: [usize; 17] = [0, 1, 21, 22, 23, 24, 255, 256, 257, 277, 278, 511, 512, 533, 65535, 65536, 65557];

/// A string of exactly `len` UTF-8 bytes. variant 0: ASCII, begins with its own length, ends in
/// 'Z'; variants 1..=3: a 2-/3-/4-byte character whose encoding lies across byte 21|22, ASCII
/// around it (falls back to ASCII when `len` is too short for that).
fn long_string(len: usize, variant: u32) -> String {
    let (lead, ch) = match variant {
        1 => (20usize, Some('\u{e9}')),
        2 => (19, Some('\u{65e5}')),
        3 => (18, Some('\u{1f600}')),
        _ => (0, None),
    };
    if let Some(c) = ch {
        if len >= lead + c.len_utf8() {
            let mut s = "a".repeat(lead);
            s.push(c);
            let rest = len - s.len();
            if rest > 0 {
                s.push_str(&"y".repeat(rest - 1));
                s.push('Z');
            }
            debug_assert_eq!(s.len(), len);
            return s;
        }
    }
    let mut s = format!("{len}|");
    if s.len() > len {
        s.truncate(len);
        return s;
    }
    let rest = len - s.len();
    if rest > 0 {
        s.push_str(&"x".repeat(rest - 1));
        s.push('Z');
    }
    s
}
/// every boundary length, ASCII and multi-byte
fn long_strings() -> Vec<String> {
    let mut v = Vec::new();
    for len in LONG_LENS {
        for variant in 0..(if len >= 65535 { 2 } else { 4 }) {
            let s = long_string(len, variant);
            if !v.contains(&s) {
                v.push(s);
            }
        }
    }
    v
}
/// a long string for a generated value: mostly the lengths up to 533, sometimes the 64 KiB ones
fn arb_long_string(r: &mut Rng) -> String {
    let len = if r.chance(1, 16) { LONG_LENS[14 + r.below(3)] } else { LONG_LENS[2 + r.below(12)] };
    long_string(len, r.below(4) as u32)
}

fn gal_list(parts: Vec<String>) -> String {
    format!("[{}]", parts.join("; "))
}

macro_rules! model_int {
    ($t:ty, $signed:expr, $bits:expr) => {
        impl Model for $t {
            fn ty() -> String {
                format!("(TInt {} {}%N)", $signed, $bits)
            }
            fn sval(&self) -> String {
                format!("(SInt {} {}%N {})", $signed, $bits, if (*self as i128) < 0 && $signed { format!("({})", self) } else { format!("{}", self) })
            }
            fn arb(r: &mut Rng, _d: u32) -> Self {
                if r.chance(3, 4) {
                    let b = Self::boundary();
                    b[r.below(b.len())]
                } else {
                    let x = ((r.next() as u128) << 64 | r.next() as u128) >> r.below(128);
                    x as $t
                }
            }
            fn boundary() -> Vec<Self> {
                let mut v: Vec<$t> = vec![<$t>::MIN, <$t>::MAX, <$t>::MIN + 1, <$t>::MAX - 1, 0, 1, 2, 10, 100];
                for z in pools::int_pool_i128() {
                    if let Ok(x) = <$t>::try_from(z) {
                        v.push(x);
                    }
                }
                for u in pools::int_pool_u128_big() {
                    if let Ok(x) = <$t>::try_from(u) {
                        v.push(x);
                    }
                }
                v.sort();
                v.dedup();
                v
            }
        }
    };
}
model_int!(u8, false, 8);
model_int!(u16, false, 16);
model_int!(u32, false, 32);
model_int!(u64, false, 64);
model_int!(u128, false, 128);
model_int!(usize, false, 64);
model_int!(i8, true, 8);
model_int!(i16, true, 16);
model_int!(i32, true, 32);
model_int!(i64, true, 64);
model_int!(i128, true, 128);
model_int!(isize, true, 64);

impl Model for () {
    fn ty() -> String {
        "TUnit".into()
    }
    fn sval(&self) -> String {
        "SUnit".into()
    }
    fn arb(_: &mut Rng, _: u32) -> Self {}
    fn boundary() -> Vec<Self> {
        vec![()]
    }
}
impl Model for bool {
    fn ty() -> String {
        "TBool".into()
    }
    fn sval(&self) -> String {
        format!("(SBool {})", self)
    }
    fn arb(r: &mut Rng, _: u32) -> Self {
        r.chance(1, 2)
    }
    fn boundary() -> Vec<Self> {
        vec![false, true]
    }
}
impl Model for f64 {
    fn ty() -> String {
        "(TFloat 64%N)".into()
    }
    fn sval(&self) -> String {
        format!("(SFloat 64%N {})", gal_f64(*self))
    }
    fn arb(r: &mut Rng, _: u32) -> Self {
        if r.chance(2, 3) { *r.pick(&pools::float_pool()) } else { f64::from_bits(r.next()) }
    }
    fn boundary() -> Vec<Self> {
        pools::float_pool()
    }
}
impl Model for f32 {
    fn ty() -> String {
        "(TFloat 32%N)".into()
    }
    fn sval(&self) -> String {
        format!("(SFloat 32%N {})", gal_f64(*self as f64))
    }
    fn arb(r: &mut Rng, _: u32) -> Self {
        if r.chance(2, 3) { *r.pick(&Self::boundary()) } else { f32::from_bits(r.next() as u32) }
    }
    fn boundary() -> Vec<Self> {
        let mut v: Vec<f32> = pools::float_pool().into_iter().map(|x| x as f32).collect();
        v.extend([f32::MAX, f32::MIN, f32::MIN_POSITIVE, f32::from_bits(1), f32::from_bits(0x007f_ffff), f32::EPSILON, 16777216.0, 16777217.0, 0.1, 1e-40]);
        v
    }
}
fn char_pool() -> Vec<char> {
    let mut v: Vec<char> = pools::string_pool().iter().flat_map(|s| s.chars()).collect();
    v.extend(['\0', '\u{7f}', '\u{80}', '\u{7ff}', '\u{800}', '\u{ffff}', '\u{10000}', '\u{10ffff}', '\u{d7ff}', '\u{e000}', 'a', 'Z', '0', '"', '\\', '\'', '\r']);
    v.sort();
    v.dedup();
    v
}
impl Model for char {
    fn ty() -> String {
        "TChar".into()
    }
    fn sval(&self) -> String {
        format!("(SChar {}%N)", *self as u32)
    }
    fn arb(r: &mut Rng, _: u32) -> Self {
        *r.pick(&char_pool())
    }
    fn boundary() -> Vec<Self> {
        char_pool()
    }
}
impl Model for String {
    fn ty() -> String {
        "TString".into()
    }
    fn sval(&self) -> String {
        format!("(SStr {})", gal_lstr(self))
    }
    fn arb(r: &mut Rng, _: u32) -> Self {
        if r.chance(1, 8) {
            arb_long_string(r)
        } else if r.chance(3, 4) {
            r.pick(&pools::string_pool()).to_string()
        } else {
            let n = r.below(6);
            (0..n).map(|_| *r.pick(&char_pool())).collect()
        }
    }
    fn boundary() -> Vec<Self> {
        // two long ones first (Option<String> and the map-key chunks take a prefix of this list)
        let mut v = vec![long_string(256, 0), long_string(22, 1)];
        v.extend(pools::string_pool().iter().map(|s| s.to_string()));
        v.extend(long_strings());
        v
    }
}
impl<T: Model> Model for Option<T> {
    fn ty() -> String {
        format!("(TOption {})", T::ty())
    }
    fn sval(&self) -> String {
        match self {
            None => "SNone".into(),
            Some(x) => format!("(SSome {})", x.sval()),
        }
    }
    fn arb(r: &mut Rng, d: u32) -> Self {
        if r.chance(1, 4) { None } else { Some(T::arb(r, d)) }
    }
    fn boundary() -> Vec<Self> {
        let mut v = vec![None];
        v.extend(T::boundary().into_iter().take(12).map(Some));
        v
    }
}
fn arb_len(r: &mut Rng, d: u32) -> usize {
    if d >= 2 { r.below(3) } else { r.below(5) }
}
impl<T: Model> Model for Vec<T> {
    fn ty() -> String {
        format!("(TSeq {})", T::ty())
    }
    fn sval(&self) -> String {
        format!("(SSeq {})", gal_list(self.iter().map(|x| x.sval()).collect()))
    }
    fn arb(r: &mut Rng, d: u32) -> Self {
        (0..arb_len(r, d)).map(|_| T::arb(r, d + 1)).collect()
    }
    fn boundary() -> Vec<Self> {
        // lengths around the thresholds a sequence could have (inline capacity, u8 length); the
        // big ones only where the elements are small
        let mut out = vec![vec![]];
        let mut r = Rng::new(0x5eed);
        for n in [1usize, 21, 22, 255, 256, 257] {
            let v: Vec<T> = (0..n).map(|_| T::arb(&mut r, 3)).collect();
            if v.iter().map(|x| x.sval().len()).sum::<usize>() < 16_000 {
                out.push(v);
            }
        }
        out
    }
}
macro_rules! model_tuple {
    ($($n:tt $t:ident),+) => {
        impl<$($t: Model),+> Model for ($($t,)+) {
            fn ty() -> String { format!("(TTuple {})", gal_list(vec![$($t::ty()),+])) }
            fn sval(&self) -> String { format!("(STuple {})", gal_list(vec![$(self.$n.sval()),+])) }
            fn arb(r: &mut Rng, d: u32) -> Self { ($($t::arb(r, d + 1),)+) }
        }
    };
}
model_tuple!(0 A);
model_tuple!(0 A, 1 B);
model_tuple!(0 A, 1 B, 2 C);
model_tuple!(0 A, 1 B, 2 C, 3 D);

impl<K: Model + Ord, V: Model> Model for BTreeMap<K, V> {
    fn ty() -> String {
        format!("(TMap {} {})", K::ty(), V::ty())
    }
    fn sval(&self) -> String {
        format!("(SMap {})", gal_list(self.iter().map(|(k, x)| format!("({}, {})", k.sval(), x.sval())).collect()))
    }
    fn arb(r: &mut Rng, d: u32) -> Self {
        (0..arb_len(r, d)).map(|_| (K::arb(r, d + 1), V::arb(r, d + 1))).collect()
    }
    fn boundary() -> Vec<Self> {
        let mut v = vec![BTreeMap::new()];
        // every boundary key once
        let ks = K::boundary();
        for chunk in ks.chunks(4).take(24) {
            let mut r = Rng::new(chunk.len() as u64);
            v.push(chunk.iter().map(|k| (k.clone(), V::arb(&mut r, 2))).collect());
        }
        // sizes around get_attr's scan-vs-hash cutoffs (6, 12) and beyond
        for n in [6usize, 7, 12, 13, 33] {
            if ks.len() >= n {
                let mut r = Rng::new(n as u64);
                let m: Self = ks.iter().rev().take(n).map(|k| (k.clone(), V::arb(&mut r, 3))).collect();
                if m.iter().map(|(k, x)| k.sval().len() + x.sval().len()).sum::<usize>() < 16_000 {
                    v.push(m);
                }
            }
        }
        v
    }
    fn insert_fields(&self, ctx: &mut Context) -> bool {
        // only meaningful when keys print as themselves; the caller compares with from_serialize
        for (k, x) in self {
            let kv = match Value::try_from_serializable(k) {
                Ok(v) => v,
                Err(_) => return false,
            };
            let name = match kv.as_str() {
                Some(s) => s.to_string(),
                None => match (kv.as_i128(), kv.as_u128(), kv.as_bool()) {
                    (Some(i), _, _) => i.to_string(),
                    (_, Some(u), _) => u.to_string(),
                    (_, _, Some(b)) => b.to_string(),
                    _ => return false,
                },
            };
            ctx.insert(name, x);
        }
        true
    }
}
impl<K: Model + Eq + std::hash::Hash, V: Model> Model for HashMap<K, V> {
    fn ty() -> String {
        format!("(TMap {} {})", K::ty(), V::ty())
    }
    fn sval(&self) -> String {
        format!("(SMap {})", gal_list(self.iter().map(|(k, x)| format!("({}, {})", k.sval(), x.sval())).collect()))
    }
    fn arb(r: &mut Rng, d: u32) -> Self {
        (0..arb_len(r, d) + 1).map(|_| (K::arb(r, d + 1), V::arb(r, d + 1))).collect()
    }
}

macro_rules! model_struct {
    ($name:ident { $($f:ident : $t:ty),* }) => {
        #[derive(Serialize, Deserialize, PartialEq, Debug, Clone)]
        struct $name { $($f: $t),* }
        impl Model for $name {
            fn ty() -> String {
                let fs: Vec<String> = vec![$(format!("({}, {})", gal_lstr(stringify!($f)), <$t as Model>::ty())),*];
                format!("(TStruct {})", gal_list(fs))
            }
            fn sval(&self) -> String {
                let fs: Vec<String> = vec![$(format!("({}, {})", gal_lstr(stringify!($f)), self.$f.sval())),*];
                format!("(SStruct {})", gal_list(fs))
            }
            #[allow(unused_variables)]
            fn arb(r: &mut Rng, d: u32) -> Self { $name { $($f: <$t as Model>::arb(r, d + 1)),* } }
            #[allow(unused_variables)]
            fn insert_fields(&self, ctx: &mut Context) -> bool { $(ctx.insert(stringify!($f), &self.$f);)* true }
        }
    };
}

// unit-only enum (usable as a map key)
#[derive(Serialize, Deserialize, PartialEq, Eq, PartialOrd, Ord, Hash, Debug, Clone)]
enum UE {
    Zeta,
    Alpha,
    Mid,
}
impl Model for UE {
    fn ty() -> String {
        format!("(TEnum [VUnit {}; VUnit {}; VUnit {}])", gal_lstr("Zeta"), gal_lstr("Alpha"), gal_lstr("Mid"))
    }
    fn sval(&self) -> String {
        let n = match self {
            UE::Zeta => "Zeta",
            UE::Alpha => "Alpha",
            UE::Mid => "Mid",
        };
        format!("(SVariant {} VKUnit SUnit)", gal_lstr(n))
    }
    fn arb(r: &mut Rng, _: u32) -> Self {
        [UE::Zeta, UE::Alpha, UE::Mid][r.below(3)].clone()
    }
    fn boundary() -> Vec<Self> {
        vec![UE::Zeta, UE::Alpha, UE::Mid]
    }
}

#[derive(Serialize, Deserialize, PartialEq, Eq, PartialOrd, Ord, Debug, Clone)]
struct Wrap(u8);
impl Model for Wrap {
    fn ty() -> String {
        format!("(TNewtype {})", u8::ty())
    }
    fn sval(&self) -> String {
        format!("(SNewtype {})", self.0.sval())
    }
    fn arb(r: &mut Rng, d: u32) -> Self {
        Wrap(u8::arb(r, d))
    }
    fn boundary() -> Vec<Self> {
        vec![Wrap(0), Wrap(255), Wrap(3)]
    }
}
#[derive(Serialize, Deserialize, PartialEq, Debug, Clone)]
struct WrapV(Vec<Vec<u8>>);
impl Model for WrapV {
    fn ty() -> String {
        format!("(TNewtype {})", <Vec<Vec<u8>>>::ty())
    }
    fn sval(&self) -> String {
        format!("(SNewtype {})", self.0.sval())
    }
    fn arb(r: &mut Rng, d: u32) -> Self {
        WrapV(Model::arb(r, d))
    }
    fn boundary() -> Vec<Self> {
        vec![WrapV(vec![]), WrapV(vec![vec![]]), WrapV(vec![vec![1]]), WrapV(vec![vec![], vec![2, 3]])]
    }
}
#[derive(Serialize, Deserialize, PartialEq, Debug, Clone)]
struct WrapO(Option<String>);
impl Model for WrapO {
    fn ty() -> String {
        format!("(TNewtype {})", <Option<String>>::ty())
    }
    fn sval(&self) -> String {
        format!("(SNewtype {})", self.0.sval())
    }
    fn arb(r: &mut Rng, d: u32) -> Self {
        WrapO(Model::arb(r, d))
    }
}
#[derive(Serialize, Deserialize, PartialEq, Debug, Clone)]
struct UnitS;
impl Model for UnitS {
    fn ty() -> String {
        "TUnitStruct".into()
    }
    fn sval(&self) -> String {
        "SUnitStruct".into()
    }
    fn arb(_: &mut Rng, _: u32) -> Self {
        UnitS
    }
    fn boundary() -> Vec<Self> {
        vec![UnitS]
    }
}
// tuple struct: serialised and read back exactly like a tuple
#[derive(Serialize, Deserialize, PartialEq, Debug, Clone)]
struct TS(u8, String, Option<i16>);
impl Model for TS {
    fn ty() -> String {
        <(u8, String, Option<i16>)>::ty()
    }
    fn sval(&self) -> String {
        (self.0, self.1.clone(), self.2).sval()
    }
    fn arb(r: &mut Rng, d: u32) -> Self {
        TS(Model::arb(r, d), Model::arb(r, d), Model::arb(r, d))
    }
}

model_struct!(Empty {});
model_struct!(S1 { a: u8, b: String, c: Option<i64> });
model_struct!(Nums { u_8: u8, u_16: u16, u_32: u32, u_64: u64, u_128: u128, i_8: i8, i_16: i16, i_32: i32, i_64: i64, i_128: i128, f_32: f32, f_64: f64, us: usize, is: isize });
model_struct!(S2 { inner: S1, list: Vec<E>, map: BTreeMap<String, Option<u8>>, u: (), ch: char });
model_struct!(S3 { zs: Vec<S2>, t: (E, Option<S1>), k: BTreeMap<UE, Vec<(i8, bool)>> });
model_struct!(SW { w: Wrap, ws: Vec<Wrap>, o: Option<Wrap> });

// every variant shape
#[derive(Serialize, Deserialize, PartialEq, Debug, Clone)]
enum E {
    A,
    B(u8),
    C(i64, String),
    D { x: i32, y: Option<String> },
}
impl Model for E {
    fn ty() -> String {
        format!(
            "(TEnum [VUnit {}; VNewtype {} {}; VTuple {} [{}; {}]; VStruct {} [({}, {}); ({}, {})]])",
            gal_lstr("A"), gal_lstr("B"), u8::ty(), gal_lstr("C"), i64::ty(), String::ty(),
            gal_lstr("D"), gal_lstr("x"), i32::ty(), gal_lstr("y"), <Option<String>>::ty()
        )
    }
    fn sval(&self) -> String {
        match self {
            E::A => format!("(SVariant {} VKUnit SUnit)", gal_lstr("A")),
            E::B(x) => format!("(SVariant {} VKNewtype {})", gal_lstr("B"), x.sval()),
            E::C(x, y) => format!("(SVariant {} VKTuple (STuple [{}; {}]))", gal_lstr("C"), x.sval(), y.sval()),
            E::D { x, y } => format!(
                "(SVariant {} VKStruct (SStruct [({}, {}); ({}, {})]))",
                gal_lstr("D"), gal_lstr("x"), x.sval(), gal_lstr("y"), y.sval()
            ),
        }
    }
    fn arb(r: &mut Rng, d: u32) -> Self {
        match r.below(4) {
            0 => E::A,
            1 => E::B(Model::arb(r, d)),
            2 => E::C(Model::arb(r, d), Model::arb(r, d)),
            _ => E::D { x: Model::arb(r, d), y: Model::arb(r, d) },
        }
    }
    fn boundary() -> Vec<Self> {
        vec![E::A, E::B(0), E::B(255), E::C(i64::MIN, String::new()), E::D { x: i32::MIN, y: None }, E::D { x: 0, y: Some("y".into()) }]
    }
}
// payloads that are themselves options / containers / enums / unit
#[derive(Serialize, Deserialize, PartialEq, Debug, Clone)]
enum E2 {
    N(Option<u8>),
    V(Vec<E>),
    M(BTreeMap<u8, UE>),
    U(()),
    T(u128, (i8, char)),
    S { e: E, m: BTreeMap<char, f64> },
    #[serde(rename = "renamed")]
    R,
}
impl Model for E2 {
    fn ty() -> String {
        format!(
            "(TEnum [VNewtype {} {}; VNewtype {} {}; VNewtype {} {}; VNewtype {} TUnit; VTuple {} [{}; {}]; VStruct {} [({}, {}); ({}, {})]; VUnit {}])",
            gal_lstr("N"), <Option<u8>>::ty(), gal_lstr("V"), <Vec<E>>::ty(), gal_lstr("M"), <BTreeMap<u8, UE>>::ty(), gal_lstr("U"),
            gal_lstr("T"), u128::ty(), <(i8, char)>::ty(),
            gal_lstr("S"), gal_lstr("e"), E::ty(), gal_lstr("m"), <BTreeMap<char, f64>>::ty(), gal_lstr("renamed")
        )
    }
    fn sval(&self) -> String {
        match self {
            E2::N(x) => format!("(SVariant {} VKNewtype {})", gal_lstr("N"), x.sval()),
            E2::V(x) => format!("(SVariant {} VKNewtype {})", gal_lstr("V"), x.sval()),
            E2::M(x) => format!("(SVariant {} VKNewtype {})", gal_lstr("M"), x.sval()),
            E2::U(x) => format!("(SVariant {} VKNewtype {})", gal_lstr("U"), x.sval()),
            E2::T(x, y) => format!("(SVariant {} VKTuple (STuple [{}; {}]))", gal_lstr("T"), x.sval(), y.sval()),
            E2::S { e, m } => format!(
                "(SVariant {} VKStruct (SStruct [({}, {}); ({}, {})]))",
                gal_lstr("S"), gal_lstr("e"), e.sval(), gal_lstr("m"), m.sval()
            ),
            E2::R => format!("(SVariant {} VKUnit SUnit)", gal_lstr("renamed")),
        }
    }
    fn arb(r: &mut Rng, d: u32) -> Self {
        match r.below(7) {
            0 => E2::N(Model::arb(r, d)),
            1 => E2::V(Model::arb(r, d + 1)),
            2 => E2::M(Model::arb(r, d)),
            3 => E2::U(()),
            4 => E2::T(Model::arb(r, d), Model::arb(r, d)),
            5 => E2::S { e: Model::arb(r, d), m: Model::arb(r, d + 1) },
            _ => E2::R,
        }
    }
    fn boundary() -> Vec<Self> {
        vec![E2::N(None), E2::N(Some(0)), E2::V(vec![]), E2::M(BTreeMap::new()), E2::U(()), E2::R, E2::T(u128::MAX, (i8::MIN, '\u{10ffff}'))]
    }
}

// field and variant NAMES at the string-representation boundaries (they become keys, and keys
// become string values again when a struct / enum is read back)
#[derive(Serialize, Deserialize, PartialEq, Debug, Clone)]
struct LongNames {
    #[serde(rename = "nnnnnnnnnnnnnnnnnnnnnnnnnnnnnnnnnnnnnnnnnnnnnnnnnnnnnnnnnnnnnnnnnnnnnnnnnnnnnnnnnnnnnnnnnnnnnnnnnnnnnnnnnnnnnnnnnnnnnnnnnnnnnnnnnnnnnnnnnnnnnnnnnnnnnnnnnnnnnnnnnnnnnnnnnnnnnnnnnnnnnnnnnnnnnnnnnnnnnnnnnnnnnnnnnnnnnnnnnnnnnnnnnnnnnnnnnnnnnnnnnnnnnnnnnnnnnnnn")]
    a: u8,
    #[serde(rename = "ffffffffffffffffffffff")]
    b: String,
    c: LongVariant,
}
#[derive(Serialize, Deserialize, PartialEq, Eq, PartialOrd, Ord, Debug, Clone)]
enum LongVariant {
    #[serde(rename = "VVVVVVVVVVVVVVVVVVVVVVVVVVVVVVVVVVVVVVVVVVVVVVVVVVVVVVVVVVVVVVVVVVVVVVVVVVVVVVVVVVVVVVVVVVVVVVVVVVVVVVVVVVVVVVVVVVVVVVVVVVVVVVVVVVVVVVVVVVVVVVVVVVVVVVVVVVVVVVVVVVVVVVVVVVVVVVVVVVVVVVVVVVVVVVVVVVVVVVVVVVVVVVVVVVVVVVVVVVVVVVVVVVVVVVVVVVVVVVVVVVVVVVVVVVVVVVVVVVVVVVVVVVVVVVVVVVVVV")]
    Unit,
    #[serde(rename = "WWWWWWWWWWWWWWWWWWWWWWWWWWWWWWWWWWWWWWWWWWWWWWWWWWWWWWWWWWWWWWWWWWWWWWWWWWWWWWWWWWWWWWWWWWWWWWWWWWWWWWWWWWWWWWWWWWWWWWWWWWWWWWWWWWWWWWWWWWWWWWWWWWWWWWWWWWWWWWWWWWWWWWWWWWWWWWWWWWWWWWWWWWWWWWWWWWWWWWWWWWWWWWWWWWWWWWWWWWWWWWWWWWWWWWWWWWWWWWWWWWWWWWWWWWWWWWWW")]
    New(u8),
    Short,
}
impl Model for LongVariant {
    fn ty() -> String {
        format!("(TEnum [VUnit {}; VNewtype {} {}; VUnit {}])", gal_lstr(&"V".repeat(277)), gal_lstr(&"W".repeat(256)), u8::ty(), gal_lstr("Short"))
    }
    fn sval(&self) -> String {
        match self {
            LongVariant::Unit => format!("(SVariant {} VKUnit SUnit)", gal_lstr(&"V".repeat(277))),
            LongVariant::New(x) => format!("(SVariant {} VKNewtype {})", gal_lstr(&"W".repeat(256)), x.sval()),
            LongVariant::Short => format!("(SVariant {} VKUnit SUnit)", gal_lstr("Short")),
        }
    }
    fn arb(r: &mut Rng, d: u32) -> Self {
        match r.below(3) {
            0 => LongVariant::Unit,
            1 => LongVariant::New(u8::arb(r, d)),
            _ => LongVariant::Short,
        }
    }
    fn boundary() -> Vec<Self> {
        vec![LongVariant::Unit, LongVariant::New(7), LongVariant::Short]
    }
}
impl Model for LongNames {
    fn ty() -> String {
        format!("(TStruct [({}, {}); ({}, {}); ({}, {})])", gal_lstr(&"n".repeat(256)), u8::ty(), gal_lstr(&"f".repeat(22)), String::ty(), gal_lstr("c"), LongVariant::ty())
    }
    fn sval(&self) -> String {
        format!("(SStruct [({}, {}); ({}, {}); ({}, {})])", gal_lstr(&"n".repeat(256)), self.a.sval(), gal_lstr(&"f".repeat(22)), self.b.sval(), gal_lstr("c"), self.c.sval())
    }
    fn arb(r: &mut Rng, d: u32) -> Self {
        LongNames { a: u8::arb(r, d), b: String::arb(r, d), c: LongVariant::arb(r, d) }
    }
    fn boundary() -> Vec<Self> {
        vec![LongNames { a: 1, b: long_string(256, 0), c: LongVariant::Unit }, LongNames { a: 0, b: String::new(), c: LongVariant::New(0) }]
    }
}

// ---- key types that must be refused
#[derive(Serialize, Deserialize, PartialEq, Debug, Clone)]
struct FKey(f64);
impl Eq for FKey {}
impl PartialOrd for FKey {
    fn partial_cmp(&self, o: &Self) -> Option<std::cmp::Ordering> {
        Some(self.cmp(o))
    }
}
impl Ord for FKey {
    fn cmp(&self, o: &Self) -> std::cmp::Ordering {
        self.0.total_cmp(&o.0)
    }
}
impl Model for FKey {
    fn ty() -> String {
        format!("(TNewtype {})", f64::ty())
    }
    fn sval(&self) -> String {
        format!("(SNewtype {})", self.0.sval())
    }
    fn arb(r: &mut Rng, d: u32) -> Self {
        FKey(f64::arb(r, d))
    }
}
#[derive(Serialize, Deserialize, PartialEq, Eq, PartialOrd, Ord, Debug, Clone)]
struct KS {
    a: u8,
}
impl Model for KS {
    fn ty() -> String {
        format!("(TStruct [({}, {})])", gal_lstr("a"), u8::ty())
    }
    fn sval(&self) -> String {
        format!("(SStruct [({}, {})])", gal_lstr("a"), self.a.sval())
    }
    fn arb(r: &mut Rng, d: u32) -> Self {
        KS { a: u8::arb(r, d) }
    }
}
// an enum with a non-unit variant as key: unit variants pass, the others are refused
#[derive(Serialize, Deserialize, PartialEq, Eq, PartialOrd, Ord, Debug, Clone)]
enum KE {
    P,
    Q(u8),
}
impl Model for KE {
    fn ty() -> String {
        format!("(TEnum [VUnit {}; VNewtype {} {}])", gal_lstr("P"), gal_lstr("Q"), u8::ty())
    }
    fn sval(&self) -> String {
        match self {
            KE::P => format!("(SVariant {} VKUnit SUnit)", gal_lstr("P")),
            KE::Q(x) => format!("(SVariant {} VKNewtype {})", gal_lstr("Q"), x.sval()),
        }
    }
    fn arb(r: &mut Rng, d: u32) -> Self {
        if r.chance(1, 2) { KE::P } else { KE::Q(u8::arb(r, d)) }
    }
}

// ---------------------------------------------------------------- running one (type, value)

fn de_outcome(r: std::thread::Result<Result<(String, String), String>>) -> (String, serde_json::Value, bool) {
    match r {
        Ok(Ok((sv, dbg))) => (format!("(ROk {sv})"), json!({"ok": dbg}), false),
        Ok(Err(e)) => ("(RErr ErrMsg)".into(), json!({"err": e}), false),
        Err(_) => ("(RErr ErrPanic)".into(), json!({"panic": true}), true),
    }
}

fn de_both<T: Model>(val: &Value) -> ((String, serde_json::Value, bool), (String, serde_json::Value, bool)) {
    let v1 = val.clone();
    fn describe<T: Model>(x: T) -> (String, String) {
        let d: String = format!("{x:?}").chars().take(600).collect();
        (x.sval(), d)
    }
    let owned = std::panic::catch_unwind(std::panic::AssertUnwindSafe(move || T::deserialize(v1).map(describe).map_err(|e| e.to_string())));
    let byref = std::panic::catch_unwind(std::panic::AssertUnwindSafe(|| T::deserialize(val).map(describe).map_err(|e| e.to_string())));
    (de_outcome(owned), de_outcome(byref))
}

/// `{:?}` of every string and f64 occurring in `v` (the two std oracles of Model/Format.v)
fn collect_oracles(v: &Value, strs: &mut BTreeMap<String, String>, floats: &mut BTreeMap<u64, (String, String)>) {
    if let Some(s) = v.as_str() {
        strs.insert(s.to_string(), format!("{s:?}"));
    } else if v.is_f64() {
        let f = v.as_f64().unwrap();
        floats.insert(f.to_bits(), (gal_f64(f), format!("{f:?}")));
    } else if let Some(a) = v.as_array() {
        for x in a.iter() {
            collect_oracles(x, strs, floats);
        }
    } else if let Some(m) = v.as_map() {
        for (k, x) in m.iter() {
            if let Some(s) = k.as_str() {
                strs.insert(s.to_string(), format!("{s:?}"));
            }
            collect_oracles(x, strs, floats);
        }
    }
}

/// Strict canonical text: kind, representation, safe flag, key kinds — everything except the
/// String-vs-Str variant of string keys (which `Key: Eq/Hash/Ord/Display` ignore).
fn strict_text(v: &Value) -> String {
    use tera::value::Key;
    use tera::value::ValueKind as K;
    match v.kind() {
        K::Array => format!("[{}]", v.as_array().unwrap().iter().map(strict_text).collect::<Vec<_>>().join(",")),
        K::Map => {
            let parts: Vec<String> = sorted_entries(v.as_map().unwrap())
                .into_iter()
                .map(|(k, x)| {
                    let kt = match k {
                        Key::Bool(b) => format!("bool:{b}"),
                        Key::U64(u) => format!("u64:{u}"),
                        Key::I64(i) => format!("i64:{i}"),
                        Key::U128(u) => format!("u128:{u}"),
                        Key::I128(i) => format!("i128:{i}"),
                        Key::String(s) => format!("str:{s:?}"),
                        Key::Str(s) => format!("str:{s:?}"),
                        _ => "?".to_string(),
                    };
                    format!("{kt}=>{}", strict_text(x))
                })
                .collect();
            format!("{{{}}}", parts.join(","))
        }
        _ => gal_lvalue(v),
    }
}

struct Run<'a> {
    tera: &'a Tera,
    rt: Sink,
    cross: Sink,
    ctx: Sink,
    reser: Sink,
    meta: Meta,
    oracle_only: usize,
}

fn kf_for(ty: &str, byref_differs: bool) -> Option<&'static str> {
    if ty.contains("TNewtype") {
        Some("newtype-struct:forwarded-to-deserialize_any")
    } else if byref_differs {
        Some("by-ref:option-enum-forwarded-to-deserialize_any")
    } else {
        None
    }
}

fn run_rt<T: Model>(run: &mut Run, v: &T, tname: &str) {
    let r = std::panic::catch_unwind(std::panic::AssertUnwindSafe(|| run_rt_inner::<T>(run, v, tname)));
    if r.is_err() {
        run.meta.oracle_fail("panic while running or describing a case (run_rt)", None,
            json!({"type": tname, "value": format!("{v:?}").chars().take(400).collect::<String>()}));
    }
}
fn run_rt_inner<T: Model>(run: &mut Run, v: &T, tname: &str) {
    let ty = T::ty();
    let sv = v.sval();
    let ser = guarded(|| Value::try_from_serializable(v));
    run.meta.oracle_checks += 1;
    if let Outcome::Panic(m) = &ser {
        run.meta.oracle_fail(&format!("panic in try_from_serializable: {m}"), None, json!({"type": tname, "value": format!("{v:?}")}));
    }
    let (g_owned, g_byref, g_text, g_ff, g_sd, j_owned, j_byref, j_text, differs);
    match &ser {
        Outcome::Ok(val) => {
            let (o, b) = de_both::<T>(val);
            if o.2 || b.2 {
                run.meta.oracle_fail("panic in deserialize", None, json!({"type": tname, "value": format!("{v:?}")}));
            }
            differs = o.0 != b.0;
            let mut c = Context::new();
            c.insert_value("v", val.clone());
            let text = guarded(|| run.tera.render_str("{{ v }}", &c, false));
            if let Outcome::Panic(m) = &text {
                run.meta.oracle_fail(&format!("panic in render: {m}"), None, json!({"type": tname, "value": format!("{v:?}")}));
            }
            // the converted value sent through serde again: same value; insert == insert_value
            run.meta.oracle_checks += 1;
            let again = guarded(|| Value::try_from_serializable(val));
            match &again {
                Outcome::Ok(a) if strict_text(a) == strict_text(val) && a == val => {}
                other => run.meta.oracle_fail(
                    "a converted value sent through serde again (Value::from_serializable(&converted)) is not the same value",
                    None,
                    json!({"type": tname, "value": format!("{v:?}"), "converted": json_value(val), "again": other.json(json_value)}),
                ),
            }
            let ins = guarded(|| {
                let mut c1 = Context::new();
                c1.insert("v", val);
                let mut c2 = Context::new();
                c2.insert_value("v", val.clone());
                let probe = "{{ v }}";
                let t1 = run.tera.render_str(probe, &c1, false)?;
                let t2 = run.tera.render_str(probe, &c2, false)?;
                let same_store = match (c1.get("v"), c2.get("v")) {
                    (Some(a), Some(b)) => strict_text(a) == strict_text(b) && a == b,
                    _ => false,
                };
                Ok((c1 == c2 && same_store, t1, t2))
            });
            match &ins {
                Outcome::Ok((true, t1, t2)) if t1 == t2 => {}
                other => run.meta.oracle_fail(
                    "Context::insert(k, &converted) and Context::insert_value(k, converted) are not interchangeable",
                    None,
                    json!({"type": tname, "value": format!("{v:?}"), "converted": json_value(val),
                           "insert_vs_insert_value": other.json(|(eq, a, b)| json!({"contexts_equal": eq, "insert_renders": a, "insert_value_renders": b}))}),
                ),
            }
            let mut strs = BTreeMap::new();
            let mut floats = BTreeMap::new();
            collect_oracles(val, &mut strs, &mut floats);
            g_ff = gal_list(floats.values().map(|(g, s)| format!("({}, {})", g, gal_lstr(s))).collect());
            g_sd = gal_list(strs.iter().map(|(k, s)| format!("({}, {})", gal_lstr(k), gal_lstr(s))).collect());
            g_text = text.gal(|s| gal_lstr(s));
            j_text = text.json(|s| json!(s));
            g_owned = o.0;
            g_byref = b.0;
            j_owned = o.1;
            j_byref = b.1;
        }
        _ => {
            differs = false;
            g_owned = "(RErr ErrOther)".to_string();
            g_byref = "(RErr ErrOther)".to_string();
            g_text = "(RErr ErrOther)".to_string();
            g_ff = "[]".into();
            g_sd = "[]".into();
            j_owned = json!(null);
            j_byref = json!(null);
            j_text = json!(null);
        }
    }
    let g = format!(
        "{{| c_ty := {ty}; c_val := {sv}; c_ser := {}; c_owned := {g_owned}; c_byref := {g_byref}; c_text := {g_text}; c_ffmt := {g_ff}; c_sdbg := {g_sd} |}}",
        ser.gal(gal_lvalue)
    );
    let desc = json!({"type": tname, "value": format!("{v:?}"), "ser": ser.json(json_value), "owned": j_owned, "byref": j_byref, "text": j_text});
    let tag_ser = if matches!(ser, Outcome::Ok(_)) { "ser:ok" } else { "ser:refused" };
    let nontrivial = sv.len() > 24;
    run.rt.push(g, jclean(desc), nontrivial, kf_for(&ty, differs), &[tag_ser, &format!("type:{tname}")]);
}

/// impl-side oracle: integers print as Rust prints them
fn oracle_int_text<T: Model + std::fmt::Display>(run: &mut Run, v: &T, tname: &str) {
    let mut c = Context::new();
    c.insert("v", v);
    let text = guarded(|| run.tera.render_str("{{ v }}|{{ [v] }}|{{ {'k': v} }}", &c, false));
    run.meta.oracle_checks += 1;
    run.oracle_only += 1;
    let want = format!("{v}|[{v}]|{{\"k\": {v}}}");
    match text {
        Outcome::Ok(s) if s == want => {}
        other => run.meta.oracle_fail("integer does not print as its decimal expansion", None,
            json!({"type": tname, "value": format!("{v}"), "printed": other.json(|s| json!(s)), "expected": want})),
    }
}

/// impl-side oracle: a string put into a Value (any constructor, and a key turned into a value) is
/// that string
fn oracle_string_ctor(run: &mut Run, s: &str) {
    use tera::value::Key;
    run.meta.oracle_checks += 1;
    run.oracle_only += 1;
    let r = guarded(|| {
        let leaked: &'static str = Box::leak(s.to_string().into_boxed_str());
        let vs = [
            ("Value::from(&str)", Value::from(s)),
            ("Value::from(String)", Value::from(s.to_string())),
            ("Value::normal_string", Value::normal_string(s)),
            ("Value::safe_string", Value::safe_string(s)),
            ("Key::String::as_value", Key::String(std::sync::Arc::from(s)).as_value()),
            ("Key::Str::as_value", Key::Str(leaked).as_value()),
        ];
        for (what, v) in vs.iter() {
            if v.as_str() != Some(s) {
                return Ok(Some((what.to_string(), v.as_str().map(|x| x.len()))));
            }
        }
        Ok(None)
    });
    match r {
        Outcome::Ok(None) => {}
        Outcome::Ok(Some((what, got))) => run.meta.oracle_fail(
            "a string stored in a Value is not the string that was given",
            None,
            json!({"constructor": what, "byte_len": s.len(), "stored_byte_len": got, "string_prefix": s.chars().take(24).collect::<String>()}),
        ),
        other => run.meta.oracle_fail("panic/err in a Value string constructor", None, json!({"byte_len": s.len(), "outcome": other.json(|_| json!(null))})),
    }
}

fn run_cross<T: Model>(run: &mut Run, val: &Value, tname: &str) {
    let r = std::panic::catch_unwind(std::panic::AssertUnwindSafe(|| run_cross_inner::<T>(run, val, tname)));
    if r.is_err() {
        run.meta.oracle_fail("panic while running or describing a case (run_cross)", None,
            json!({"type": tname, "from_kind": format!("{:?}", val.kind())}));
    }
}
fn run_cross_inner<T: Model>(run: &mut Run, val: &Value, tname: &str) {
    let ty = T::ty();
    let (o, b) = de_both::<T>(val);
    run.meta.oracle_checks += 1;
    if o.2 || b.2 {
        run.meta.oracle_fail("panic in deserialize", None, json!({"type": tname, "from": json_value(val)}));
    }
    let differs = o.0 != b.0;
    let g = format!("{{| x_ty := {ty}; x_val := {}; x_owned := {}; x_byref := {} |}}", gal_lvalue(val), o.0, b.0);
    let desc = json!({"type": tname, "from": json_value(val), "owned": o.1, "byref": b.1});
    let ok = o.0.starts_with("(ROk");
    run.cross.push(g, jclean(desc), ok, kf_for(&ty, differs), &[if ok { "impl:ok" } else { "impl:err" }]);
}

fn run_reser(run: &mut Run, val: &Value) {
    let r = std::panic::catch_unwind(std::panic::AssertUnwindSafe(|| run_reser_inner(run, val)));
    if r.is_err() {
        run.meta.oracle_fail("panic while running or describing a case (run_reser)", None, json!({"value_kind": format!("{:?}", val.kind())}));
    }
}
fn run_reser_inner(run: &mut Run, val: &Value) {
    let r = guarded(|| Value::try_from_serializable(val));
    run.meta.oracle_checks += 1;
    if let Outcome::Panic(m) = &r {
        run.meta.oracle_fail(&format!("panic in try_from_serializable(&value): {m}"), None, json!({"value": json_value(val)}));
    }
    let g = format!("{{| r_val := {}; r_impl := {} |}}", gal_lvalue(val), r.gal(gal_lvalue));
    let desc = json!({"value": json_value(val), "reserialized": r.json(json_value)});
    let nontrivial = val.is_map() || val.is_array();
    let tag = if val.is_map() { "map" } else if val.is_array() { "array" } else { "scalar" };
    run.reser.push(g, jclean(desc), nontrivial, None, &[tag]);
}

/// maps with every key kind (Bool, U64, I64, U128, I128, String, Str) over every value kind, nested
fn reser_pool(base: &[Value]) -> Vec<Value> {
    use tera::value::Key;
    let mut out: Vec<Value> = Vec::new();
    let kinds = pools::kind_pool();
    let keys: Vec<Key<'static>> = vec![
        Key::Bool(true), Key::Bool(false), Key::U64(0), Key::U64(u64::MAX), Key::I64(-1), Key::I64(i64::MIN), Key::I64(7),
        Key::U128(u128::MAX), Key::U128(3), Key::I128(i128::MIN), Key::I128(5), Key::String(std::sync::Arc::from("owned")),
        Key::Str("borrowed"), Key::Str(""), Key::String(std::sync::Arc::from("é日")), Key::Str("true"), Key::Str("1"),
    ];
    // one key kind x every value kind
    for k in &keys {
        for v in &kinds {
            let mut m = tera::Map::new();
            m.insert(k.clone(), v.clone());
            out.push(Value::from(m));
        }
    }
    // all key kinds in one map (numerically distinct), values of every kind
    let mut m = tera::Map::new();
    for (i, k) in keys.iter().enumerate() {
        m.insert(k.clone(), kinds[i % kinds.len()].clone());
    }
    let all = Value::from(m);
    out.push(all.clone());
    // nested: map in array in map, bool-keyed map as a struct field
    let mut inner = tera::Map::new();
    inner.insert(Key::Bool(true), Value::from("yes"));
    inner.insert(Key::Bool(false), Value::from("no"));
    let mut outer = tera::Map::new();
    outer.insert(Key::Str("labels"), Value::from(inner.clone()));
    outer.insert(Key::Str("list"), Value::from(vec![Value::from(inner.clone()), all.clone(), Value::undefined(), Value::safe_string("<b>"), Value::bytes(vec![0xff, 0x00])]));
    outer.insert(Key::I128(-9), all);
    out.push(Value::from(outer));
    out.push(Value::from(vec![Value::from(inner)]));
    // representation boundaries: long strings (normal and safe), long keys (owned and borrowed),
    // byte strings, sequences of 21/22/255/256/257 elements, maps around the scan cutoffs
    for ls in long_strings() {
        out.push(Value::from(ls.as_str()));
        if ls.len() <= 533 {
            out.push(Value::safe_string(&ls));
            out.push(Value::bytes(ls.clone().into_bytes()));
            let mut m = tera::Map::new();
            m.insert(Key::String(std::sync::Arc::from(ls.as_str())), Value::from(ls.as_str()));
            let leaked: &'static str = Box::leak(format!("{ls}!").into_boxed_str());
            m.insert(Key::Str(leaked), Value::from(true));
            out.push(Value::from(m));
        }
    }
    for n in [21usize, 22, 255, 256, 257] {
        out.push(Value::from((0..n).map(|i| Value::from(i as u64)).collect::<Vec<_>>()));
    }
    for n in [6usize, 7, 12, 13, 33, 256, 257] {
        let mut m = tera::Map::new();
        for i in 0..n {
            match i % 3 {
                0 => m.insert(Key::U64(i as u64), Value::from(i as i64 - 3)),
                1 => m.insert(Key::I64(-(i as i64)), Value::from(format!("v{i}"))),
                _ => m.insert(Key::String(std::sync::Arc::from(format!("k{i}").as_str())), Value::from(i % 2 == 0)),
            };
        }
        out.push(Value::from(m));
    }
    out.extend(kinds);
    out.extend(base.iter().cloned());
    out
}

fn run_ctx<T: Model>(run: &mut Run, v: &T, tname: &str) {
    let r = std::panic::catch_unwind(std::panic::AssertUnwindSafe(|| run_ctx_inner::<T>(run, v, tname)));
    if r.is_err() {
        run.meta.oracle_fail("panic while running or describing a case (run_ctx)", None,
            json!({"type": tname, "value": format!("{v:?}").chars().take(400).collect::<String>()}));
    }
}
fn run_ctx_inner<T: Model>(run: &mut Run, v: &T, tname: &str) {
    let sv = v.sval();
    let fs = guarded(|| Context::from_serialize(v));
    run.meta.oracle_checks += 1;
    if let Outcome::Panic(m) = &fs {
        run.meta.oracle_fail(&format!("panic in from_serialize: {m}"), None, json!({"type": tname, "value": format!("{v:?}")}));
    }
    // what from_serialize stored, read back through the public `get`, in key order
    let listing = match &fs {
        Outcome::Ok(c) => {
            let val = Value::try_from_serializable(v).expect("from_serialize succeeded");
            let mut keys: Vec<String> = val.as_map().map(|m| m.keys().map(|k| k.to_string()).collect()).unwrap_or_default();
            keys.sort();
            keys.dedup();
            let ents: Vec<String> = keys.iter().map(|k| format!("({}, {})", gal_lstr(k), gal_opt(&c.get(k).cloned(), |x| gal_lvalue(x)))).collect();
            // the three construction paths agree
            let mut by_insert = Context::new();
            if v.insert_fields(&mut by_insert) {
                let mut by_value = Context::new();
                for (k, x) in val.as_map().unwrap().iter() {
                    by_value.insert_value(k.to_string(), x.clone());
                }
                let mut by_reinsert = Context::new();
                for (k, x) in val.as_map().unwrap().iter() {
                    by_reinsert.insert(k.to_string(), x);
                }
                if *c != by_insert || *c != by_value || *c != by_reinsert {
                    run.meta.oracle_fail("from_serialize / insert / insert_value build different contexts", None,
                        json!({"type": tname, "value": format!("{v:?}")}));
                }
            }
            format!("(ROk {})", gal_list(ents))
        }
        Outcome::Err(..) => "(RErr ErrMsg)".to_string(),
        Outcome::Panic(_) => "(RErr ErrPanic)".to_string(),
    };
    let g = format!("{{| k_val := {sv}; k_impl := {listing} |}}");
    let desc = json!({"type": tname, "value": format!("{v:?}"), "from_serialize": fs.json(|c| json!(format!("{c:?}")))});
    let ok = matches!(fs, Outcome::Ok(_));
    run.ctx.push(g, jclean(desc), ok && sv.len() > 24, None, &[if ok { "impl:ok" } else { "impl:err" }]);
}

/// boundary values, then `n` generated ones
fn values_of<T: Model>(r: &mut Rng, n: usize) -> Vec<T> {
    let mut v = T::boundary();
    for _ in 0..n {
        v.push(T::arb(r, 0));
    }
    v
}

macro_rules! for_all_types {
    ($mac:ident, $($args:tt)*) => {
        $mac!($($args)*;
            (), bool, u8, u16, u32, u64, u128, usize, i8, i16, i32, i64, i128, isize, f32, f64, char, String,
            Option<u8>, Option<String>, Option<Vec<u8>>, Option<E>, Option<S1>, Option<(u8, i8)>, Option<BTreeMap<String, u8>>,
            Option<Option<u8>>, Option<()>, Option<UnitS>,
            Vec<u8>, Vec<i64>, Vec<String>, Vec<Option<i32>>, Vec<Vec<u16>>, Vec<E>, Vec<(u8, String)>, Vec<f64>,
            (u8,), (i8, String), (u64, bool, char), (Option<u8>, Vec<u8>, (i16, f64), E),
            BTreeMap<String, i32>, BTreeMap<char, String>, BTreeMap<bool, u8>, BTreeMap<UE, Option<u8>>,
            BTreeMap<u8, u8>, BTreeMap<u16, bool>, BTreeMap<u32, char>, BTreeMap<u64, String>, BTreeMap<u128, i8>,
            BTreeMap<i8, u8>, BTreeMap<i16, bool>, BTreeMap<i32, ()>, BTreeMap<i64, Vec<u8>>, BTreeMap<i128, E>,
            BTreeMap<usize, isize>, HashMap<String, i32>, HashMap<u64, String>, HashMap<char, BTreeMap<i8, f32>>,
            BTreeMap<Option<u8>, u8>, BTreeMap<Wrap, u8>, BTreeMap<KE, u8>,
            BTreeMap<FKey, u8>, BTreeMap<(u8, u8), u8>, BTreeMap<KS, u8>, BTreeMap<Vec<u8>, u8>, BTreeMap<(), u8>,
            BTreeMap<String, BTreeMap<(u8, u8), u8>>,
            Empty, S1, Nums, S2, S3, SW, UnitS, Wrap, WrapV, WrapO, TS, UE, E, E2, LongNames, LongVariant,
            BTreeMap<LongVariant, String>, Vec<LongNames>
        )
    };
}

macro_rules! do_rt {
    ($run:expr, $rng:expr, $n:expr; $($t:ty),*) => {
        $( for v in values_of::<$t>($rng, $n) { run_rt::<$t>($run, &v, stringify!($t)); } )*
    };
}
macro_rules! do_ctx {
    ($run:expr, $rng:expr, $n:expr; $($t:ty),*) => {
        $( for v in values_of::<$t>($rng, $n).into_iter().take($n + 2) { run_ctx::<$t>($run, &v, stringify!($t)); } )*
    };
}
macro_rules! do_cross {
    ($run:expr, $rng:expr, $n:expr, $pool:expr, $nums:expr; $($t:ty),*) => {
        $( {
            // numeric targets mostly meet numbers (every representation, every boundary): the
            // width/sign/rounding rules of the acceptance table
            let numeric = { let t = <$t as Model>::ty(); t.starts_with("(TInt") || t.starts_with("(TFloat") };
            let n = if numeric { $n * 4 } else { $n };
            for _ in 0..n {
                let x = if numeric && $rng.chance(5, 6) { $rng.pick($nums).clone() } else { $rng.pick($pool).clone() };
                run_cross::<$t>($run, &x, stringify!($t));
            }
        } )*
    };
}
macro_rules! do_pool {
    ($pool:expr, $rng:expr, $n:expr; $($t:ty),*) => {
        $( for v in values_of::<$t>($rng, $n).into_iter().take($n + 3) { if let Ok(x) = Value::try_from_serializable(&v) { $pool.push(x); } } )*
    };
}
macro_rules! do_int_text {
    ($run:expr; $($t:ty),*) => { $( for v in <$t as Model>::boundary() { oracle_int_text::<$t>($run, &v, stringify!($t)); } )* };
}

/// hand-made values off the diagonal: every kind, odd map keys, wrong arities
fn cross_pool(rng: &mut Rng) -> Vec<Value> {
    use tera::value::Key;
    let mut pool = pools::kind_pool();
    // byte strings: valid UTF-8 (a String accepts them), invalid, empty
    pool.push(Value::bytes("ok\u{e9}\u{65e5}".as_bytes().to_vec()));
    pool.push(Value::bytes(vec![0xc3]));
    pool.push(Value::bytes(Vec::new()));
    pool.push(Value::from(vec![Value::bytes(b"x".to_vec()), Value::bytes(vec![0xff])]));
    // strings, byte strings, keys and sequences at the representation boundaries
    for ls in long_strings() {
        if ls.len() <= 533 || ls.len() == 65536 {
            pool.push(Value::from(ls.as_str()));
        }
    }
    for len in [21usize, 22, 256, 277, 533] {
        pool.push(Value::bytes(long_string(len, 0).into_bytes()));
        pool.push(Value::bytes(long_string(len, 2).into_bytes()));
        let mut m = tera::Map::new();
        m.insert(Key::String(std::sync::Arc::from(long_string(len, 0).as_str())), Value::from(1u8));
        m.insert(Key::String(std::sync::Arc::from(long_string(len + 1, 1).as_str())), Value::from(long_string(len, 0).as_str()));
        pool.push(Value::from(m));
        let mut m = tera::Map::new();
        m.insert(Key::Str("a"), Value::from(5u8));
        m.insert(Key::Str("b"), Value::from(long_string(len, 0).as_str()));
        m.insert(Key::Str("c"), Value::from(long_string(len, 3).as_str()));
        pool.push(Value::from(m));
        pool.push(Value::from((0..len).map(|i| Value::from((i % 200) as u64)).collect::<Vec<_>>()));
        pool.push(Value::from(vec![Value::from(long_string(len, 0).as_str()), Value::from(long_string(len, 1).as_str())]));
    }
    pool.extend(pools::int_values());
    pool.extend(pools::float_pool().into_iter().map(Value::from));
    pool.extend(pools::string_pool().into_iter().map(Value::from));
    for names in [vec!["A"], vec!["B"], vec!["a", "b"], vec!["a", "b", "c"], vec!["x", "y"], vec!["Zeta"], vec!["renamed"], vec!["a", "zz"]] {
        for filler in [Value::from(1u8), Value::none(), Value::from("s"), Value::from(vec![Value::from(1u8), Value::from("s")])] {
            let mut m = tera::Map::new();
            for n in &names {
                m.insert(Key::Str(n), filler.clone());
            }
            pool.push(Value::from(m));
        }
    }
    for k in [Key::U64(0), Key::U64(1), Key::U64(3), Key::I64(0), Key::I64(-1), Key::Bool(true), Key::U128(1), Key::I128(1)] {
        for filler in [Value::from(7u8), Value::none(), Value::from(vec![Value::from(-1i64), Value::from("t")])] {
            let mut m = tera::Map::new();
            m.insert(k.clone(), filler.clone());
            pool.push(Value::from(m.clone()));
            m.insert(Key::Str("a"), filler);
            pool.push(Value::from(m));
        }
    }
    for n in 0..5usize {
        pool.push(Value::from((0..n).map(|i| Value::from(i as u64)).collect::<Vec<_>>()));
        pool.push(Value::from((0..n).map(|i| Value::from(format!("s{i}"))).collect::<Vec<_>>()));
    }
    let n = 3;
    for_all_types!(do_pool, pool, rng, n);
    pool
}

/// Implementation-side oracle over std types whose own Serialize/Deserialize impls decide what
/// reaches the serializer (some consult `is_human_readable`, some are newtype / struct / enum /
/// tuple / sequence shapes with hand-written visitors): converting to a template value and reading
/// back into the same type returns the original, through both deserializer entry points, and the
/// types that serialise as their text form print as that text.
fn foreign_types_oracle(meta: &mut Meta) {
    use std::net::*;
    use std::collections::*;
    fn rt<T: Serialize + DeserializeOwned + PartialEq + Debug>(meta: &mut Meta, tname: &str, v: T, prints: Option<String>) {
        meta.oracle_checks += 1;
        let shown = format!("{v:?}").chars().take(300).collect::<String>();
        let out = guarded(|| {
            let val = Value::try_from_serializable(&v)?;
            let owned = T::deserialize(val.clone()).map_err(|e| tera::Error::message(format!("owned: {e}")))?;
            let byref = T::deserialize(&val).map_err(|e| tera::Error::message(format!("by ref: {e}")))?;
            let mut c = Context::new();
            c.insert("v", &v);
            let text = Tera::default().render_str("{{ v }}", &c, false)?;
            Ok((owned == v, byref == v, text))
        });
        match &out {
            Outcome::Ok((true, true, text)) if prints.as_ref().map(|p| p == text).unwrap_or(true) => {}
            other => meta.oracle_fail("a std type does not survive Rust value -> template value -> same Rust type (or does not print as its text form)", None,
                json!({"type": tname, "value": shown, "expected_print": prints, "got": format!("{other:?}").chars().take(400).collect::<String>()})),
        }
    }
    let v4 = [Ipv4Addr::new(10, 0, 0, 1), Ipv4Addr::UNSPECIFIED, Ipv4Addr::BROADCAST];
    let v6 = [Ipv6Addr::LOCALHOST, Ipv6Addr::UNSPECIFIED, Ipv6Addr::new(0x2001, 0xdb8, 0, 0, 0, 0xff00, 0x42, 0x8329)];
    for a in v4 {
        rt(meta, "Ipv4Addr", a, Some(a.to_string()));
        rt(meta, "IpAddr", IpAddr::V4(a), Some(a.to_string()));
        rt(meta, "SocketAddrV4", SocketAddrV4::new(a, 5432), Some(SocketAddrV4::new(a, 5432).to_string()));
        rt(meta, "SocketAddr", SocketAddr::new(IpAddr::V4(a), 0), Some(SocketAddr::new(IpAddr::V4(a), 0).to_string()));
        rt(meta, "Vec<IpAddr>", vec![IpAddr::V4(a), IpAddr::V6(v6[0])], None);
        rt(meta, "BTreeMap<String, Ipv4Addr>", BTreeMap::from([("gw".to_string(), a)]), None);
        rt(meta, "Option<IpAddr>", Some(IpAddr::V4(a)), Some(a.to_string()));
    }
    for a in v6 {
        rt(meta, "Ipv6Addr", a, Some(a.to_string()));
        rt(meta, "IpAddr", IpAddr::V6(a), Some(a.to_string()));
        rt(meta, "SocketAddrV6", SocketAddrV6::new(a, 443, 0, 0), Some(SocketAddrV6::new(a, 443, 0, 0).to_string()));
        rt(meta, "(IpAddr, u16)", (IpAddr::V6(a), 65535u16), None);
    }
    #[derive(Serialize, Deserialize, PartialEq, Debug, Clone)]
    struct Host { name: String, port: u16, addr: IpAddr, gateway: Ipv4Addr, peers: Vec<SocketAddr> }
    rt(meta, "struct Host", Host { name: "db-1".into(), port: 5432, addr: IpAddr::V6(v6[0]), gateway: v4[0], peers: vec![SocketAddr::new(IpAddr::V4(v4[0]), 5432)] }, None);
    // data-model corners with hand-written impls in serde
    rt(meta, "Duration", std::time::Duration::new(u64::MAX, 999_999_999), None);
    rt(meta, "Duration", std::time::Duration::ZERO, None);
    rt(meta, "Range<i64>", i64::MIN..i64::MAX, None);
    rt(meta, "RangeInclusive<u8>", 0u8..=255u8, None);
    rt(meta, "Bound<i32>", std::ops::Bound::Included(-1i32), None);
    rt(meta, "Bound<i32>", std::ops::Bound::<i32>::Unbounded, None);
    rt(meta, "Result<u8, String>", Ok::<u8, String>(7), None);
    rt(meta, "Result<u8, String>", Err::<u8, String>("bad".into()), None);
    rt(meta, "Wrapping<i128>", std::num::Wrapping(i128::MIN), Some(i128::MIN.to_string()));
    rt(meta, "Reverse<u64>", std::cmp::Reverse(u64::MAX), Some(u64::MAX.to_string()));
    rt(meta, "NonZeroU128", std::num::NonZeroU128::new(u128::MAX).unwrap(), Some(u128::MAX.to_string()));
    rt(meta, "NonZeroI8", std::num::NonZeroI8::new(-128).unwrap(), Some("-128".into()));
    rt(meta, "[u8; 4]", [0u8, 127, 128, 255], None);
    rt(meta, "[i64; 0]", [0i64; 0], None);
    rt(meta, "Box<str>", Box::<str>::from("bøx"), Some("bøx".into()));
    rt(meta, "PathBuf", std::path::PathBuf::from("a/b é.txt"), Some("a/b é.txt".into()));
    rt(meta, "BTreeSet<i16>", BTreeSet::from([i16::MIN, 0, i16::MAX]), None);
    rt(meta, "VecDeque<String>", VecDeque::from(["x".to_string(), String::new()]), None);
    rt(meta, "LinkedList<bool>", LinkedList::from([true, false]), None);
    rt(meta, "BinaryHeap as Vec", BinaryHeap::from([3u8, 1, 2]).into_sorted_vec(), None);
    rt(meta, "HashSet<char>", HashSet::from(['é', '日']), None);
    rt(meta, "PhantomData", std::marker::PhantomData::<u8>, None);
    rt(meta, "Cell<u32>", std::cell::Cell::new(u32::MAX), Some(u32::MAX.to_string()));
    rt(meta, "f64 -0.0 bits", (-0.0f64).to_bits(), None);
    // floats keep their bit pattern (sign of zero included); untagged enums pick the variant the data has
    for f in [-0.0f64, 0.0, 3.0, -3.0, 1e300, f64::MIN_POSITIVE, 9007199254740993.0, -9223372036854775808.0] {
        meta.oracle_checks += 1;
        let out = guarded(|| {
            let val = Value::try_from_serializable(&f)?;
            let a = f64::deserialize(val.clone()).map_err(|e| tera::Error::message(e.to_string()))?;
            let b = f64::deserialize(&val).map_err(|e| tera::Error::message(e.to_string()))?;
            Ok((a.to_bits(), b.to_bits()))
        });
        if !matches!(&out, Outcome::Ok((a, b)) if *a == f.to_bits() && *b == f.to_bits()) {
            meta.oracle_fail("an f64 does not come back with the same bit pattern", None, json!({"value": format!("{f:?}"), "bits": f.to_bits(), "got": format!("{out:?}")}));
        }
    }
    #[derive(Serialize, Deserialize, PartialEq, Debug, Clone)]
    #[serde(untagged)]
    enum Amount { Units(i64), Ratio(f64), Label(String) }
    #[derive(Serialize, Deserialize, PartialEq, Debug, Clone)]
    #[serde(untagged)]
    enum Wide { Small(u8), Big(u64), Neg(i64), Text(String) }
    for a in [Amount::Ratio(3.0), Amount::Ratio(-0.5), Amount::Units(3), Amount::Units(i64::MIN), Amount::Label("3".into()), Amount::Ratio(1e19)] {
        rt(meta, "untagged enum Amount{Units(i64),Ratio(f64),Label(String)}", a, None);
    }
    // (128-bit variants are left out: serde's buffering for untagged enums has no 128-bit integers, whatever the deserializer)
    for w in [Wide::Small(255), Wide::Big(256), Wide::Big(u64::MAX), Wide::Neg(-1), Wide::Neg(i64::MIN), Wide::Text("255".into())] {
        rt(meta, "untagged enum Wide{Small(u8),Big(u64),Neg(i64),Text(String)}", w, None);
    }
}

fn main() {
    let args = parse_args();
    if std::env::var("C19_LOUD").is_err() {
        silence_panics();
    }
    let tera = Tera::default();
    let mut rng = Rng::new(args.seed);
    let thorough = args.tier == "thorough";
    let hdr = "From TeraV Require Import Model.Value Model.Serde Corr.CorrC19.";
    let mut run = Run {
        tera: &tera,
        rt: Sink::new(&args.out, "rt", hdr, "check_rt"),
        cross: Sink::new(&args.out, "cross", hdr, "check_cross"),
        ctx: Sink::new(&args.out, "ctx", hdr, "check_ctx"),
        reser: Sink::new(&args.out, "reser", hdr, "check_reser"),
        meta: Meta::default(),
        oracle_only: 0,
    };
    // cases with 64 KiB strings are heavy for coqc: small shards spread them over the workers
    run.rt.shard_cap_set(100);
    run.reser.shard_cap_set(120);
    run.ctx.shard_cap_set(100);

    // corpus: the inputs of D7 / D14 and the excluded option-in-option class, always first
    run_rt::<Option<u8>>(&mut run, &Some(3), "Option<u8>");
    run_rt::<E>(&mut run, &E::A, "E");
    run_rt::<E>(&mut run, &E::B(1), "E");
    run_rt::<Wrap>(&mut run, &Wrap(3), "Wrap");
    run_rt::<WrapV>(&mut run, &WrapV(vec![vec![]]), "WrapV");
    run_rt::<Option<Option<u8>>>(&mut run, &Some(None), "Option<Option<u8>>");
    run_rt::<Option<()>>(&mut run, &Some(()), "Option<()>");
    run_rt::<u64>(&mut run, &u64::MAX, "u64");
    run_rt::<BTreeMap<FKey, u8>>(&mut run, &BTreeMap::from([(FKey(1.5), 1)]), "BTreeMap<FKey, u8>");

    let n_rt = if thorough { 500 } else { 22 };
    for_all_types!(do_rt, &mut run, &mut rng, n_rt);

    for ls in long_strings() {
        oracle_string_ctor(&mut run, &ls);
    }
    if thorough {
        // every byte length 0..=600, ASCII and with a multi-byte character across byte 21|22
        for len in 0..=600usize {
            for variant in [0u32, 1 + (len % 3) as u32] {
                let ls = long_string(len, variant);
                oracle_string_ctor(&mut run, &ls);
                run_rt::<String>(&mut run, &ls, "String");
                run_reser(&mut run, &Value::from(ls.as_str()));
            }
            if len % 8 == 0 {
                run_rt::<BTreeMap<String, String>>(&mut run, &BTreeMap::from([(long_string(len, 0), long_string(len + 1, 0))]), "BTreeMap<String, String>");
            }
        }
    }

    do_int_text!(&mut run; u8, u16, u32, u64, u128, usize, i8, i16, i32, i64, i128, isize);

    let pool = cross_pool(&mut rng);
    let mut nums = pools::int_values();
    nums.extend(pools::float_pool().into_iter().map(Value::from));
    for k in [8u32, 16, 24, 32, 53, 64] {
        for d in [-1i128, 0, 1] {
            nums.push(Value::from(((1i128 << k) + d) as u64));
            nums.push(Value::from(-((1i128 << (k - 1)) + d) as i64));
        }
    }
    let n_cross = if thorough { 110 } else { 8 };
    for_all_types!(do_cross, &mut run, &mut rng, n_cross, &pool, &nums);

    // every Value of the pools (converted values of all types + hand-made) through serde again
    let rp = reser_pool(&pool);
    let n_reser = if thorough { rp.len() } else { rp.len().min(900) };
    for (i, x) in rp.iter().enumerate() {
        if i < 320 || thorough || i % ((rp.len() / n_reser).max(1)) == 0 {
            run_reser(&mut run, x);
        }
    }

    let n_ctx = if thorough { 30 } else { 3 };
    for_all_types!(do_ctx, &mut run, &mut rng, n_ctx);

    let Run { rt, cross, ctx, reser, mut meta, oracle_only, .. } = run;
    meta.oracle_failures = std::mem::take(&mut meta.oracle_failures).into_iter().map(jclean).collect();
    for what in INVALID_UTF8.lock().unwrap().iter() {
        meta.oracle_fail("a string held by a Value / returned by deserialize is not valid UTF-8", None, json!({"string": what}));
    }
    foreign_types_oracle(&mut meta);
    meta.extra.insert("oracle_only_evaluations".into(), json!(oracle_only));
    meta.extra.insert("oracle_only_nontrivial".into(), json!(oracle_only));
    meta.extra.insert("cross_pool_size".into(), json!(pool.len()));
    meta.families.push(rt.finish());
    meta.families.push(cross.finish());
    meta.families.push(ctx.finish());
    meta.families.push(reser.finish());
    meta.write(&args.out);
}
