//! C06 — registering any source text ends in Ok or Err.
//! Runtime oracle: every input is registered (`add_raw_template`) and rendered one-off
//! (`render_str`) in a CHILD process (this binary, sub-command `child`), once on a thread with a
//! 2 MiB stack and once on the main thread (8 MiB, `ulimit -s 8192`), under a per-input time
//! limit. Exit by signal, a panic, or a timeout is a violation with that input.
//! Family `skel`: token lists of the skeleton grammar of coq/Model/ParseDepth.v printed as real
//! template text; accept/reject and observed AST depths vs the model.
use serde_json::{Value as J, json};
use std::io::Write as _;
use std::path::{Path, PathBuf};
use std::sync::atomic::{AtomicU64, Ordering};
use std::time::{Duration, Instant};
use tera::{Context, Delimiters, Tera};
use tvh::*;

#[path = "../c06_gen.rs"]
mod c06_gen;
use c06_gen::*;

// ------------------------------------------------------------------ child side

static STARTED_AT_MS: AtomicU64 = AtomicU64::new(0);
static CUR_ID: AtomicU64 = AtomicU64::new(u64::MAX);
static PANICS: std::sync::Mutex<Vec<String>> = std::sync::Mutex::new(Vec::new());
static PER_INPUT_LIMIT_MS: AtomicU64 = AtomicU64::new(30_000);

fn now_ms(t0: Instant) -> u64 {
    t0.elapsed().as_millis() as u64 + 1
}

fn mk_delims(d: &[String]) -> Delimiters {
    Delimiters {
        block_start: d[0].clone().into(),
        block_end: d[1].clone().into(),
        variable_start: d[2].clone().into(),
        variable_end: d[3].clone().into(),
        comment_start: d[4].clone().into(),
        comment_end: d[5].clone().into(),
    }
}

fn class_of<T>(r: std::thread::Result<Result<T, tera::Error>>) -> String {
    match r {
        Ok(Ok(_)) => "ok".into(),
        Ok(Err(e)) => {
            // an error value must also be displayable: `{}`, `{:?}` and every link of source()
            let shown = std::panic::catch_unwind(std::panic::AssertUnwindSafe(|| {
                let mut n = format!("{e}").len() + format!("{e:?}").len() + format!("{e:#?}").len();
                let mut src = std::error::Error::source(&e);
                let mut hops = 0;
                while let Some(x) = src {
                    n += format!("{x}").len() + format!("{x:?}").len();
                    src = x.source();
                    hops += 1;
                    if hops > 64 {
                        break;
                    }
                }
                n
            }));
            match shown {
                Ok(_) => format!("err:{}", err_class(&e)),
                Err(_) => "panic:while displaying the error".into(),
            }
        }
        Err(p) => {
            let msg = if let Some(s) = p.downcast_ref::<String>() {
                s.clone()
            } else if let Some(s) = p.downcast_ref::<&str>() {
                s.to_string()
            } else {
                "?".into()
            };
            format!("panic:{msg}")
        }
    }
}

fn paren_depth(s: &str) -> usize {
    let (mut d, mut m) = (0usize, 0usize);
    for c in s.chars() {
        if c == '(' {
            d += 1;
            m = m.max(d);
        } else if c == ')' {
            d = d.saturating_sub(1);
        }
    }
    m
}

/// nesting depth of statement nodes in the `{:#?}` of the parser output: a top-level node sits
/// at indentation 8, each nesting (struct field + vec element) adds 8.
fn node_depth(dbg: &str) -> usize {
    let mut m = 0;
    for line in dbg.lines() {
        let t = line.trim_start();
        if ["If {", "ForLoop {", "Block {", "FilterSection {", "BlockSet {", "Set {"].iter().any(|p| t.starts_with(p)) {
            let ind = line.len() - t.len();
            m = m.max(ind / 8);
        }
    }
    m
}

fn run_one(inp: &J) -> J {
    let src = inp["src"].as_str().unwrap_or("");
    let name = inp["name"].as_str().unwrap_or("t");
    let mut tera = Tera::default();
    let mut delims = Delimiters::default();
    let mut dres = "-".to_string();
    if let Some(d) = inp["d"].as_array() {
        let d: Vec<String> = d.iter().map(|x| x.as_str().unwrap_or("").to_string()).collect();
        let dl = mk_delims(&d);
        let r = std::panic::catch_unwind(std::panic::AssertUnwindSafe(|| tera.set_delimiters(dl.clone())));
        if matches!(r, Ok(Ok(_))) {
            delims = dl;
        }
        dres = class_of(r);
    }
    let reg = class_of(std::panic::catch_unwind(std::panic::AssertUnwindSafe(|| {
        match inp["set"].as_array() {
            // registered together with other templates (parents, include targets)
            Some(set) => {
                let mut all: Vec<(String, String)> = set
                    .iter()
                    .map(|p| (p[0].as_str().unwrap_or("").to_string(), p[1].as_str().unwrap_or("").to_string()))
                    .collect();
                all.push((name.to_string(), src.to_string()));
                tera.add_raw_templates(all)
            }
            None => tera.add_raw_template(name, src),
        }
    })));
    let ren = class_of(std::panic::catch_unwind(std::panic::AssertUnwindSafe(|| {
        tera.render_str(src, &Context::new(), true)
    })));
    let mut out = json!({"d": dres, "reg": reg, "ren": ren});
    if inp["hooks"].as_bool() == Some(true) {
        // stage-level observation through the tera_verif hooks (small skeleton inputs only)
        let pe = std::panic::catch_unwind(std::panic::AssertUnwindSafe(|| {
            tera::verif::parse_expr_display(src, delims.clone())
        }));
        match pe {
            Ok(Ok(v)) => {
                out["parse"] = json!("ok");
                out["edepth"] = json!(v.iter().map(|(s, _)| paren_depth(s)).max().unwrap_or(0));
                let pd = std::panic::catch_unwind(std::panic::AssertUnwindSafe(|| {
                    tera::verif::parse_debug(src, delims.clone())
                }));
                if let Ok(Ok(s)) = pd {
                    out["ndepth"] = json!(node_depth(&s));
                } else {
                    out["parse"] = json!("panic:parse_debug");
                }
            }
            Ok(Err(e)) => out["parse"] = json!(format!("err:{}", err_class(&e))),
            Err(_) => out["parse"] = json!("panic:parse hook"),
        }
    }
    out
}

fn child_main(args: &[String]) {
    let (inputs, results, mode) = (&args[0], &args[1], args[2].as_str());
    if let Some(ms) = args.get(3).and_then(|x| x.parse::<u64>().ok()) {
        PER_INPUT_LIMIT_MS.store(ms, Ordering::SeqCst);
    }
    let t0 = Instant::now();
    std::panic::set_hook(Box::new(|info| {
        if let Ok(mut p) = PANICS.lock() {
            if p.len() < 4 {
                p.push(format!("{info}"));
            }
        }
    }));
    let mut res = std::fs::OpenOptions::new().create(true).append(true).open(results).expect("results");
    // watchdog: a hang is reported as `T <id>` and the process exits with 3
    {
        let results = results.clone();
        std::thread::spawn(move || {
            loop {
                std::thread::sleep(Duration::from_millis(100));
                let st = STARTED_AT_MS.load(Ordering::SeqCst);
                if st != 0 && now_ms(t0) > st + PER_INPUT_LIMIT_MS.load(Ordering::SeqCst) {
                    let id = CUR_ID.load(Ordering::SeqCst);
                    if let Ok(mut f) = std::fs::OpenOptions::new().append(true).open(&results) {
                        let _ = writeln!(f, "T {id}");
                    }
                    std::process::exit(3);
                }
            }
        });
    }
    let text = std::fs::read_to_string(inputs).expect("inputs");
    for line in text.lines() {
        let inp: J = match serde_json::from_str(line) {
            Ok(j) => j,
            Err(_) => continue,
        };
        let id = inp["id"].as_u64().unwrap();
        CUR_ID.store(id, Ordering::SeqCst);
        STARTED_AT_MS.store(now_ms(t0), Ordering::SeqCst);
        writeln!(res, "S {id}").unwrap();
        PANICS.lock().unwrap().clear();
        let out = if mode == "thread" {
            let inp2 = inp.clone();
            let h = std::thread::Builder::new().stack_size(2 << 20).spawn(move || run_one(&inp2)).expect("spawn");
            match h.join() {
                Ok(o) => o,
                Err(_) => json!({"reg": "panic:escaped catch_unwind", "ren": "-", "d": "-"}),
            }
        } else {
            run_one(&inp)
        };
        let elapsed = now_ms(t0).saturating_sub(STARTED_AT_MS.load(Ordering::SeqCst));
        STARTED_AT_MS.store(0, Ordering::SeqCst);
        let mut out = out;
        out["ms"] = json!(elapsed);
        let hooked = PANICS.lock().unwrap().clone();
        if !hooked.is_empty() {
            out["hook"] = json!(hooked);
        }
        writeln!(res, "D {id} {out}").unwrap();
    }
    writeln!(res, "E").unwrap();
}

// ------------------------------------------------------------------ parent side

#[derive(Clone, Debug)]
pub enum ChildRes {
    Done(J),
    /// the child died while this input was being processed
    Crashed(String),
    /// no result within `limit_ms`; `confirmed`: neither when run again ALONE within `confirm_ms`
    Timeout { limit_ms: u64, confirm_ms: u64, confirmed: bool },
    NotRun,
    /// not scheduled: the run was stopped (three confirmed hangs, or the harness deadline)
    Skipped,
}

/// How long the whole harness may run before it stops scheduling and writes what it has (the
/// driver's own limit, cfg harness_timeout = 2400 s, is never reached), how many confirmed hangs
/// end the run, and the per-input limit of the first pass.
pub struct RunCtx {
    pub deadline: Instant,
    pub hangs: std::sync::atomic::AtomicUsize,
    pub stopped_by_deadline: std::sync::atomic::AtomicBool,
    pub first_limit_ms: u64,
}
const MAX_CONFIRMED_HANGS: usize = 3;

impl RunCtx {
    pub fn new(secs: u64) -> Self {
        RunCtx {
            deadline: Instant::now() + Duration::from_secs(secs),
            hangs: std::sync::atomic::AtomicUsize::new(0),
            stopped_by_deadline: std::sync::atomic::AtomicBool::new(false),
            first_limit_ms: 20_000,
        }
    }
    fn stop(&self) -> bool {
        if Instant::now() > self.deadline {
            self.stopped_by_deadline.store(true, Ordering::SeqCst);
            return true;
        }
        self.hangs.load(Ordering::SeqCst) >= MAX_CONFIRMED_HANGS
    }
}

/// One child process over `inputs[pos..end]`; returns (results by absolute index, culprit, how, timed_out).
fn one_child(dir: &Path, tag: &str, inputs: &[J], pos: usize, end: usize, mode: &str, limit_ms: u64, hard_deadline: Instant,
             out: &mut Vec<ChildRes>) -> (bool, Option<usize>, String, bool) {
    let exe = std::env::current_exe().expect("exe");
    let inf = dir.join(format!("child_{tag}_{mode}_{pos}.in"));
    let ouf = dir.join(format!("child_{tag}_{mode}_{pos}.out"));
    {
        let mut f = std::io::BufWriter::new(std::fs::File::create(&inf).expect("in"));
        for (k, inp) in inputs[pos..end].iter().enumerate() {
            let mut j = inp.clone();
            j["id"] = json!(pos + k);
            writeln!(f, "{j}").unwrap();
        }
    }
    let _ = std::fs::remove_file(&ouf);
    let cmd = format!(
        "ulimit -s 8192; exec '{}' child '{}' '{}' {} {}",
        exe.display(), inf.display(), ouf.display(), mode, limit_ms
    );
    let mut ch = std::process::Command::new("sh")
        .arg("-c")
        .arg(&cmd)
        .stdout(std::process::Stdio::null())
        .stderr(std::process::Stdio::null())
        .spawn()
        .expect("spawn child");
    let status = loop {
        match ch.try_wait() {
            Ok(Some(st)) => break Some(st),
            Ok(None) => {
                if Instant::now() > hard_deadline {
                    let _ = ch.kill();
                    let _ = ch.wait();
                    break None;
                }
                std::thread::sleep(Duration::from_millis(15));
            }
            Err(_) => break None,
        }
    };
    let text = std::fs::read_to_string(&ouf).unwrap_or_default();
    let mut last_started: Option<usize> = None;
    let mut finished_all = false;
    let mut timed_out: Option<usize> = None;
    for line in text.lines() {
        if let Some(r) = line.strip_prefix("S ") {
            last_started = r.trim().parse().ok();
        } else if let Some(r) = line.strip_prefix("D ") {
            let mut it = r.splitn(2, ' ');
            let id: usize = it.next().unwrap().parse().unwrap_or(usize::MAX);
            if let (true, Some(js)) = (id < out.len(), it.next()) {
                out[id] = ChildRes::Done(serde_json::from_str(js).unwrap_or(J::Null));
                if last_started == Some(id) {
                    last_started = None;
                }
            }
        } else if let Some(r) = line.strip_prefix("T ") {
            timed_out = r.trim().parse().ok();
        } else if line == "E" {
            finished_all = true;
        }
    }
    let _ = std::fs::remove_file(&inf);
    let _ = std::fs::remove_file(&ouf);
    let how = match status {
        Some(st) => {
            use std::os::unix::process::ExitStatusExt;
            match (st.signal(), st.code()) {
                (Some(s), _) => format!("killed by signal {s}"),
                (None, Some(c)) => format!("exit code {c}"),
                _ => "unknown".into(),
            }
        }
        None => "killed by the parent (deadline)".into(),
    };
    (finished_all, timed_out.or(last_started), how, timed_out.is_some() || status.is_none())
}

/// the time the inputs next to `i` needed on this very run (median of up to 50 finished neighbours)
fn neighbour_median_ms(out: &[ChildRes], i: usize) -> u64 {
    let lo = i.saturating_sub(50);
    let mut v: Vec<u64> = out[lo..i].iter().filter_map(|r| if let ChildRes::Done(j) = r { j["ms"].as_u64() } else { None }).collect();
    if v.is_empty() {
        return 0;
    }
    v.sort();
    v[v.len() / 2]
}

/// Runs all inputs through child processes in `mode` ("thread" | "main"); a crash or hang is
/// attributed to the input that was started and not finished, and a fresh child continues
/// with the inputs after it. An input without a result within the first-pass limit is run again
/// ALONE (to rule out load) with 20 x the median time of its neighbours (at least 10 s, at most
/// 60 s); if it does not finish then either, it is a confirmed hang. After three confirmed
/// hangs, or at the harness deadline, nothing more is scheduled.
fn run_children(ctx: &RunCtx, dir: &Path, tag: &str, inputs: &[J], mode: &str) -> Vec<ChildRes> {
    let mut out = vec![ChildRes::NotRun; inputs.len()];
    let mut pos = 0usize;
    const BATCH: usize = 4000;
    while pos < inputs.len() {
        if ctx.stop() {
            for r in out[pos..].iter_mut() {
                *r = ChildRes::Skipped;
            }
            break;
        }
        let end = (pos + BATCH).min(inputs.len());
        let (finished_all, culprit, how, was_timeout) =
            one_child(dir, tag, inputs, pos, end, mode, ctx.first_limit_ms, ctx.deadline + Duration::from_secs(30), &mut out);
        if finished_all {
            pos = end;
            continue;
        }
        match culprit {
            Some(id) if id < out.len() => {
                if was_timeout {
                    if Instant::now() > ctx.deadline {
                        // no time left to confirm: reported as a SUSPECTED hang
                        out[id] = ChildRes::Timeout { limit_ms: ctx.first_limit_ms, confirm_ms: 0, confirmed: false };
                    } else {
                        let confirm_ms = (20 * neighbour_median_ms(&out, id)).clamp(10_000, 60_000);
                        let mut single = vec![ChildRes::NotRun; inputs.len()];
                        let (fin, _c, how2, to2) = one_child(dir, &format!("{tag}-confirm"), inputs, id, id + 1, mode, confirm_ms,
                            Instant::now() + Duration::from_millis(confirm_ms + 20_000), &mut single);
                        if fin {
                            out[id] = single[id].clone();
                        } else if to2 {
                            out[id] = ChildRes::Timeout { limit_ms: ctx.first_limit_ms, confirm_ms, confirmed: true };
                            ctx.hangs.fetch_add(1, Ordering::SeqCst);
                        } else {
                            out[id] = ChildRes::Crashed(how2);
                        }
                    }
                } else {
                    out[id] = ChildRes::Crashed(how);
                }
                pos = id + 1;
            }
            _ => {
                // died outside any input (should not happen): skip this batch, marked NotRun
                pos = end;
            }
        }
    }
    out
}

fn res_json(r: &ChildRes) -> J {
    match r {
        ChildRes::Done(j) => j.clone(),
        ChildRes::Crashed(h) => json!({"crashed": h}),
        ChildRes::Timeout { limit_ms, confirm_ms, confirmed } =>
            json!({"timeout": true, "first_pass_limit_ms": limit_ms, "alone_limit_ms": confirm_ms, "confirmed_alone": confirmed}),
        ChildRes::NotRun => json!({"not_run": true}),
        ChildRes::Skipped => json!({"skipped": true}),
    }
}

fn is_bad(r: &ChildRes) -> Option<String> {
    match r {
        ChildRes::Done(j) => {
            for k in ["d", "reg", "ren", "parse"] {
                if let Some(s) = j[k].as_str() {
                    if s.starts_with("panic") {
                        return Some(format!("panic in {k}: {s}"));
                    }
                }
            }
            if j.get("hook").is_some() {
                return Some(format!("panic hook fired: {}", j["hook"]));
            }
            None
        }
        ChildRes::Crashed(h) => Some(format!("child process died ({h})")),
        ChildRes::Timeout { limit_ms, confirm_ms, confirmed: true } =>
            Some(format!("hang: no result within {limit_ms} ms, nor within {confirm_ms} ms when run again alone")),
        ChildRes::Timeout { limit_ms, .. } =>
            Some(format!("suspected hang (UNCONFIRMED: the harness deadline was reached before it could be run again alone): no result within {limit_ms} ms")),
        ChildRes::NotRun => Some("input could not be run (child died outside any input)".into()),
        ChildRes::Skipped => None,
    }
}

fn short(s: &str) -> J {
    if s.len() <= 400 {
        json!(s)
    } else {
        let mut a = 200;
        while !s.is_char_boundary(a) {
            a -= 1;
        }
        let mut b = s.len() - 100;
        while !s.is_char_boundary(b) {
            b += 1;
        }
        json!({"len": s.len(), "head": &s[..a], "tail": &s[b..]})
    }
}

// ------------------------------------------------------------------ main

fn main() {
    let argv: Vec<String> = std::env::args().collect();
    if argv.get(1).map(|s| s.as_str()) == Some("child") {
        child_main(&argv[2..]);
        return;
    }
    if argv.get(1).map(|s| s.as_str()) == Some("threshold") {
        // `c06 threshold <kind> <mode> <hi>`: smallest n (by bisection) whose registration kills the child
        let (kind, mode) = (argv[2].as_str(), argv[3].as_str());
        let mut hi: usize = argv[4].parse().expect("hi");
        let dir = std::env::temp_dir().join(format!("c06-thr-{}", std::process::id()));
        std::fs::create_dir_all(&dir).unwrap();
        let crashes = |n: usize| -> bool {
            let src = build_recipe(&json!({"kind": kind, "n": n}));
            let res = run_children(&RunCtx::new(3600), &dir, "thr", &[json!({"name": "t", "src": src})], mode);
            !matches!(res[0], ChildRes::Done(_))
        };
        if !crashes(hi) {
            println!("{kind} {mode}: no crash up to n={hi}");
        } else {
            let mut lo = 0usize;
            while hi - lo > 1 {
                let mid = (lo + hi) / 2;
                if crashes(mid) { hi = mid } else { lo = mid }
            }
            println!("{kind} {mode}: first crash at n={hi}");
        }
        let _ = std::fs::remove_dir_all(&dir);
        return;
    }
    if argv.get(1).map(|s| s.as_str()) == Some("probe") {
        probe_main(&argv[2..]);
        return;
    }
    if argv.get(1).map(|s| s.as_str()) == Some("slices") {
        // `c06 slices <quick|thorough> <seed> <out-dir>`: the `slices` family alone (its own seed stream)
        silence_panics();
        let out = PathBuf::from(&argv[4]);
        std::fs::create_dir_all(&out).expect("mkdir");
        let mut meta = Meta::default();
        push_slices(&mut Rng::new(argv[3].parse().expect("seed")), argv[2] == "thorough", &out, &mut meta);
        println!("{}", json!({"families": meta.families, "oracle_failures": meta.oracle_failures.len()}));
        meta.write(&out);
        return;
    }
    let args = parse_args();
    silence_panics();
    let thorough = args.tier == "thorough";
    let mut rng = Rng::new(args.seed);
    let mut meta = Meta::default();
    std::fs::create_dir_all(&args.out).expect("mkdir");

    if let Some(rp) = &args.replay {
        replay(rp, &args.out);
        return;
    }

    // ---------------- runtime oracle
    let inputs = oracle_inputs(&mut rng, thorough);
    let js: Vec<J> = inputs.iter().map(|i| i.json()).collect();
    let mut stream_counts: std::collections::BTreeMap<String, usize> = Default::default();
    for i in &inputs {
        *stream_counts.entry(i.stream.to_string()).or_default() += 1;
    }
    let mut outcome_counts: std::collections::BTreeMap<String, usize> = Default::default();
    let mut nontrivial = 0usize;
    let mut bad_seen: std::collections::BTreeMap<String, usize> = Default::default();
    let mut skipped = 0usize;
    // internal deadline, well below the driver's harness_timeout (2400 s): at that point nothing more is
    // scheduled and what has been observed is written out
    let ctx = RunCtx::new(if thorough { 1800 } else { 780 });
    // the two stack configurations (and the skeleton family) run in parallel child processes
    let n_skel = if thorough { 6000 } else { 1200 };
    let cases = skel_cases(&mut rng, n_skel);
    let sj: Vec<J> = cases.iter().map(|c| json!({"name": "t", "src": c.text, "hooks": true})).collect();
    let (res_thread, res_main, res_skel) = std::thread::scope(|sc| {
        let a = sc.spawn(|| run_children(&ctx, &args.out, "oracle", &js, "thread"));
        let b = sc.spawn(|| run_children(&ctx, &args.out, "oracle", &js, "main"));
        let c = sc.spawn(|| run_children(&ctx, &args.out, "skel", &sj, "thread"));
        (a.join().expect("thread run"), b.join().expect("main run"), c.join().expect("skel run"))
    });
    for (mode, res) in [("thread", res_thread), ("main", res_main)] {
        for (inp, r) in inputs.iter().zip(res.iter()) {
            if matches!(r, ChildRes::Skipped) {
                skipped += 1;
                continue;
            }
            meta.oracle_checks += 1;
            if let ChildRes::Done(j) = r {
                let key = format!("{}:{}", mode, j["reg"].as_str().unwrap_or("?").split(':').take(2).collect::<Vec<_>>().join(":"));
                *outcome_counts.entry(key).or_default() += 1;
                if mode == "thread" && inp.src.len() >= 8 {
                    nontrivial += 1;
                }
                // delimiter sets that must be rejected / accepted
                if let Some(expect_ok) = inp.delims_valid {
                    let got_ok = j["d"].as_str() == Some("ok");
                    if got_ok != expect_ok {
                        meta.oracle_fail(
                            if expect_ok { "set_delimiters rejected a valid delimiter set" } else { "set_delimiters accepted an invalid delimiter set" },
                            None,
                            json!({"delimiters": inp.delims, "result": j["d"]}),
                        );
                    }
                }
            }
            if let Some(what) = is_bad(r) {
                let k = format!("{}|{}", inp.class, what.split(':').next().unwrap_or(""));
                let n = bad_seen.entry(k).or_default();
                *n += 1;
                if *n <= 2 {
                    meta.oracle_fail(
                        &format!("registration did not end in Ok or Err: {what} [{} stack]", if mode == "thread" { "2 MiB thread" } else { "8 MiB main-thread" }),
                        inp.kf(),
                        json!({"class": inp.class, "stream": inp.stream, "name": short(&inp.name), "delimiters": inp.delims, "set": inp.set,
                               "source": short(&inp.src), "recipe": inp.recipe, "mode": mode, "result": res_json(r)}),
                    );
                }
            }
        }
    }
    meta.extra.insert("oracle_streams".into(), json!(stream_counts));
    meta.extra.insert("oracle_outcomes".into(), json!(outcome_counts));
    meta.extra.insert("oracle_only_evaluations".into(), json!(inputs.len() * 2 - skipped));
    meta.extra.insert("oracle_only_nontrivial".into(), json!(nontrivial));
    meta.extra.insert("bad_outcome_classes".into(), json!(bad_seen));
    meta.extra.insert("confirmed_hangs".into(), json!(ctx.hangs.load(Ordering::SeqCst)));
    meta.extra.insert("stopped_at_harness_deadline".into(), json!(ctx.stopped_by_deadline.load(Ordering::SeqCst)));

    // ---------------- model-side correspondence on the skeleton grammar
    let hdr = "From TeraV Require Import Model.ParseDepth Corr.CorrC06.";
    let mut sink = Sink::new(&args.out, "skel", hdr, "check_skel");
    let res = res_skel;
    for (c, r) in cases.iter().zip(res.iter()) {
        if matches!(r, ChildRes::Skipped) {
            skipped += 1;
            continue;
        }
        meta.oracle_checks += 1;
        if let Some(what) = is_bad(r) {
            meta.oracle_fail(&format!("registration did not end in Ok or Err: {what}"), None,
                json!({"class": "skel", "source": short(&c.text), "result": res_json(r)}));
            continue;
        }
        let ChildRes::Done(j) = r else { continue };
        let ok = j["parse"].as_str() == Some("ok");
        let ed = j["edepth"].as_u64().unwrap_or(0);
        let nd = j["ndepth"].as_u64().unwrap_or(0);
        let g = format!(
            "{{| k_toks := {}; k_ok := {}; k_edepth := {}; k_ndepth := {} |}}",
            gal_toks(&c.toks), gal_bool(ok), ed, nd
        );
        let desc = json!({"source": c.text, "tokens": c.toks.len(), "impl": {"parse": j["parse"], "expr_paren_depth": ed, "node_depth": nd},
                          "kind": c.kind});
        let nontriv = c.toks.len() >= 8;
        sink.push(g, desc, nontriv, None, &[c.kind, if ok { "accepted" } else { "rejected" }]);
    }
    meta.extra.insert("inputs_not_scheduled_after_stop".into(), json!(skipped));
    meta.families.push(sink.finish());
    // ---------------- the lexer's slicing sites (drawn last: the streams above keep their seeds)
    push_slices(&mut rng, thorough, &args.out, &mut meta);
    meta.write(&args.out);
}

// ------------------------------------------------------------------ family slices: where the lexer cuts

const SLICE_MB: [&str; 5] = ["é", "日", "😀", "\u{a0}", "\u{301}"];

fn gal_dl(d: &[String]) -> String {
    format!(
        "(mkDelims {} {} {} {} {} {})",
        gal_bytes(d[0].as_bytes()), gal_bytes(d[1].as_bytes()), gal_bytes(d[2].as_bytes()),
        gal_bytes(d[3].as_bytes()), gal_bytes(d[4].as_bytes()), gal_bytes(d[5].as_bytes())
    )
}

/// Token byte ranges of the raw lexer run, or the error class. The hook's error carries no source:
/// it is never formatted.
fn real_ranges(d: &[String], src: &str) -> Outcome<Vec<(usize, usize)>> {
    let r = guarded(|| match tera::verif::lex(src, mk_delims(d), false) {
        Ok(v) => Ok(Ok(v.into_iter().map(|(_, sp)| (sp.range.start, sp.range.end)).collect::<Vec<_>>())),
        Err(e) => Ok(Err(err_class(&e))),
    });
    match r {
        Outcome::Ok(Ok(v)) => Outcome::Ok(v),
        Outcome::Ok(Err(c)) => Outcome::Err(c, "lexer error".into()),
        Outcome::Err(c, m) => Outcome::Err(c, m),
        Outcome::Panic(m) => Outcome::Panic(m),
    }
}

fn push_slice_case(sink: &mut Sink, meta: &mut Meta, d: &[String], src: &str, tag: &str) {
    let r = real_ranges(d, src);
    let g = format!(
        "{{| s_dl := {}; s_src := {}; s_impl := {} |}}",
        gal_dl(d),
        gal_bytes(src.as_bytes()),
        r.gal(|v| format!("[{}]", v.iter().map(|(a, b)| format!("rg {a} {b}")).collect::<Vec<_>>().join("; ")))
    );
    let desc = json!({"op": "lex-slices", "delimiters": d, "source": src,
        "impl": r.json(|v| json!(v.iter().map(|(a, b)| format!("{a}..{b}")).collect::<Vec<_>>()))});
    meta.oracle_checks += 1;
    match &r {
        Outcome::Panic(m) => meta.oracle_fail(&format!("panic in lexer: {m}"), None, desc.clone()),
        Outcome::Ok(v) => {
            if v.iter().any(|&(a, b)| !(a <= b && b <= src.len() && src.is_char_boundary(a) && src.is_char_boundary(b))) {
                meta.oracle_fail("token range outside the source or not on a character boundary", None, desc.clone());
            }
        }
        _ => {}
    }
    let mb = !src.is_ascii();
    let nontrivial = mb && match &r { Outcome::Ok(v) => v.len() >= 3, _ => true };
    let res = match &r { Outcome::Ok(_) => "impl:ok", Outcome::Err(..) => "impl:err", Outcome::Panic(_) => "impl:panic" };
    let dk = if d.iter().all(|s| s.is_ascii()) { "ascii-delimiters" } else { "2-byte-character-delimiters" };
    sink.push(g, desc, nontrivial, None, &[tag, res, dk, if mb { "multi-byte" } else { "ascii" }]);
}

/// Every kind of lexer step spelled in the delimiters `d`, with multi-byte characters where a cut
/// could land inside one: (kind, text).
fn slice_items(d: &[String]) -> Vec<(&'static str, String)> {
    let (bs, be, vs, ve, cs, ce) = (&d[0], &d[1], &d[2], &d[3], &d[4], &d[5]);
    let mut v: Vec<(&'static str, String)> = Vec::new();
    for t in ["a", "é", "日本", " é ", "\u{a0}x", "-", "x-", "😀", "a\nb", "\u{2028}", "e\u{301}"] {
        v.push(("text", t.to_string()));
    }
    let exprs = [
        "a", "a.b", "é", "\"é\"", "'日'~`😀`", "\"\\é\"", "\"a\\\"é\"", "\"é", "'é\\", "1.5", "12", "99999999999999999999", "1.2.3", "...",
        "a//b", "a?.b", "a ?[ 0 ]", "a|f(x=\"ü\")", "ident_é", "-1", "{\"k\": 'é'}", "\"\\n\\t\"", "\"\\", "a b", "", "9é", "_é", "\"日\"é",
    ];
    for e in exprs {
        for (m1, w1, w2, m2) in [("", " ", " ", ""), ("-", "", "", "-"), ("-", "\n\t ", " ", ""), ("", "", " ", "-")] {
            v.push(("var", format!("{vs}{m1}{w1}{e}{w2}{m2}{ve}")));
        }
    }
    for e in ["if a", "set x = \"é\"", "é", "endif", "for é in 日"] {
        for (m1, m2) in [("", ""), ("-", "-")] {
            v.push(("tag", format!("{bs}{m1} {e} {m2}{be}")));
        }
    }
    let bodies = ["".to_string(), "é".into(), " 日 ".into(), format!("{bs} x"), format!("é{bs}é"), format!("{vs}é{ve}"), "😀-".into(),
                  format!("{bs}-é"), format!("{bs} endraw é{be}")];
    for b in &bodies {
        for (m1, m2, m3, m4) in [("", "", "", ""), ("-", "-", "-", "-"), ("", "-", "-", "")] {
            v.push(("raw", format!("{bs}{m1} raw {m2}{be}{b}{bs}{m3} endraw {m4}{be}")));
        }
        v.push(("raw-open", format!("{bs} raw {be}{b}")));
        v.push(("raw-open", format!("{bs} raw {be}{b}{bs} endraw")));
    }
    for b in ["", "é", " é ", "日", "-", "😀", "é-"] {
        for (m1, m2) in [("", ""), ("-", "-"), ("-", "")] {
            v.push(("comment", format!("{cs}{m1}{b}{m2}{ce}")));
        }
        v.push(("comment-open", format!("{cs}{b}")));
    }
    v.push(("comment", format!("{cs}{vs}é{ce}")));
    v
}

fn push_slices(rng: &mut Rng, thorough: bool, out: &Path, meta: &mut Meta) {
    let hdr = "From TeraV Require Import Model.Value Model.Lexer Corr.CorrC06Lex.";
    let mut sink = Sink::new(out, "slices", hdr, "check_slices");
    // the accepted delimiter sets of the oracle pool: 2 bytes each, distinct start delimiters
    let sets: Vec<Vec<String>> = delimiter_sets()
        .into_iter()
        .filter(|(d, ok)| *ok && d.iter().all(|s| s.len() == 2) && d[0] != d[2] && d[0] != d[4] && d[2] != d[4])
        .map(|(d, _)| d)
        .chain([
            // ASCII and 2-byte-character delimiters mixed; `é` / `è` also occur in the texts and share their lead byte
            ["÷", "×", "{{", "}}", "é", "è"].iter().map(|s| s.to_string()).collect::<Vec<_>>(),
            // 2-byte characters sharing the lead byte C2 with NBSP (a White_Space character trimmed next to `-`)
            ["§", "¶", "«", "»", "¿", "¡"].iter().map(|s| s.to_string()).collect::<Vec<_>>(),
        ])
        .collect();
    let (n_sweep, n_docs, n_pref) = if thorough { (usize::MAX, 110, 7) } else { (12, 14, 1) };
    for d in &sets {
        let items = slice_items(d);
        // 1. one item with a multi-byte character directly before and after it (every kind in thorough,
        //    a seeded sample in quick)
        let mut k = 0;
        for (kind, it) in &items {
            if n_sweep != usize::MAX && !rng.chance(n_sweep as u64, items.len() as u64) {
                continue;
            }
            let mb = SLICE_MB[k % SLICE_MB.len()];
            k += 1;
            push_slice_case(&mut sink, meta, d, &format!("{mb}{it}{mb}"), kind);
            if thorough {
                push_slice_case(&mut sink, meta, d, it, kind);
            }
        }
        // 2. random documents of 1..5 items, a multi-byte character between two items every other time
        let mut docs: Vec<String> = Vec::new();
        for _ in 0..n_docs {
            let n = 1 + rng.below(5);
            let mut s = String::new();
            for _ in 0..n {
                if rng.chance(1, 2) {
                    s.push_str(*rng.pick(&SLICE_MB[..]));
                }
                s.push_str(&rng.pick(&items).1);
            }
            if rng.chance(1, 3) {
                s.push_str(*rng.pick(&SLICE_MB[..]));
            }
            push_slice_case(&mut sink, meta, d, &s, "doc");
            docs.push(s);
        }
        // 3. every character prefix of some of them (unterminated strings, tags, comments, raw blocks)
        for s in docs.iter().take(n_pref) {
            for (i, _) in s.char_indices().skip(1) {
                push_slice_case(&mut sink, meta, d, &s[..i], "prefix");
            }
        }
    }
    meta.families.push(sink.finish());
}

fn replay(rp: &PathBuf, out: &Path) {
    let r: J = serde_json::from_str(&std::fs::read_to_string(rp).expect("replay file")).expect("json");
    let inp = if r.get("input").is_some() { r["input"].clone() } else if r.get("case").is_some() { r["case"].clone() } else { r.clone() };
    if inp["op"].as_str() == Some("lex-slices") {
        let d: Vec<String> = inp["delimiters"].as_array().map(|a| a.iter().map(|x| x.as_str().unwrap_or("").to_string()).collect()).unwrap_or_default();
        let src = inp["source"].as_str().unwrap_or("");
        silence_panics();
        println!("token ranges: {}", real_ranges(&d, src).json(|v| json!(v.iter().map(|(a, b)| format!("{a}..{b}")).collect::<Vec<_>>())));
        return;
    }
    let src = if let Some(rc) = inp.get("recipe").filter(|x| !x.is_null()) {
        build_recipe(rc)
    } else if let Some(s) = inp["source"].as_str() {
        s.to_string()
    } else {
        println!("replay: no source/recipe in file");
        return;
    };
    let name = inp["name"].as_str().unwrap_or("t").to_string();
    let mut j = json!({"name": name, "src": src});
    if inp.get("delimiters").map_or(false, |d| d.is_array()) {
        j["d"] = inp["delimiters"].clone();
    }
    if inp.get("set").map_or(false, |d| d.is_array() && !d.as_array().unwrap().is_empty()) {
        j["set"] = inp["set"].clone();
    }
    std::fs::create_dir_all(out).ok();
    for mode in ["thread", "main"] {
        let res = run_children(&RunCtx::new(3600), out, "replay", &[j.clone()], mode);
        println!("{mode}: {}", res_json(&res[0]));
    }
}

/// `c06 probe <kind> <n> [mode]`: one generated input in a child; prints the outcome (used to
/// measure thresholds by hand).
fn probe_main(a: &[String]) {
    let kind = a[0].as_str();
    let n: usize = a[1].parse().expect("n");
    let mode = a.get(2).map(|s| s.as_str()).unwrap_or("thread");
    let src = build_recipe(&json!({"kind": kind, "n": n}));
    let dir = std::env::temp_dir().join(format!("c06-probe-{}", std::process::id()));
    std::fs::create_dir_all(&dir).unwrap();
    let res = run_children(&RunCtx::new(3600), &dir, "probe", &[json!({"name": "t", "src": src})], mode);
    println!("{kind} n={n} len={} {mode}: {}", src.len(), res_json(&res[0]));
    let _ = std::fs::remove_dir_all(&dir);
}
