//! C08 — literal text and whitespace control. Families:
//!   lex    : tera::verif::lex(src, delimiters, filtered) — every token with its span, before and
//!            after the whitespace filter — vs Model.Lexer.lex_spanned / lex_filtered_spanned
//!   render : Tera::render_str (delimiters set on the instance) of `print dl doc` for documents
//!            with inert expressions vs Spec.Doc.spec_render and vs the model pipeline
//!   delims : Tera::set_delimiters on a fresh instance vs Model.Lexer.validate
//! Implementation-side oracles: no panic; spans inside the source on character boundaries; a
//! source without a start delimiter renders to itself; re-spelling a document with another
//! delimiter set renders the same bytes.
use serde_json::json;
use tera::{Context, Delimiters, Tera};
use tvh::*;

// ---------------------------------------------------------------- delimiter sets

#[derive(Clone, Debug, PartialEq)]
struct Dl {
    bs: String,
    be: String,
    vs: String,
    ve: String,
    cs: String,
    ce: String,
}

impl Dl {
    fn new(bs: &str, be: &str, vs: &str, ve: &str, cs: &str, ce: &str) -> Dl {
        Dl { bs: bs.into(), be: be.into(), vs: vs.into(), ve: ve.into(), cs: cs.into(), ce: ce.into() }
    }
    fn tera(&self) -> Delimiters {
        Delimiters {
            block_start: self.bs.clone().into(),
            block_end: self.be.clone().into(),
            variable_start: self.vs.clone().into(),
            variable_end: self.ve.clone().into(),
            comment_start: self.cs.clone().into(),
            comment_end: self.ce.clone().into(),
        }
    }
    fn gal(&self) -> String {
        format!(
            "(mkDelims {} {} {} {} {} {})",
            gal_bytes(self.bs.as_bytes()),
            gal_bytes(self.be.as_bytes()),
            gal_bytes(self.vs.as_bytes()),
            gal_bytes(self.ve.as_bytes()),
            gal_bytes(self.cs.as_bytes()),
            gal_bytes(self.ce.as_bytes())
        )
    }
    fn json(&self) -> serde_json::Value {
        json!([self.bs, self.be, self.vs, self.ve, self.cs, self.ce])
    }
    fn from_json(j: &serde_json::Value) -> Dl {
        let a: Vec<String> = j.as_array().unwrap().iter().map(|x| x.as_str().unwrap().to_string()).collect();
        Dl::new(&a[0], &a[1], &a[2], &a[3], &a[4], &a[5])
    }
}

/// Accepted sets: default, ASCII variants, sets containing `-`, quotes, `<`, letters, dots, blanks, equal start
/// and end delimiters, single 2-byte characters (sharing the lead byte C2 with NBSP / U+0085).
fn delimiter_sets() -> Vec<Dl> {
    vec![
        Dl::new("{%", "%}", "{{", "}}", "{#", "#}"),
        Dl::new("<%", "%>", "<<", ">>", "<#", "#>"),
        Dl::new("[%", "%]", "[[", "]]", "[#", "#]"),
        Dl::new("{-", "-}", "(-", "-)", "#-", "-#"),
        Dl::new("'{", "}'", "\"{", "}\"", "`{", "}`"),
        Dl::new("<?", "?>", "<=", "=>", "<!", "!>"),
        Dl::new("§", "¶", "«", "»", "¿", "¡"),
        Dl::new("÷", "×", "{{", "}}", "é", "è"),
        Dl::new("$[", "]$", "$(", ")$", "$#", "#$"),
        Dl::new("%%", "%%", "@@", "@@", "##", "##"),
        Dl::new("b(", ")b", "v(", ")v", "c(", ")c"),
        Dl::new(":%", "%;", "::", ";;", ":#", "#;"),
        Dl::new("-%", "%-", "-{", "}-", "-#", "#-"),
        // dots (a number token swallows the first byte of `.}`) and end delimiters that start
        // with a blank (never found inside a tag: whitespace is skipped before the end test)
        Dl::new("{.", ".}", "{:", ":}", "{;", ";}"),
        Dl::new("{%", " }", "{{", " ]", "{#", " )"),
    ]
}

// ---------------------------------------------------------------- documents

#[derive(Clone, Debug, PartialEq)]
enum Item {
    Text(String),
    Comment(bool, String, bool),
    Raw(bool, bool, String, bool, bool),
    /// marker, source, marker, what it prints
    Expr(bool, String, bool, String),
    Tag(bool, String, bool),
}

fn mk(b: bool) -> &'static str {
    if b { "-" } else { "" }
}

fn print_item(dl: &Dl, it: &Item) -> String {
    match it {
        Item::Text(s) => s.clone(),
        Item::Comment(l, b, r) => format!("{}{}{}{}{}", dl.cs, mk(*l), b, mk(*r), dl.ce),
        Item::Raw(l, il, b, ir, r) => format!(
            "{}{} raw {}{}{}{}{} endraw {}{}",
            dl.bs, mk(*l), mk(*il), dl.be, b, dl.bs, mk(*ir), mk(*r), dl.be
        ),
        Item::Expr(l, s, r, _) => format!("{}{}{}{}{}", dl.vs, mk(*l), s, mk(*r), dl.ve),
        Item::Tag(l, s, r) => format!("{}{}{}{}{}", dl.bs, mk(*l), s, mk(*r), dl.be),
    }
}

fn print_doc(dl: &Dl, doc: &[Item]) -> String {
    doc.iter().map(|i| print_item(dl, i)).collect()
}

fn gal_item(it: &Item) -> String {
    match it {
        Item::Text(s) => format!("Text {}", gal_bytes(s.as_bytes())),
        Item::Comment(l, b, r) => format!("Comment {} {} {}", gal_bool(*l), gal_bytes(b.as_bytes()), gal_bool(*r)),
        Item::Raw(l, il, b, ir, r) => format!(
            "Raw {} {} {} {} {}",
            gal_bool(*l), gal_bool(*il), gal_bytes(b.as_bytes()), gal_bool(*ir), gal_bool(*r)
        ),
        Item::Expr(l, s, r, _) => format!("Expr {} {} {}", gal_bool(*l), gal_bytes(s.as_bytes()), gal_bool(*r)),
        Item::Tag(l, s, r) => format!("Tag {} {} {}", gal_bool(*l), gal_bytes(s.as_bytes()), gal_bool(*r)),
    }
}

fn gal_doc(doc: &[Item]) -> String {
    format!("[{}]", doc.iter().map(gal_item).collect::<Vec<_>>().join("; "))
}

fn json_doc(doc: &[Item]) -> serde_json::Value {
    json!(doc.iter().map(|it| match it {
        Item::Text(s) => json!({"text": s}),
        Item::Comment(l, b, r) => json!({"comment": [l, b, r]}),
        Item::Raw(l, il, b, ir, r) => json!({"raw": [l, il, b, ir, r]}),
        Item::Expr(l, s, r, o) => json!({"expr": [l, s, r, o]}),
        Item::Tag(l, s, r) => json!({"tag": [l, s, r]}),
    }).collect::<Vec<_>>())
}

fn doc_from_json(j: &serde_json::Value) -> Vec<Item> {
    let b = |x: &serde_json::Value| x.as_bool().unwrap();
    let s = |x: &serde_json::Value| x.as_str().unwrap().to_string();
    j.as_array().unwrap().iter().map(|it| {
        let o = it.as_object().unwrap();
        if let Some(t) = o.get("text") { return Item::Text(s(t)); }
        if let Some(a) = o.get("comment") { return Item::Comment(b(&a[0]), s(&a[1]), b(&a[2])); }
        if let Some(a) = o.get("raw") { return Item::Raw(b(&a[0]), b(&a[1]), s(&a[2]), b(&a[3]), b(&a[4])); }
        if let Some(a) = o.get("expr") { return Item::Expr(b(&a[0]), s(&a[1]), b(&a[2]), s(&a[3])); }
        let a = o.get("tag").expect("item kind");
        Item::Tag(b(&a[0]), s(&a[1]), b(&a[2]))
    }).collect()
}

// ---------------------------------------------------------------- tokens of the real lexer

/// Rust `{:?}` of a str, undone. Input starts at the opening quote; returns (bytes, rest after
/// the closing quote).
fn unescape_debug(s: &str) -> Option<(Vec<u8>, &str)> {
    let mut out = String::new();
    let mut it = s.char_indices();
    if it.next()?.1 != '"' {
        return None;
    }
    while let Some((i, c)) = it.next() {
        match c {
            '"' => return Some((out.into_bytes(), &s[i + 1..])),
            '\\' => {
                let (_, e) = it.next()?;
                match e {
                    'n' => out.push('\n'),
                    'r' => out.push('\r'),
                    't' => out.push('\t'),
                    '0' => out.push('\0'),
                    '\\' => out.push('\\'),
                    '"' => out.push('"'),
                    '\'' => out.push('\''),
                    'u' => {
                        if it.next()?.1 != '{' {
                            return None;
                        }
                        let mut hex = String::new();
                        loop {
                            let (_, h) = it.next()?;
                            if h == '}' {
                                break;
                            }
                            hex.push(h);
                        }
                        out.push(char::from_u32(u32::from_str_radix(&hex, 16).ok()?)?);
                    }
                    _ => return None,
                }
            }
            _ => out.push(c),
        }
    }
    None
}

#[derive(Clone, Debug, PartialEq)]
enum TokK {
    Content(Vec<u8>),
    Raw(bool, Vec<u8>, bool),
    VarStart(bool),
    VarEnd(bool),
    TagStart(bool),
    TagEnd(bool),
    Comment(bool, bool),
    Other(String), // Gallina term
}

fn pbool(s: &str) -> Option<bool> {
    match s {
        "true" => Some(true),
        "false" => Some(false),
        _ => None,
    }
}

/// Debug text of a token (+ its source slice, used for floats) -> token.
fn parse_tok(dbg: &str, slice: &str) -> Option<TokK> {
    let inner = |name: &str| -> Option<&str> {
        dbg.strip_prefix(name).and_then(|r| r.strip_prefix('(')).and_then(|r| r.strip_suffix(')'))
    };
    if let Some(r) = inner("CONTENT") {
        let (b, rest) = unescape_debug(r)?;
        return if rest.is_empty() { Some(TokK::Content(b)) } else { None };
    }
    if let Some(r) = inner("RAW_CONTENT") {
        let (l, r2) = r.split_once(", ")?;
        let (b, rest) = unescape_debug(r2)?;
        let e = rest.strip_prefix(", ")?;
        return Some(TokK::Raw(pbool(l)?, b, pbool(e)?));
    }
    if let Some(r) = inner("VARIABLE_START") { return Some(TokK::VarStart(pbool(r)?)); }
    if let Some(r) = inner("VARIABLE_END") { return Some(TokK::VarEnd(pbool(r)?)); }
    if let Some(r) = inner("TAG_START") { return Some(TokK::TagStart(pbool(r)?)); }
    if let Some(r) = inner("TAG_END") { return Some(TokK::TagEnd(pbool(r)?)); }
    if let Some(r) = inner("COMMENT") {
        let (a, b) = r.split_once(", ")?;
        return Some(TokK::Comment(pbool(a)?, pbool(b)?));
    }
    if let Some(r) = inner("IDENT") { return Some(TokK::Other(format!("TIdent {}", gal_bytes(r.as_bytes())))); }
    if let Some(r) = inner("STRING") {
        let (b, rest) = unescape_debug(r)?;
        return if rest.is_empty() { Some(TokK::Other(format!("TString {}", gal_bytes(&b)))) } else { None };
    }
    if let Some(r) = inner("INTEGER") { return Some(TokK::Other(format!("TInteger {}", gal_z(r.parse::<i128>().ok()?)))); }
    if inner("FLOAT").is_some() { return Some(TokK::Other(format!("TFloat {}", gal_bytes(slice.as_bytes())))); }
    if let Some(r) = inner("BOOL") { return Some(TokK::Other(format!("TBool {}", gal_bool(pbool(r)?)))); }
    let op = match dbg {
        "PLUS" => "OPlus", "MINUS" => "OMinus", "MUL" => "OMul", "DIV" => "ODiv", "FLOORDIV" => "OFloorDiv",
        "POWER" => "OPower", "MOD" => "OMod", "BANG" => "OBang", "DOT" => "ODot",
        "QUESTION_MARK_DOT" => "OQDot", "QUESTION_MARK_LEFT_BRACKET" => "OQLBracket", "COMMA" => "OComma",
        "COLON" => "OColon", "TILDE" => "OTilde", "ASSIGN" => "OAssign", "PIPE" => "OPipe", "EQ" => "OEq",
        "NE" => "ONe", "GT" => "OGt", "GTE" => "OGte", "LT" => "OLt", "CLOSING_TAG_START" => "OClosingTagStart",
        "LTE" => "OLte", "LEFT_BRACKET" => "OLBracket", "RIGHT_BRACKET" => "ORBracket", "LEFT_PAREN" => "OLParen",
        "RIGHT_PAREN" => "ORParen", "LEFT_BRACE" => "OLBrace", "RIGHT_BRACE" => "ORBrace", "SPREAD" => "OSpread",
        _ => return None,
    };
    Some(TokK::Other(format!("TOp {op}")))
}

fn gal_tok(t: &TokK) -> String {
    match t {
        TokK::Content(b) => format!("TContent {}", gal_bytes(b)),
        TokK::Raw(l, b, r) => format!("TRaw {} {} {}", gal_bool(*l), gal_bytes(b), gal_bool(*r)),
        TokK::VarStart(b) => format!("TVarStart {}", gal_bool(*b)),
        TokK::VarEnd(b) => format!("TVarEnd {}", gal_bool(*b)),
        TokK::TagStart(b) => format!("TTagStart {}", gal_bool(*b)),
        TokK::TagEnd(b) => format!("TTagEnd {}", gal_bool(*b)),
        TokK::Comment(a, b) => format!("TComment {} {}", gal_bool(*a), gal_bool(*b)),
        TokK::Other(g) => g.clone(),
    }
}

type Toks = Vec<(TokK, tera::Span)>;

fn real_lex(src: &str, dl: &Dl, filtered: bool) -> Outcome<Toks> {
    // The error of the hook carries no template source, and `Display` of such an error indexes the
    // (empty) source by line: never format it, keep its class only.
    let r = guarded(|| {
        let v = match tera::verif::lex(src, dl.tera(), filtered) {
            Ok(v) => v,
            Err(e) => return Ok(Err(err_class(&e))),
        };
        let mut out = Vec::new();
        for (d, sp) in v {
            let slice = src.get(sp.range.clone()).unwrap_or("");
            match parse_tok(&d, slice) {
                Some(t) => out.push((t, sp)),
                None => panic!("harness cannot read token debug text {d:?}"),
            }
        }
        Ok(Ok(out))
    });
    match r {
        Outcome::Ok(Ok(t)) => Outcome::Ok(t),
        Outcome::Ok(Err(c)) => Outcome::Err(c, "lexer error".into()),
        Outcome::Err(c, m) => Outcome::Err(c, m),
        Outcome::Panic(m) => Outcome::Panic(m),
    }
}

fn gal_toks(t: &Toks) -> String {
    let parts: Vec<String> = t
        .iter()
        .map(|(k, sp)| {
            format!(
                "({}, sp_ {} {} {} {} {} {})",
                gal_tok(k), sp.start_line, sp.start_col, sp.range.start, sp.end_line, sp.end_col, sp.range.end
            )
        })
        .collect();
    format!("[{}]", parts.join("; "))
}

fn json_toks(t: &Toks) -> serde_json::Value {
    json!(t.iter().map(|(k, sp)| format!("{} @{}..{}", gal_tok(k), sp.range.start, sp.range.end)).collect::<Vec<_>>())
}

// ---------------------------------------------------------------- family lex

/// D6 shape at token level: a token that raises the carried flag, then comments without a closing
/// `-`, then content or a raw body that starts with White_Space.
fn d6_tokens(toks: &Toks) -> bool {
    for i in 0..toks.len() {
        let raises = matches!(&toks[i].0, TokK::VarEnd(true) | TokK::TagEnd(true) | TokK::Raw(_, _, true) | TokK::Comment(_, true));
        if !raises {
            continue;
        }
        let mut j = i + 1;
        while j < toks.len() && matches!(&toks[j].0, TokK::Comment(_, false)) {
            j += 1;
        }
        if j > i + 1 && j < toks.len() {
            if let TokK::Content(b) | TokK::Raw(_, b, _) = &toks[j].0 {
                let s = String::from_utf8_lossy(b);
                if s.trim_start() != s {
                    return true;
                }
            }
        }
    }
    false
}

fn push_lex(sink: &mut Sink, meta: &mut Meta, dl: &Dl, src: &str, filtered: bool, tag: &str) {
    let r = real_lex(src, dl, filtered);
    let kf = if filtered {
        match real_lex(src, dl, false) {
            Outcome::Ok(t) if d6_tokens(&t) => Some("ws:trim-carried-across-comment"),
            _ => None,
        }
    } else {
        None
    };
    let g = format!(
        "{{| x_dl := {}; x_src := {}; x_filtered := {}; x_impl := {} |}}",
        dl.gal(), gal_bytes(src.as_bytes()), gal_bool(filtered), r.gal(gal_toks)
    );
    let desc = json!({"op": "lex", "delimiters": dl.json(), "src": src, "filtered": filtered, "impl": r.json(json_toks)});
    meta.oracle_checks += 1;
    match &r {
        Outcome::Panic(m) => meta.oracle_fail(&format!("panic in lexer: {m}"), None, desc.clone()),
        Outcome::Ok(toks) => {
            for (_, sp) in toks {
                let ok = sp.range.start <= sp.range.end
                    && sp.range.end <= src.len()
                    && src.is_char_boundary(sp.range.start)
                    && src.is_char_boundary(sp.range.end);
                if !ok {
                    meta.oracle_fail("token span outside the source or not on a character boundary", None, desc.clone());
                    break;
                }
            }
        }
        _ => {}
    }
    let nontrivial = match &r {
        Outcome::Ok(t) => t.len() >= 3 && t.iter().any(|(k, _)| !matches!(k, TokK::Content(_) | TokK::Other(_))),
        _ => false,
    };
    let res = match &r { Outcome::Ok(_) => "impl:ok", Outcome::Err(..) => "impl:err", Outcome::Panic(_) => "impl:panic" };
    let f = if filtered { "filtered" } else { "raw" };
    sink.push(g, desc, nontrivial, kf, &[tag, res, f]);
}

// ---------------------------------------------------------------- family render

/// Does the real lexer cut `print dl doc` at the item boundaries, with the same kinds and outer
/// markers? (Documents for which it does not are outside the property's "delimiters do not occur
/// in text" side condition; they still go through the lex family.)
fn reads_back(dl: &Dl, doc: &[Item], src: &str) -> bool {
    if doc.windows(2).any(|w| matches!((&w[0], &w[1]), (Item::Text(_), Item::Text(_)))) {
        return false;
    }
    if doc.iter().any(|i| matches!(i, Item::Text(s) if s.is_empty())) {
        return false;
    }
    let toks = match real_lex(src, dl, false) {
        Outcome::Ok(t) => t,
        _ => return false,
    };
    // template-level tokens with byte ranges; Start..End pairs merged
    let mut got: Vec<(String, usize, usize)> = Vec::new();
    let mut open: Option<(String, usize)> = None;
    for (k, sp) in &toks {
        match k {
            TokK::Content(_) => got.push(("text".into(), sp.range.start, sp.range.end)),
            TokK::Comment(l, r) => got.push((format!("comment {l} {r}"), sp.range.start, sp.range.end)),
            TokK::Raw(l, _, r) => got.push((format!("raw {l} {r}"), sp.range.start, sp.range.end)),
            TokK::VarStart(l) => open = Some((format!("expr {l}"), sp.range.start)),
            TokK::TagStart(l) => open = Some((format!("tag {l}"), sp.range.start)),
            TokK::VarEnd(r) | TokK::TagEnd(r) => match open.take() {
                Some((n, s)) => got.push((format!("{n} {r}"), s, sp.range.end)),
                None => return false,
            },
            TokK::Other(_) => {}
        }
    }
    if open.is_some() {
        return false;
    }
    let mut want = Vec::new();
    let mut pos = 0;
    for it in doc {
        let len = print_item(dl, it).len();
        let name = match it {
            Item::Text(_) => "text".to_string(),
            Item::Comment(l, _, r) => format!("comment {l} {r}"),
            Item::Raw(l, _, _, _, r) => format!("raw {l} {r}"),
            Item::Expr(l, _, r, _) => format!("expr {l} {r}"),
            Item::Tag(l, _, r) => format!("tag {l} {r}"),
        };
        want.push((name, pos, pos + len));
        pos += len;
    }
    got == want
}

/// D6 shape: an item ending in `-`, then comments none of which restores adjacency, then text or
/// a raw body that starts with whitespace.
fn d6_shape(doc: &[Item]) -> bool {
    for i in 0..doc.len() {
        let ends_dash = match &doc[i] {
            Item::Comment(_, _, r) | Item::Raw(_, _, _, _, r) | Item::Expr(_, _, r, _) | Item::Tag(_, _, r) => *r,
            _ => false,
        };
        if !ends_dash {
            continue;
        }
        let mut j = i + 1;
        let mut crossed = false;
        while j < doc.len() {
            match &doc[j] {
                Item::Comment(_, _, false) => { crossed = true; j += 1; }
                _ => break,
            }
        }
        if crossed && j < doc.len() {
            match &doc[j] {
                Item::Text(s) | Item::Raw(_, _, s, _, _) if s.trim_start() != s => return true,
                _ => {}
            }
        }
    }
    false
}

static NOT_READING_BACK: std::sync::atomic::AtomicUsize = std::sync::atomic::AtomicUsize::new(0);

struct Renderers {
    sets: Vec<(Dl, Tera)>,
}

impl Renderers {
    fn new(sets: &[Dl]) -> Renderers {
        Renderers {
            sets: sets.iter().map(|d| {
                let mut t = Tera::default();
                t.set_delimiters(d.tera()).expect("accepted delimiter set");
                (d.clone(), t)
            }).collect(),
        }
    }
    fn render(&self, dl: &Dl, src: &str) -> Outcome<String> {
        let t = &self.sets.iter().find(|(d, _)| d == dl).expect("known set").1;
        guarded(|| t.render_str(src, &Context::new(), false))
    }
}

/// Returns true if the case was pushed (document reads back).
fn push_render(sink: &mut Sink, meta: &mut Meta, rs: &Renderers, dl: &Dl, doc: &[Item], tag: &str) -> bool {
    let src = print_doc(dl, doc);
    if !reads_back(dl, doc, &src) {
        NOT_READING_BACK.fetch_add(1, std::sync::atomic::Ordering::Relaxed);
        return false;
    }
    let r = rs.render(dl, &src);
    let outs: Vec<String> = doc.iter().filter_map(|i| if let Item::Expr(_, _, _, o) = i { Some(gal_bytes(o.as_bytes())) } else { None }).collect();
    let g = format!(
        "{{| r_dl := {}; r_doc := {}; r_outs := [{}]; r_impl := {} |}}",
        dl.gal(), gal_doc(doc), outs.join("; "), r.gal(|s| gal_bytes(s.as_bytes()))
    );
    let desc = json!({"op": "render", "delimiters": dl.json(), "doc": json_doc(doc), "src": src, "impl": r.json(|s| json!(s))});
    meta.oracle_checks += 1;
    if let Outcome::Panic(m) = &r {
        meta.oracle_fail(&format!("panic while rendering: {m}"), None, desc.clone());
    }
    let markers = doc.iter().any(|i| match i {
        Item::Text(_) => false,
        Item::Comment(l, _, r) | Item::Expr(l, _, r, _) | Item::Tag(l, _, r) => *l || *r,
        Item::Raw(l, il, _, ir, r) => *l || *il || *ir || *r,
    });
    let nontrivial = doc.len() >= 2 && markers;
    let kf = if d6_shape(doc) { Some("ws:trim-carried-across-comment") } else { None };
    let n = format!("items:{}", doc.len().min(9));
    sink.push(g, desc, nontrivial, kf, &[tag, &n]);
    true
}

// ---------------------------------------------------------------- pools

const WS: &[&str] = &[" ", "\n", "\t", "\u{a0}", "\u{2028}", "\u{3000}", "\u{85}", "\u{b}", "\u{c}", "\r\n", "\u{1680}", "\u{2003}", "\u{202f}", "\u{205f}", "\u{2029}"];

fn text_pool(dl: &Dl) -> Vec<String> {
    let mut v: Vec<String> = vec![
        "a".into(), " ".into(), "  b  ".into(), "\n".into(), " \n c\n ".into(), "\u{a0}x\u{3000}".into(),
        "\u{2028}y\u{85}".into(), "{".into(), "%}".into(), "}}".into(), "{\u{e9}".into(), "{ {".into(),
        " - ".into(), "-".into(), "\u{e9}\u{e8}".into(), "\u{c2}\u{e2}".into(), "\u{ab}".into(), "\u{a7}x".into(),
        " \u{bb} ".into(), "\u{200b} z".into(), "\u{feff}".into(), " \u{1680}\u{2003}w\u{202f}\u{205f}\u{2029}".into(),
        "日本 ".into(), " 😀".into(), "\u{b}\u{c}v\u{b}".into(), "#".into(), "\"".into(), "'".into(), "raw".into(),
        " endraw ".into(),
    ];
    // halves of the delimiters in use, alone and next to multi-byte characters
    for d in [&dl.bs, &dl.be, &dl.vs, &dl.ve, &dl.cs, &dl.ce] {
        let cs: Vec<char> = d.chars().collect();
        if cs.len() == 2 {
            v.push(cs[0].to_string());
            v.push(format!(" {}", cs[1]));
            v.push(format!("{}\u{e9}", cs[0]));
            v.push(format!("{} {}", cs[0], cs[1]));
        } else {
            // one 2-byte character: characters sharing its lead byte or its continuation byte
            let b = d.as_bytes();
            let same_lead = [b[0], if b[1] == 0xbf { 0x80 } else { b[1] + 1 }];
            if let Ok(s) = std::str::from_utf8(&same_lead) { v.push(s.to_string()); }
            let same_cont = [if b[0] == 0xdf { 0xc2 } else { b[0] + 1 }, b[1]];
            if let Ok(s) = std::str::from_utf8(&same_cont) { v.push(format!(" {s} ")); }
            // a 3-byte character ending in the delimiter's continuation byte
            let three = [0xe2, 0x82, b[1]];
            if let Ok(s) = std::str::from_utf8(&three) { v.push(s.to_string()); }
        }
    }
    v
}

fn rand_text(rng: &mut Rng, pool: &[String]) -> String {
    let n = 1 + rng.below(3);
    let mut s = String::new();
    for _ in 0..n {
        match rng.below(4) {
            0 => s.push_str(*rng.pick(WS)),
            _ => s.push_str(rng.pick(pool).as_str()),
        }
    }
    s
}

fn expr_pool(dl: &Dl) -> Vec<(String, String)> {
    vec![
        (" 1 ".into(), "1".into()),
        ("1".into(), "1".into()),
        (format!(" \"{}\" ", dl.ve), dl.ve.clone()),
        (format!("'{} {}'", dl.be, dl.vs), format!("{} {}", dl.be, dl.vs)),
        (" \"a\" ~ 'b' ".into(), "ab".into()),
        ("\n 2 + 3\t".into(), "5".into()),
        (" \"\" ".into(), "".into()),
        (" `-` ".into(), "-".into()),
        (" 1 - 1 ".into(), "0".into()),
        (" \" \\\" \" ".into(), " \" ".into()),
    ]
}

fn tag_pool(dl: &Dl) -> Vec<String> {
    vec![
        " set x = 1 ".into(),
        "set x=1".into(),
        format!(" set y = \"{}\" ", dl.be),
        "\n set z = 'raw' \n".into(),
        " set r = 0 - 1 ".into(),
    ]
}

fn comment_pool(dl: &Dl) -> Vec<String> {
    vec![" c ".into(), "".into(), "c".into(), format!(" {} x {} ", dl.vs, dl.be), " - ".into(), "\u{a0}".into(), format!("{}", dl.cs)]
}

fn raw_pool(dl: &Dl) -> Vec<String> {
    vec![
        "  r  ".into(),
        "".into(),
        " ".into(),
        format!(" {} x {} ", dl.vs, dl.ve),
        format!("{} if {}", dl.bs, dl.be),
        format!("\u{a0}{} endraw\u{3000}", dl.bs),
        format!("{}-", dl.bs),
        format!("\n{} c {}\n", dl.cs, dl.ce),
        "r".into(),
        format!(" {}", dl.bs),
    ]
}

fn rand_item(rng: &mut Rng, dl: &Dl, texts: &[String]) -> Item {
    let b = |rng: &mut Rng| rng.chance(1, 2);
    match rng.below(10) {
        0..=2 => Item::Text(rand_text(rng, texts)),
        3..=4 => Item::Comment(b(rng), rng.pick(&comment_pool(dl)).clone(), b(rng)),
        5..=6 => Item::Raw(b(rng), b(rng), rng.pick(&raw_pool(dl)).clone(), b(rng), b(rng)),
        7..=8 => {
            let (s, o) = rng.pick(&expr_pool(dl)).clone();
            Item::Expr(b(rng), s, b(rng), o)
        }
        _ => Item::Tag(b(rng), rng.pick(&tag_pool(dl)).clone(), b(rng)),
    }
}

fn rand_doc(rng: &mut Rng, dl: &Dl, texts: &[String], max: usize) -> Vec<Item> {
    let n = 1 + rng.below(max);
    let mut doc: Vec<Item> = Vec::new();
    while doc.len() < n {
        let it = rand_item(rng, dl, texts);
        if matches!((&it, doc.last()), (Item::Text(_), Some(Item::Text(_)))) {
            continue;
        }
        doc.push(it);
    }
    // sometimes wrap a stretch in `if true` … `endif` (inert, output-free tags)
    if rng.chance(1, 4) && doc.len() >= 2 {
        let i = rng.below(doc.len());
        let j = i + rng.below(doc.len() - i + 1);
        doc.insert(j, Item::Tag(rng.chance(1, 2), " endif ".into(), rng.chance(1, 2)));
        doc.insert(i, Item::Tag(rng.chance(1, 2), " if true ".into(), rng.chance(1, 2)));
    }
    doc
}

/// The item alphabet of the exhaustive sweep: 6 texts, every marker placement on an expression,
/// a tag, a comment and a raw block (bodies from `raw_bodies`).
fn sweep_items(raw_bodies: &[&str]) -> Vec<Item> {
    let mut v: Vec<Item> = ["a", " ", "  b  ", "\u{a0}c\u{3000}", "\n", " \u{2028}{\u{85} "]
        .iter().map(|s| Item::Text(s.to_string())).collect();
    for l in [false, true] {
        for r in [false, true] {
            v.push(Item::Expr(l, " 1 ".into(), r, "1".into()));
            v.push(Item::Tag(l, " set x = 1 ".into(), r));
            v.push(Item::Comment(l, " c ".into(), r));
            for il in [false, true] {
                for ir in [false, true] {
                    for b in raw_bodies {
                        v.push(Item::Raw(l, il, b.to_string(), ir, r));
                    }
                }
            }
        }
    }
    v
}

// ---------------------------------------------------------------- main

fn replay(path: &std::path::Path) {
    let j: serde_json::Value = serde_json::from_str(&std::fs::read_to_string(path).expect("replay file")).expect("json");
    let c = j.get("case").or_else(|| j.get("input")).unwrap_or(&j);
    let dl = Dl::from_json(&c["delimiters"]);
    match c["op"].as_str().unwrap_or("") {
        "lex" => {
            let src = c["src"].as_str().unwrap();
            let r = real_lex(src, &dl, c["filtered"].as_bool().unwrap_or(false));
            println!("lex {:?} -> {}", src, r.json(json_toks));
        }
        "render" => {
            let doc = doc_from_json(&c["doc"]);
            let src = print_doc(&dl, &doc);
            let rs = Renderers::new(&[dl.clone()]);
            println!("render {:?} -> {}", src, rs.render(&dl, &src).json(|s| json!(s)));
        }
        "delims" => {
            let mut t = Tera::default();
            println!("set_delimiters {:?} -> {:?}", dl, t.set_delimiters(dl.tera()).map_err(|e| e.to_string()));
        }
        other => println!("unknown op {other}"),
    }
}

fn main() {
    let args = parse_args();
    if std::env::var("C08_LOUD").is_err() { silence_panics(); }
    if let Some(p) = &args.replay {
        replay(p);
        return;
    }
    let thorough = args.tier == "thorough";
    let mut rng = Rng::new(args.seed);
    let mut meta = Meta::default();
    let hdr = "From TeraV Require Import Model.Value Model.Lexer Spec.Doc Corr.CorrC08.";
    let mut lex = Sink::new(&args.out, "lex", hdr, "check_lex");
    let mut render = Sink::new(&args.out, "render", hdr, "check_render");
    let mut delims = Sink::new(&args.out, "delims", hdr, "check_delims");

    let sets = delimiter_sets();
    let rs = Renderers::new(&sets);
    let dflt = sets[0].clone();

    // ---- corpus: hand-written edge cases, always first
    let corpus: Vec<&str> = vec![
        "A {{ 1 -}}{# c #}  B",
        "A  {# c #}{{- 1 }} B",
        "A {{ 1 -}}{# c -#}  B",
        "A {% set x = 1 -%}{# c #}{# d #}\n B",
        "{% raw -%}  x {% endraw -%}{# c #} {% raw %} y{% endraw %}",
        "",
        "plain text without anything",
        "{", "%}", "{\u{e9}", "a{", "{ {", "}}{",
        "{#-#}", "{#--#}", "{#- -#}", "{# -#}", "{#-", "{# unterminated",
        "{%-- raw %}x{% endraw %}", "{%- raw -%} x {%- endraw -%}", "{% raw%}{%endraw%}", "{%raw%}x{%-endraw-%}",
        "{% raw %}{% endraw", "{% raw %} {% if %} {% endraw x %} {% endraw %}", "{% rawx %}", "{% raw x %}",
        "{% raw %}{{ a }}{# b #}{% endraw %}", "{% raw %}{%{% endraw %}", "{% - raw %}x{% endraw %}",
        "{{ \"}}\" }}", "{{ '\\'}}' }}", "{{ `a` }}", "{{ \"\\q\" }}", "{{ \"open }}", "{{ \"a\\\\\" }}",
        "{{ 1.5 }}{{ 1. }}{{ 1.2.3 }}{{ 007 }}", "{{ 9223372036854775807 }}", "{{ 9223372036854775808 }}",
        "{{ a.b?.c?[0] // 2 ** 3 </ ... }}", "{{ true True false False trueish _x x1 }}", "{{ \u{e9} }}", "{{ $ }}",
        "{{ 1", "{{", "{{-", "{{ 1 -", "{% if", "{{- 1 -}}", "{{-1}}", "{{--1}}", "{{ - }}", "{{ 1 - }}",
        " \u{a0}{{- 1 -}}\u{3000}\u{2028} x", "\n\n {%- set x = 1 -%} \n y", "a\u{85}{#- c -#}\u{85}b",
        "l1\nl2 {{ 1 }}\n{# c\nd #}\u{e9}{{\n2\n}}",
        "{{ {1: 2} }}", "{{ [1, 2][0] }}", "{{ 1 }}}}", "{{ \"a\" ~ \"}}\" }}{{ 2 }}",
    ];
    for s in &corpus {
        for f in [false, true] {
            push_lex(&mut lex, &mut meta, &dflt, s, f, "gen:corpus");
        }
    }
    let d6_doc = vec![Item::Text("A ".into()), Item::Expr(false, " 1 ".into(), true, "1".into()), Item::Comment(false, " c ".into(), false), Item::Text("  B".into())];
    push_render(&mut render, &mut meta, &rs, &dflt, &d6_doc, "gen:corpus");
    let d6_ok = vec![Item::Text("A  ".into()), Item::Comment(false, " c ".into(), false), Item::Expr(true, " 1 ".into(), false, "1".into()), Item::Text(" B".into())];
    push_render(&mut render, &mut meta, &rs, &dflt, &d6_ok, "gen:corpus");

    // ---- exhaustive sweep: every document of <= 3 items over the item alphabet
    let alt = sets[1].clone();
    let items1 = sweep_items(&["  r  ", " "]);
    let items3 = sweep_items(&["  r  "]);
    let mut exhaustive_docs = 0usize;
    let mut sweep = |doc: &[Item], dl: &Dl, render: &mut Sink, meta: &mut Meta| {
        if push_render(render, meta, &rs, dl, doc, "gen:sweep") {
            exhaustive_docs += 1;
        }
    };
    let items2 = if thorough { &items1 } else { &items3 };
    for a in items2 {
        sweep(&[a.clone()], &dflt, &mut render, &mut meta);
        for b in items2 {
            sweep(&[a.clone(), b.clone()], &dflt, &mut render, &mut meta);
        }
    }
    let mut three_total = 0usize;
    for a in &items3 {
        for b in &items3 {
            for c in &items3 {
                three_total += 1;
                if thorough {
                    sweep(&[a.clone(), b.clone(), c.clone()], &dflt, &mut render, &mut meta);
                    if three_total % 4 == 0 {
                        sweep(&[a.clone(), b.clone(), c.clone()], &alt, &mut render, &mut meta);
                    }
                } else if rng.chance(1, 60) {
                    let dl = if rng.chance(1, 3) { &alt } else { &dflt };
                    sweep(&[a.clone(), b.clone(), c.clone()], dl, &mut render, &mut meta);
                }
            }
        }
    }
    drop(sweep);

    // ---- random documents up to 12 items under every delimiter set; each also through the lexer
    let n_rand = if thorough { 30_000 } else { 1_000 };
    let mut respell_checked = 0usize;
    for i in 0..n_rand {
        let dl = &sets[i % sets.len()];
        let texts = text_pool(dl);
        let max = if rng.chance(1, 3) { 12 } else { 5 };
        let doc = rand_doc(&mut rng, dl, &texts, max);
        let ok = push_render(&mut render, &mut meta, &rs, dl, &doc, "gen:random");
        let src = print_doc(dl, &doc);
        if thorough || i % 2 == 0 {
            push_lex(&mut lex, &mut meta, dl, &src, rng.chance(1, 2), if ok { "gen:doc" } else { "gen:doc-not-wf" });
        }
        // mutations: a prefix, and one character deleted
        if rng.chance(1, 3) && !src.is_empty() {
            let cut: Vec<usize> = src.char_indices().map(|(i, _)| i).collect();
            let p = *rng.pick(&cut);
            push_lex(&mut lex, &mut meta, dl, &src[..p], rng.chance(1, 2), "gen:prefix");
            let q = *rng.pick(&cut);
            let mut del = src.clone();
            del.remove(q);
            push_lex(&mut lex, &mut meta, dl, &del, rng.chance(1, 2), "gen:deletion");
        }
        // oracle: re-spelling with another set renders the same bytes (when both read back and the
        // expression sources do not depend on the spelling)
        if ok && i % 3 == 0 {
            let other = &sets[(i / 3) % sets.len()];
            let neutral = doc.iter().all(|it| match it {
                Item::Expr(_, s, _, _) | Item::Tag(_, s, _) => !s.contains(&dl.ve) && !s.contains(&dl.be) && !s.contains(&dl.vs),
                Item::Comment(_, b, _) | Item::Raw(_, _, b, _, _) => !b.contains(&dl.vs) && !b.contains(&dl.bs) && !b.contains(&dl.cs) && !b.contains(&dl.be),
                _ => true,
            });
            let src2 = print_doc(other, &doc);
            if neutral && other != dl && reads_back(other, &doc, &src2) {
                meta.oracle_checks += 1;
                respell_checked += 1;
                let r1 = rs.render(dl, &src);
                let r2 = rs.render(other, &src2);
                let same = match (&r1, &r2) { (Outcome::Ok(a), Outcome::Ok(b)) => a == b, _ => false };
                if !same {
                    meta.oracle_fail("re-spelling with another delimiter set changes the rendering", None,
                        json!({"op": "render", "delimiters": dl.json(), "other": other.json(), "doc": json_doc(&doc),
                               "r1": r1.json(|s| json!(s)), "r2": r2.json(|s| json!(s))}));
                }
            }
        }
    }

    // ---- oracle + lex: sources without any start delimiter render to themselves
    let n_plain = if thorough { 4_000 } else { 300 };
    let mut plain_checked = 0usize;
    for i in 0..n_plain {
        let dl = &sets[i % sets.len()];
        let texts = text_pool(dl);
        let n = rng.below(6);
        let mut s = String::new();
        for _ in 0..n {
            s.push_str(&rand_text(&mut rng, &texts));
        }
        let has_start = s.as_bytes().windows(2).any(|w| w == dl.vs.as_bytes() || w == dl.bs.as_bytes() || w == dl.cs.as_bytes());
        if has_start {
            continue;
        }
        plain_checked += 1;
        meta.oracle_checks += 1;
        let r = rs.render(dl, &s);
        if !matches!(&r, Outcome::Ok(o) if *o == s) {
            meta.oracle_fail("a source without a start delimiter does not render to itself", None,
                json!({"op": "render", "delimiters": dl.json(), "doc": [{"text": s}], "impl": r.json(|x| json!(x))}));
        }
        if i % 2 == 0 {
            push_lex(&mut lex, &mut meta, dl, &s, rng.chance(1, 2), "gen:plain");
        }
    }

    // ---- delims: accepted sets, and sets broken in every way validate looks at
    let mut delim_cases: Vec<Dl> = sets.clone();
    let parts = ["", "{", "{%", "{%%", "\u{e9}", "\u{65e5}", "a\u{e9}", "{{", "{#", "%}", "--"];
    for _ in 0..(if thorough { 3000 } else { 200 }) {
        let mut d = rng.pick(&sets).clone();
        let k = 1 + rng.below(2);
        for _ in 0..k {
            let p = rng.pick(&parts).to_string();
            match rng.below(9) {
                0 => d.bs = p, 1 => d.be = p, 2 => d.vs = p, 3 => d.ve = p, 4 => d.cs = p, 5 => d.ce = p,
                6 => d.vs = d.bs.clone(), 7 => d.cs = d.bs.clone(), _ => d.cs = d.vs.clone(),
            }
        }
        delim_cases.push(d);
    }
    for d in &delim_cases {
        let mut t = Tera::default();
        let r = guarded(|| t.set_delimiters(d.tera()));
        let g = format!("{{| v_dl := {}; v_impl := {} |}}", d.gal(), r.gal(|_| "tt".to_string()));
        let desc = json!({"op": "delims", "delimiters": d.json(), "impl": r.json(|_| json!("ok"))});
        meta.oracle_checks += 1;
        if let Outcome::Panic(m) = &r {
            meta.oracle_fail(&format!("panic in set_delimiters: {m}"), None, desc.clone());
        }
        let nontrivial = !sets.contains(d);
        delims.push(g, desc, nontrivial, None, &[if matches!(r, Outcome::Ok(_)) { "impl:ok" } else { "impl:err" }]);
    }

    meta.extra.insert("render_docs_not_reading_back".into(), json!(NOT_READING_BACK.load(std::sync::atomic::Ordering::Relaxed)));
    meta.extra.insert("exhaustive_docs".into(), json!(exhaustive_docs));
    meta.extra.insert("exhaustive_space".into(), json!(format!(
        "all documents of <= 2 items over {} items (6 texts, expr/tag/comment x 4 marker placements, raw x 16 x {} bodies), default delimiters; {} of the {} documents of 3 items over {} items (raw x 16 x 1 body), default delimiters (+ every 4th under <% %> << >> <# #> in the thorough tier)",
        items2.len(), if thorough { 2 } else { 1 }, if thorough { "all" } else { "a 1/60 sample" }, three_total, items3.len())));
    if thorough {
        meta.extra.insert("exhaustive_le3".into(), json!(true));
    }
    meta.extra.insert("oracle_only_evaluations".into(), json!(respell_checked + plain_checked));
    meta.extra.insert("oracle_only_nontrivial".into(), json!(respell_checked));
    meta.extra.insert("respelling_pairs_checked".into(), json!(respell_checked));
    meta.extra.insert("plain_sources_checked".into(), json!(plain_checked));
    meta.extra.insert("delimiter_sets".into(), json!(sets.iter().map(|d| d.json()).collect::<Vec<_>>()));
    meta.families.push(lex.finish());
    meta.families.push(render.finish());
    meta.families.push(delims.finish());
    meta.write(&args.out);
}
