//! C18 — output channels agree, write failures surface, rendering is pure and thread-safe.
//!
//! Implementation-side oracles (every job = API entry point + arguments, on every context):
//!   api      render vs render_to(Vec) vs render_to(recording writer); same for render_block,
//!            render_component, render_str, Tera::one_off: identical bytes / same error class
//!   wfail    a writer failing once at its k-th `write` call (every k, or a stride), byte-budget
//!            writers (whole writes, 1-byte and 3-byte short writes), a writer returning Ok(0), a
//!            writer returning Interrupted every other call, a writer whose flush fails:
//!            Err(Io) (never Ok, never a panic), accepted bytes = the expected prefix
//!   pure     N repeated renders identical; engine and context snapshots unchanged
//!   threads  16 threads on one Arc<Tera>, results identical to the sequential ones
//!   bounds   compile-time Send + Sync for Tera, Context, Value, Error, Kwargs
//!   audit    interior-mutability tokens in /repo/tera/src (outside verif.rs)
//! Model-side families (checked by Corr/CorrC18.v against Model/VM.v): wfail, wcalls, audit.
use serde_json::json;
use std::io::{self, Write};
use std::sync::Arc;
use tera::verif::{component_listings, template_listing, Listing, TemplateListing};
use tera::{Context, Error, Kwargs, Map, Tera, Value};
use tvh::galvm::*;
use tvh::*;

#[path = "../c18_history.rs"]
mod history;

// ---------------------------------------------------------------- compile-time bounds
// A removed Send/Sync bound makes this file fail to build; the driver reports `corr:build`.
fn assert_send_sync<T: Send + Sync>() {}
#[allow(dead_code)]
fn static_bounds() {
    assert_send_sync::<Tera>();
    assert_send_sync::<Context>();
    assert_send_sync::<Value>();
    assert_send_sync::<Error>();
    assert_send_sync::<Kwargs>();
    assert_send_sync::<Map>();
    assert_send_sync::<Arc<Tera>>();
}

// ---------------------------------------------------------------- writers

/// Accepts everything; remembers how many bytes it held before each `write` call.
#[derive(Default)]
struct Rec {
    buf: Vec<u8>,
    starts: Vec<usize>,
    flushes: usize,
}
impl Write for Rec {
    fn write(&mut self, b: &[u8]) -> io::Result<usize> {
        self.starts.push(self.buf.len());
        self.buf.extend_from_slice(b);
        Ok(b.len())
    }
    fn flush(&mut self) -> io::Result<()> {
        self.flushes += 1;
        Ok(())
    }
}

/// Fails exactly once, at its k-th `write` call (1-based); accepts every other call, so an engine
/// that swallowed the error and went on would be caught by Ok / a non-prefix.
struct FailAt {
    k: usize,
    calls: usize,
    buf: Vec<u8>,
    failed: bool,
    writes_after_failure: usize,
}
impl FailAt {
    fn new(k: usize) -> Self {
        FailAt { k, calls: 0, buf: Vec::new(), failed: false, writes_after_failure: 0 }
    }
}
impl Write for FailAt {
    fn write(&mut self, b: &[u8]) -> io::Result<usize> {
        self.calls += 1;
        if self.calls == self.k {
            self.failed = true;
            return Err(io::Error::new(io::ErrorKind::Other, "injected failure"));
        }
        if self.failed {
            self.writes_after_failure += 1;
        }
        self.buf.extend_from_slice(b);
        Ok(b.len())
    }
    fn flush(&mut self) -> io::Result<()> {
        Ok(())
    }
}

/// Accepts `remaining` bytes in total, at most `max_per_call` per call (short writes), then fails.
struct Budget {
    remaining: usize,
    max_per_call: usize,
    buf: Vec<u8>,
    zero_instead_of_err: bool,
}
impl Write for Budget {
    fn write(&mut self, b: &[u8]) -> io::Result<usize> {
        if b.is_empty() {
            return Ok(0);
        }
        if self.remaining == 0 {
            if self.zero_instead_of_err {
                return Ok(0); // write_all turns this into ErrorKind::WriteZero
            }
            return Err(io::Error::new(io::ErrorKind::Other, "budget exhausted"));
        }
        let n = b.len().min(self.remaining).min(self.max_per_call);
        self.buf.extend_from_slice(&b[..n]);
        self.remaining -= n;
        Ok(n)
    }
    fn flush(&mut self) -> io::Result<()> {
        Ok(())
    }
}

/// Every other call reports ErrorKind::Interrupted without accepting anything: write_all retries.
#[derive(Default)]
struct Interrupting {
    buf: Vec<u8>,
    tick: bool,
}
impl Write for Interrupting {
    fn write(&mut self, b: &[u8]) -> io::Result<usize> {
        self.tick = !self.tick;
        if self.tick {
            return Err(io::Error::new(io::ErrorKind::Interrupted, "interrupted"));
        }
        let n = b.len().min(2);
        self.buf.extend_from_slice(&b[..n]);
        Ok(n)
    }
    fn flush(&mut self) -> io::Result<()> {
        Ok(())
    }
}

#[derive(Default)]
struct FlushFail {
    buf: Vec<u8>,
    flushes: usize,
}
impl Write for FlushFail {
    fn write(&mut self, b: &[u8]) -> io::Result<usize> {
        self.buf.extend_from_slice(b);
        Ok(b.len())
    }
    fn flush(&mut self) -> io::Result<()> {
        self.flushes += 1;
        Err(io::Error::new(io::ErrorKind::Other, "flush failed"))
    }
}

// ---------------------------------------------------------------- jobs

#[derive(Clone, Debug)]
enum Job {
    Render(String),
    Block(String, String),
    Component { name: String, body: Option<String>, ae: bool },
    Str { src: String, ae: bool },
}

impl Job {
    fn json(&self) -> serde_json::Value {
        match self {
            Job::Render(n) => json!({"api": "render", "template": n}),
            Job::Block(n, b) => json!({"api": "render_block", "template": n, "block": b}),
            Job::Component { name, body, ae } => json!({"api": "render_component", "component": name, "body": body, "autoescape": ae}),
            Job::Str { src, ae } => json!({"api": "render_str", "source": src, "autoescape": ae}),
        }
    }
    fn api(&self) -> &'static str {
        match self {
            Job::Render(_) => "render",
            Job::Block(..) => "render_block",
            Job::Component { .. } => "render_component",
            Job::Str { .. } => "render_str",
        }
    }
}

fn run_to(tera: &Tera, job: &Job, ctx: &Context, w: &mut dyn Write) -> Result<(), Error> {
    match job {
        Job::Render(n) => tera.render_to(n, ctx, w),
        Job::Block(n, b) => tera.render_block_to(n, b, ctx, w),
        Job::Component { name, body, ae } => tera.render_component_to(name, ctx, body.as_deref(), *ae, w),
        Job::Str { src, ae } => tera.render_str_to(src, ctx, *ae, w),
    }
}

fn run_string(tera: &Tera, job: &Job, ctx: &Context) -> Result<String, Error> {
    match job {
        Job::Render(n) => tera.render(n, ctx),
        Job::Block(n, b) => tera.render_block(n, b, ctx),
        Job::Component { name, body, ae } => tera.render_component(name, ctx, body.as_deref(), *ae),
        Job::Str { src, ae } => tera.render_str(src, ctx, *ae),
    }
}

fn class<T>(o: &Outcome<T>) -> String {
    match o {
        Outcome::Ok(_) => "ok".into(),
        Outcome::Err(c, _) => format!("err:{c}"),
        Outcome::Panic(_) => "panic".into(),
    }
}

// ---------------------------------------------------------------- contexts and template sets

fn m(entries: Vec<(&str, Value)>) -> Value {
    let mut mm = Map::new();
    for (k, v) in entries {
        mm.insert(k.to_string().into(), v);
    }
    Value::from(mm)
}

/// The contexts of c03.rs (inside the modelled subset) ...
fn contexts() -> Vec<(String, Vec<(String, Value)>)> {
    let leaves: Vec<(&str, Value)> = vec![
        ("int", Value::from(1u64)),
        ("str", Value::from("<s&>")),
        ("safe", Value::safe_string("<b>")),
        ("none", Value::none()),
        ("false", Value::from(false)),
        ("empty", Value::from(Vec::<Value>::new())),
        ("estr", Value::from("")),
    ];
    let mut out = Vec::new();
    for (name, leaf) in &leaves {
        let inner = m(vec![("z", leaf.clone()), ("x", Value::from(vec![leaf.clone(), Value::from(2u64)]))]);
        let a = m(vec![("x", m(vec![("y", inner.clone()), ("x", leaf.clone())])), ("y", leaf.clone())]);
        let rows = Value::from(vec![
            m(vec![("x", Value::from("r1")), ("y", leaf.clone())]),
            m(vec![("x", Value::from(2u64)), ("y", m(vec![("z", Value::from(true))]))]),
            m(vec![("x", Value::none())]),
        ]);
        out.push((
            format!("abc={name}"),
            vec![("a".to_string(), a), ("b".to_string(), rows), ("c".to_string(), leaf.clone())],
        ));
    }
    out.push((
        "strings".into(),
        vec![
            ("a".to_string(), Value::from("h日<")),
            ("b".to_string(), Value::from(vec![Value::from("p"), Value::from("q"), Value::from("r")])),
            ("c".to_string(), m(vec![("x", Value::from("only"))])),
        ],
    ));
    out.push(("empty".into(), vec![]));
    out
}

/// ... and one shaped like the context of the engine's own rendering snapshots (outside the
/// modelled subset: floats, nested data; oracle-only).
fn corpus_context() -> (String, Vec<(String, Value)>) {
    let product = m(vec![("name", Value::from("Moto G")), ("manufacturer", Value::from("Motorala")), ("price", Value::from(100u64)), ("summary", Value::from("A phone"))]);
    let review = m(vec![("title", Value::from("My review")), ("paragraphs", Value::from(vec![Value::from("A"), Value::from("B")]))]);
    (
        "corpus".into(),
        vec![
            ("name".into(), Value::from("Bob")),
            ("description".into(), Value::from("<p>I should be escaped by default</p>")),
            ("some_html".into(), Value::from("<p>Some HTML chars & more</p>")),
            ("age".into(), Value::from(18u64)),
            ("some_bool".into(), Value::from(true)),
            ("one".into(), Value::from(1u64)),
            ("pi".into(), Value::from(3.5f64)),
            ("product".into(), product.clone()),
            ("vectors".into(), Value::from(vec![Value::from(vec![Value::from(0u64), Value::from(3u64), Value::from(6u64)]), Value::from(vec![Value::from(1u64), Value::from(4u64), Value::from(7u64)])])),
            ("numbers".into(), Value::from(vec![Value::from(1u64), Value::from(2u64), Value::from(3u64)])),
            ("empty".into(), Value::from(Vec::<Value>::new())),
            ("objects".into(), Value::from(vec![m(vec![("label", Value::from("Parent")), ("children", Value::from(vec![m(vec![("label", Value::from("Child"))])]))])])),
            ("data".into(), m(vec![("names", Value::from(vec![Value::from("Tom"), Value::from("Dick")])), ("weights", Value::from(vec![Value::from(50.6f64), Value::from(70.1f64)]))])),
            ("reviews".into(), Value::from(vec![review.clone(), review])),
            ("to".into(), Value::from("&")),
            ("malicious".into(), Value::from("<html>")),
            ("a".into(), Value::from("a & <b>")),
            ("label".into(), Value::from("L<")),
            ("title".into(), Value::from("T&")),
            ("content".into(), Value::from("<script>")),
            ("n".into(), Value::from(4u64)),
        ],
    )
}

fn to_context(c: &[(String, Value)]) -> Context {
    let mut ctx = Context::new();
    for (k, v) in c {
        ctx.insert_value(k.clone(), v.clone());
    }
    ctx
}

/// base / mid / child chain with blocks, an include, assignments crossing the boundaries (as c03.rs)
fn gen_set(rng: &mut Rng) -> Vec<(String, String)> {
    let blk = |rng: &mut Rng, name: &str, lvl: usize| -> String {
        let body = match rng.below(5) {
            0 => format!("{name}{lvl}"),
            1 => format!("{name}{lvl}{{{{ super() }}}}"),
            2 => format!("{{{{ super() }}}}{name}{lvl}{{{{ c }}}}"),
            3 => format!("{name}{lvl}{{% set v = \"{name}{lvl}\" %}}{{{{ v }}}}"),
            _ => format!("{{% for i in b %}}{name}{{{{ i.x }}}}{{% endfor %}}"),
        };
        format!("{{% block {name} %}}{body}{{% endblock %}}")
    };
    let inc_body = match rng.below(4) {
        0 => "I{{ c }}".to_string(),
        1 => "I{{ v }}{% set v = 9 %}{{ v }}".to_string(),
        2 => "I{% for i in b %}{{ i.x }}{{ w }}{% endfor %}".to_string(),
        _ => "I{{ a.y }}{{ g }}".to_string(),
    };
    let base = format!(
        "B[{{% set v = 1 %}}{{% set_global g = 2 %}}{}|{}{}{{{{ v }}}}{{% include \"inc\" %}}]",
        "{% block a %}a0{{ c }}{% block n %}n0{% endblock %}{% endblock %}",
        "{% filter upper %}{% block b %}b0{% endblock %}{% endfilter %}",
        if rng.chance(1, 2) { "{% for w in b %}{% include \"inc\" %}{% endfor %}" } else { "" },
    );
    let mid = format!("{{% extends \"base\" %}}{}{}", blk(rng, "a", 1), if rng.chance(1, 2) { blk(rng, "n", 1) } else { String::new() });
    let child = format!("{{% extends \"mid\" %}}{}{}", blk(rng, "b", 2), if rng.chance(1, 2) { blk(rng, "a", 2) } else { String::new() });
    vec![("inc".into(), inc_body), ("base".into(), base), ("mid".into(), mid), ("child".into(), child)]
}

const HAND: [&str; 24] = [
    "{% for i in b %}{{ loop.index }}/{{ loop.length }}{{ loop.first }}{{ loop.last }}:{{ i.x }}{% else %}none{% endfor %}",
    "{% for i in b %}{% if i.x is undefined %}{% continue %}{% endif %}{{ i.x }}{% if loop.index0 == 1 %}{% break %}{% endif %}{% endfor %}",
    "{% for i in b %}{% set t = i.x %}{% for j in b %}{{ t }}{% set t = 0 %}{{ t }}{% endfor %}{{ t }}{% endfor %}{{ t | default(value=\"gone\") }}",
    "{% set s %}x{{ c }}y{% endset %}{{ s }}|{{ s | upper }}",
    "{% filter upper %}a{{ c }}{% for i in b %}{{ i.x }}{% endfor %}{% endfilter %}",
    "{% set_global g = 1 %}{% for i in b %}{% set_global g = i.x %}{% set l = 1 %}{% endfor %}{{ g }}{{ l | default(value=\"nol\") }}",
    "{{ a.x.y.z }}{{ a.y }}{{ b[0].x }}{{ b[-1].x | default(value=\"d\") }}{{ a[\"y\"] }}",
    "{{ c and a.y }}|{{ c or a.y }}|{{ not c }}|{{ a.y if c else b }}",
    "{% for ch in a %}[{{ ch }}]{% endfor %}",
    "{% for k, v in c %}{{ k }}={{ v }}{% endfor %}",
    "{{ [i.x for i in b if i.y] }}{{ [1, c, a.y] }}{{ {\"k\": c} }}",
    "{{ __tera_context }}",
    "{% if c %}T{% elif a.y %}E{% else %}F{% endif %}",
    "{{ u }}",
    "head {{ c }} mid {{ u.x }} tail",
    "{{ a.nope.x }}",
    "{{ a?.nope?.x is defined }}{{ u?.x is undefined }}",
    "{{ c ~ a.y ~ 1 }}",
    "{{ c in b }}{{ \"r\" in b }}{{ \"x\" in c }}",
    "plain text only, no tags at all <&>",
    "",
    "{{ a }}{{ b }}{{ c }}<{{ a.y }}>&amp;{{ b | length }}",
    "x{% for i in b %}[{{ i }}]{% endfor %}y{{ 1 / 0 }}z",
    "{% for i in b %}{{ i.x }}{{ i.y.z }}{% endfor %}",
];

const DEPTH_COMPONENTS: &str = r#"{% component Countdown(n: integer) %}{{ n }}{% if n > 0 %} {{ <Countdown n={n - 1} /> }}{% endif %}{% endcomponent Countdown %}
{% component Ping(n: integer) %}i{{ n }}{% if n > 0 %}{{ <Pong n={n - 1} /> }}{% endif %}{% endcomponent Ping %}
{% component Pong(n: integer) %}o{{ n }}{% if n > 0 %}{{ <Ping n={n - 1} /> }}{% endif %}{% endcomponent Pong %}
{% component Wrap(n: integer) %}<{{ n }}{% if n > 0 %}{% <Wrap n={n - 1}> %}b{{ n }}{% </Wrap> %}{% endif %}{{ body | default(value="-") }}>{% endcomponent Wrap %}
{% component ViaInclude(n: integer) %}v{{ n }}{% if n > 0 %}{% include "inc_step.html" %}{% endif %}{% endcomponent ViaInclude %}"#;

const COMPONENTS: &str = r#"{% component Button(label, variant="primary") %}<button class="{{ variant }}">{{ label }}</button>{% endcomponent Button %}
{% component Card(title) %}<div><h1>{{ title }}</h1>{{ body }}</div>{% endcomponent Card %}
{% component Display(content) %}{{ content }}{% endcomponent Display %}
{% component Fact(n) %}{% if n > 1 %}{{ n }}*{{ <Fact n={n-1}/> }}{% else %}1{% endif %}{% endcomponent Fact %}
{% component Rows(title) %}{% for i in [1, 2, 3] %}{{ title }}{{ i }};{% endfor %}{{ <Display content={title}/> }}{% endcomponent Rows %}"#;

struct Suite {
    label: String,
    tera: Tera,
    jobs: Vec<Job>,
    sources: serde_json::Value,
    /// shared Gallina definition of the template list for the model-side families
    model: Option<(String, String, Vec<TemplateListing>)>,
    /// contexts to use instead of the default selection
    ctxs: Option<Vec<(String, Vec<(String, Value)>)>>,
}

fn listings_of(tera: &Tera, names: &[String]) -> Option<Vec<TemplateListing>> {
    let mut out = Vec::new();
    for n in names {
        let tl = template_listing(tera, n)?;
        if !in_w0_subset(&tl.chunk) || tl.lineage.iter().any(|(_, cs)| cs.iter().any(|c| !in_w0_subset(c))) {
            return None;
        }
        out.push(tl);
    }
    Some(out)
}

fn model_defs(listings: Vec<TemplateListing>) -> (String, String, Vec<TemplateListing>) {
    let gtpls: Vec<String> = listings
        .iter()
        .map(|tl| {
            let root: Listing = listings.iter().find(|x| x.name == tl.root).map(|x| x.chunk.clone()).unwrap_or_else(|| tl.chunk.clone());
            format!("({}, {})", gal_str(&tl.name), gal_template(tl, &root))
        })
        .collect();
    let term = format!("[{}]", gtpls.join("; "));
    (format!("wd_{:x}", fnv_pub(&term)), term, listings)
}

fn block_jobs(tera: &Tera, names: &[String]) -> Vec<Job> {
    let mut jobs = Vec::new();
    for n in names {
        jobs.push(Job::Render(n.clone()));
        if let Some(tl) = template_listing(tera, n) {
            for (b, _) in &tl.lineage {
                jobs.push(Job::Block(n.clone(), b.clone()));
            }
        }
    }
    jobs
}

// ---------------------------------------------------------------- snapshots

fn snapshot(tera: &Tera) -> String {
    let mut s = format!("{tera:?}\n");
    let mut names: Vec<String> = tera.get_template_names().map(|x| x.to_string()).collect();
    names.sort();
    for n in &names {
        if let Some(tl) = template_listing(tera, n) {
            s.push_str(&format!("{} root={} parents={:?} ae={} chunk={:?} lineage={:?}\n", tl.name, tl.root, tl.parents, tl.autoescape, tl.chunk, tl.lineage));
        }
    }
    for (name, src, l) in component_listings(tera) {
        s.push_str(&format!("component {name} from {src}: {l:?}\n"));
    }
    s
}

// ---------------------------------------------------------------- source audit

const TOKENS: [&str; 14] = [
    "thread_local", "static mut", "UnsafeCell", "RefCell", "OnceCell", "OnceLock", "LazyLock", "LazyCell",
    "RwLock", "Mutex", "Atomic", "Cell<", "Cell::", "unsafe impl",
];

fn audit_dir(dir: &std::path::Path, root: &std::path::Path, out: &mut Vec<(String, String, usize, String)>) {
    let Ok(rd) = std::fs::read_dir(dir) else { return };
    let mut ents: Vec<_> = rd.flatten().map(|e| e.path()).collect();
    ents.sort();
    for p in ents {
        if p.is_dir() {
            if p.file_name().map_or(false, |n| n == "snapshot_tests") {
                continue;
            }
            audit_dir(&p, root, out);
        } else if p.extension().map_or(false, |e| e == "rs") {
            let rel = p.strip_prefix(root).unwrap().to_string_lossy().to_string();
            if rel == "verif.rs" {
                continue; // the guarded hook module (cfg(tera_verif) only)
            }
            let Ok(body) = std::fs::read_to_string(&p) else { continue };
            for (ln, line) in body.lines().enumerate() {
                let t = line.trim_start();
                if t.starts_with("//") {
                    continue;
                }
                let mut rest = line.to_string();
                for tok in TOKENS {
                    if rest.contains(tok) {
                        let kind = tok.trim_end_matches(|c| c == '<' || c == ':').to_string();
                        out.push((rel.clone(), kind, ln + 1, line.trim().to_string()));
                        rest = rest.replace(tok, "");
                    }
                }
            }
        }
    }
}

// ---------------------------------------------------------------- replay

/// Re-run the job of a replay file (oracle failure input or model-side case) on the engine and
/// print what the String variant, the Vec variant and a few failing writers give now.
fn replay(path: &std::path::Path) {
    let j: serde_json::Value = serde_json::from_str(&std::fs::read_to_string(path).expect("replay file")).expect("json");
    let inp = j.get("case").or_else(|| j.get("input")).unwrap_or(&j);
    if let Some(h) = inp.get("history") {
        let ops: Vec<history::Op> = serde_json::from_value(h.clone()).expect("history ops");
        silence_panics();
        let mut counts = history::Counts { observations: 0, compared: 0 };
        for (i, op) in ops.iter().enumerate() {
            println!("step {i}: {op:?}");
        }
        if std::env::var("VERIF_DUMP").is_ok() {
            let mut probe = Tera::default();
            for op in &ops {
                let items: Vec<history::Op> = match op {
                    history::Op::AddBatch { items } => items.iter().map(|(n, v)| history::Op::Add { name: n.clone(), version: *v }).collect(),
                    o => vec![o.clone()],
                };
                for o in items {
                    if let history::Op::Add { name, version } = &o {
                        println!("  add {name} v{version}: {:?}", probe.add_raw_template(name, &history::body(name, *version)).map_err(|e| e.to_string()));
                    } else {
                        println!("  {o:?}: {}", history::apply(&o, &mut probe));
                    }
                }
            }
            let (b, _) = history::rebuild(&ops);
            for (k, v) in history::observe(&b, None) {
                println!("  {k} = {v}");
            }
        }
        match history::first_divergence(&ops, &mut counts) {
            Some(d) => println!("DIVERGES after step {}: `{}`\n  engine that rendered:        {}\n  same history without renders: {}", d.step, d.label, d.with_renders, d.without_renders),
            None => println!("no divergence now: the engine that rendered and the one that did not agree after every step ({} observables compared)", counts.compared),
        }
        return;
    }
    if let Some(sj) = inp.get("oneoff_stress") {
        silence_panics();
        let g = |k: &str| sj.get(k).and_then(|x| x.as_u64()).unwrap_or(8) as usize;
        let mode = sj.get("mode").and_then(|x| x.as_str()).unwrap_or("shared");
        let rep = history::oneoff_stress(g("threads"), g("rounds"), mode);
        println!("one-off stress ({} threads, {} rounds, {mode}): {} threads with a wrong result", g("threads"), g("rounds"), rep.failures.len());
        for (what, _) in rep.failures.iter().take(3) {
            println!("  {what}");
        }
        return;
    }
    let (Some(sources), Some(job)) = (inp.get("sources"), inp.get("job")) else {
        println!("replay: nothing to re-run on the engine (no sources/job in the file)");
        return;
    };
    let mut tera = Tera::default();
    tera.autoescape_on(vec![".html"]);
    if let Some(arr) = sources.as_array() {
        let set: Vec<(String, String)> = arr.iter().filter_map(|p| Some((p.get(0)?.as_str()?.to_string(), p.get(1)?.as_str()?.to_string()))).collect();
        if set.iter().any(|(n, _)| n == "components.html" || n == "depth_components.html") {
            tera = Tera::default();
        }
        if let Err(e) = tera.add_raw_templates(set) {
            println!("replay: templates no longer register: {e}");
            return;
        }
    } else if let Some(obj) = sources.as_object() {
        for (_, src) in obj {
            for name in ["t.html", "t.txt"] {
                let _ = tera.add_raw_template(name, src.as_str().unwrap_or(""));
            }
        }
    }
    let gs = |k: &str| job.get(k).and_then(|x| x.as_str()).unwrap_or("").to_string();
    let jb = match gs("api").as_str() {
        "render" => Job::Render(gs("template")),
        "render_block" => Job::Block(gs("template"), gs("block")),
        "render_component" => Job::Component { name: gs("component"), body: job.get("body").and_then(|x| x.as_str()).map(|s| s.to_string()), ae: job.get("autoescape").and_then(|x| x.as_bool()).unwrap_or(true) },
        _ => Job::Str { src: gs("source"), ae: job.get("autoescape").and_then(|x| x.as_bool()).unwrap_or(true) },
    };
    let cname = inp.get("context").and_then(|x| x.as_str()).unwrap_or("empty");
    let mut all = contexts();
    all.push(corpus_context());
    for d in 0u64..64 {
        all.push((format!("n={d}"), vec![("n".to_string(), Value::from(d))]));
    }
    let c = all.iter().find(|(n, _)| n == cname).map(|(_, c)| c.clone()).unwrap_or_default();
    let ctx = to_context(&c);
    silence_panics();
    let s = guarded(|| run_string(&tera, &jb, &ctx));
    let mut rec = Rec::default();
    let r = guarded(|| run_to(&tera, &jb, &ctx, &mut rec));
    println!("String variant: {}", s.json(|t| json!(t)));
    println!("_to variant: {} bytes={:?} write calls={}", r.json(|_| json!("ok")), String::from_utf8_lossy(&rec.buf), rec.starts.len());
    for k in 1..=rec.starts.len().min(6) {
        let mut w = FailAt::new(k);
        let o = guarded(|| run_to(&tera, &jb, &ctx, &mut w));
        println!("writer failing at call {k}: {} accepted={:?}", class(&o), String::from_utf8_lossy(&w.buf));
    }
    if let Some(n) = inp.get("budget_bytes").and_then(|x| x.as_u64()) {
        let mut w = Budget { remaining: n as usize, max_per_call: usize::MAX, buf: Vec::new(), zero_instead_of_err: false };
        let o = guarded(|| run_to(&tera, &jb, &ctx, &mut w));
        println!("budget writer n={n}: {} accepted={:?}", class(&o), String::from_utf8_lossy(&w.buf));
    }
}

// ---------------------------------------------------------------- main

struct Stats {
    api_checks: usize,
    fail_at_call_runs: usize,
    budget_runs: usize,
    other_writer_runs: usize,
    flush_calls_seen: usize,
    max_calls: usize,
    jobs_ok: usize,
    jobs_err: usize,
    repeat_renders: usize,
    thread_renders: usize,
}

fn char_count_at(s: &str, byte: usize) -> Option<usize> {
    if s.is_char_boundary(byte) { Some(s[..byte].chars().count()) } else { None }
}

fn main() {
    let args = parse_args();
    if std::env::var("VERIF_LOUD").is_err() {
        silence_panics();
    }
    if let Some(path) = &args.replay {
        replay(path);
        return;
    }
    let thorough = args.tier == "thorough";
    let mut rng = Rng::new(args.seed);
    let mut meta = Meta::default();
    let hdr = "From TeraV Require Import Model.Value Model.Instr Model.VM Corr.CorrC18.";
    let mut wfail = Sink::new(&args.out, "wfail", hdr, "check_wfail");
    wfail.shard_cap_set(90);
    let mut wcalls = Sink::new(&args.out, "wcalls", hdr, "check_wcalls");
    wcalls.shard_cap_set(60);
    let mut audit = Sink::new(&args.out, "audit", hdr, "check_audit");
    let mut st = Stats { api_checks: 0, fail_at_call_runs: 0, budget_runs: 0, other_writer_runs: 0, flush_calls_seen: 0, max_calls: 0, jobs_ok: 0, jobs_err: 0, repeat_renders: 0, thread_renders: 0 };

    let ctxs = contexts();
    let cctx = corpus_context();

    // ---------------- suites
    let mut suites: Vec<Suite> = Vec::new();
    let mut singles: Vec<(String, String)> = HAND.iter().enumerate().map(|(i, s)| (format!("hand#{i}"), s.to_string())).collect();
    let n_gen = if thorough { 1500 } else { 110 };
    for k in 0..n_gen {
        singles.push((format!("gen#{k}"), gen_tpl::template(&mut rng, 1 + (k % 3) as u32)));
    }
    for (label, src) in &singles {
        let mut tera = Tera::default();
        tera.autoescape_on(vec![".html"]);
        let mut names = Vec::new();
        for name in ["t.html", "t.txt"] {
            if tera.add_raw_template(name, src).is_ok() {
                names.push(name.to_string());
            }
        }
        if names.is_empty() {
            continue;
        }
        let mut jobs: Vec<Job> = names.iter().map(|n| Job::Render(n.clone())).collect();
        jobs.push(Job::Str { src: src.clone(), ae: true });
        jobs.push(Job::Str { src: src.clone(), ae: false });
        let model = listings_of(&tera, &names).map(model_defs);
        suites.push(Suite { label: label.clone(), tera, jobs, sources: json!({"t.html/t.txt": src}), model, ctxs: None });
    }
    let n_sets = if thorough { 250 } else { 20 };
    for k in 0..n_sets {
        let set = gen_set(&mut rng);
        let mut tera = Tera::default();
        tera.autoescape_on(vec![".html"]);
        if tera.add_raw_templates(set.clone()).is_err() {
            continue;
        }
        let names: Vec<String> = set.iter().map(|(n, _)| n.clone()).collect();
        let jobs = block_jobs(&tera, &names);
        let model = listings_of(&tera, &names).map(model_defs);
        suites.push(Suite { label: format!("set#{k}"), tera, jobs, sources: json!(set), model, ctxs: None });
    }
    // components (hand-written) and templates calling them
    {
        let mut tera = Tera::default();
        let set = vec![
            ("components.html".to_string(), COMPONENTS.to_string()),
            ("page.html".to_string(), "<p>{{ <Button label={label}/> }}|{% <Card title={title}> %}<i>{{ content }}</i>{% </Card> %}|{{ <Fact n={n}/> }}|{{ <Rows title=\"r\"/> }}</p>".to_string()),
            ("page.txt".to_string(), "{{ <Display content={content}/> }}{{ <Button label=\"<\" variant={a}/> }}".to_string()),
        ];
        tera.add_raw_templates(set.clone()).expect("component suite");
        let mut jobs = vec![Job::Render("page.html".into()), Job::Render("page.txt".into())];
        for (name, body) in [("Button", None), ("Card", Some("<p>body & more</p>")), ("Display", None), ("Fact", None), ("Rows", None), ("Nope", None)] {
            for ae in [true, false] {
                jobs.push(Job::Component { name: name.into(), body: body.map(|s: &str| s.to_string()), ae });
            }
        }
        suites.push(Suite { label: "components".into(), tera, jobs, sources: json!(set), model: None, ctxs: None });
    }
    // component recursion at the engine's depth limit (MAX_COMPONENT_RECURSION_DEPTH = 20): self-
    // and mutually recursive components, with bodies and through an include, driven to nesting
    // depths around the limit through every entry point. Both channels of each entry point must
    // reach the limit at the same depth.
    {
        let mut tera = Tera::default();
        let set: Vec<(String, String)> = vec![
            ("depth_components.html".into(), DEPTH_COMPONENTS.to_string()),
            ("inc_step.html".into(), "{{ <ViaInclude n={n - 1} /> }}".into()),
            ("page_self.html".into(), "p:{{ <Countdown n={n} /> }}".into()),
            ("page_mutual.html".into(), "p:{{ <Ping n={n} /> }}".into()),
            ("page_body.html".into(), "p:{% <Wrap n={n}> %}top{% </Wrap> %}".into()),
            ("page_include.html".into(), "p:{{ <ViaInclude n={n} /> }}".into()),
            ("page_via_include.html".into(), "q:{% include \"page_self.html\" %}".into()),
        ];
        tera.add_raw_templates(set.clone()).expect("depth suite");
        let mut jobs = Vec::new();
        for page in ["page_self.html", "page_mutual.html", "page_body.html", "page_include.html", "page_via_include.html"] {
            jobs.push(Job::Render(page.into()));
        }
        for (name, body) in [("Countdown", None), ("Ping", None), ("Pong", None), ("Wrap", None), ("Wrap", Some("<b>")), ("ViaInclude", None)] {
            for ae in [true, false] {
                jobs.push(Job::Component { name: name.into(), body: body.map(|s: &str| s.to_string()), ae });
            }
        }
        for src in ["s:{{ <Countdown n={n} /> }}", "s:{{ <Pong n={n} /> }}", "s:{% <Wrap n={n}> %}x{% </Wrap> %}", "s:{{ <ViaInclude n={n} /> }}"] {
            jobs.push(Job::Str { src: src.into(), ae: true });
        }
        // find the limit by probing (robust against a changed MAX_COMPONENT_RECURSION_DEPTH), then
        // sweep around it
        let mut first_fail = 21u64;
        for d in 1u64..=400 {
            let mut c = Context::new();
            c.insert_value("n", Value::from(d));
            let mut sinkbuf: Vec<u8> = Vec::new();
            if !matches!(guarded(|| tera.render_component_to("Countdown", &c, None, true, &mut sinkbuf)), Outcome::Ok(())) {
                first_fail = d;
                break;
            }
        }
        meta.extra.insert("depth_limit_first_failing_n_via_render_component_to".into(), json!(first_fail));
        let dctx: Vec<(String, Vec<(String, Value)>)> = (first_fail.saturating_sub(6)..=first_fail + 3).map(|d| (format!("n={d}"), vec![("n".to_string(), Value::from(d))])).collect();
        suites.push(Suite { label: "depth-limit".into(), tera, jobs, sources: json!(set), model: None, ctxs: Some(dctx) });
    }
    // the engine's own snapshot corpus: sets and single sources
    let mut corpus_n = 0usize;
    for (label, set) in corpus::corpus_sets() {
        let mut tera = Tera::default();
        if tera.add_raw_templates(set.clone()).is_err() {
            continue;
        }
        let names: Vec<String> = set.iter().map(|(n, _)| n.clone()).collect();
        let mut jobs = block_jobs(&tera, &names);
        for (cname, _, _) in component_listings(&tera) {
            jobs.push(Job::Component { name: cname.clone(), body: None, ae: true });
            jobs.push(Job::Component { name: cname, body: Some("<b>".into()), ae: false });
        }
        corpus_n += 1;
        suites.push(Suite { label: format!("corpus:{label}"), tera, jobs, sources: json!(set), model: None, ctxs: None });
    }
    {
        let tera = Tera::default();
        let mut jobs = Vec::new();
        for (_, src) in corpus::corpus_templates() {
            if src.len() < 4000 {
                jobs.push(Job::Str { src: src.clone(), ae: true });
                if thorough {
                    jobs.push(Job::Str { src, ae: false });
                }
            }
        }
        corpus_n += jobs.len();
        suites.push(Suite { label: "corpus:singles".into(), tera, jobs, sources: json!("tera/src/snapshot_tests/**/*.txt"), model: None, ctxs: None });
    }

    // ---------------- per job x context: API agreement, failing writers, model cases
    let call_cap = if thorough { 400 } else { 48 };
    let budget_cap = if thorough { 160 } else { 28 };
    let wfail_rate: (u64, u64) = if thorough { (1, 10) } else { (2, 5) };
    let wcalls_rate: (u64, u64) = if thorough { (1, 40) } else { (1, 9) };
    let mut history_evals = 0usize;
    let mut distinct_behaviours = std::collections::HashSet::new();
    let mut depth_table: std::collections::BTreeMap<String, Vec<String>> = Default::default();
    for suite in &suites {
        let is_corpus = suite.label.starts_with("corpus") || suite.label == "components";
        let mut cs: Vec<&(String, Vec<(String, Value)>)> = Vec::new();
        if let Some(own) = &suite.ctxs {
            cs.extend(own.iter());
        } else if is_corpus {
            cs.push(&cctx);
            cs.push(&ctxs[1]);
        } else {
            let n = if suite.label.starts_with("hand") || thorough { ctxs.len() } else { 3 };
            let skip = rng.below(ctxs.len());
            cs.extend(ctxs.iter().cycle().skip(skip).take(n));
            if suite.label.starts_with("hand") {
                cs.push(&cctx);
            }
        }
        for (cname, c) in cs {
            let ctx = to_context(c);
            for job in &suite.jobs {
                let input = || json!({"suite": suite.label, "sources": suite.sources, "job": job.json(), "context": cname});
                // (i) output channels
                let s = guarded(|| run_string(&suite.tera, job, &ctx));
                let mut rec = Rec::default();
                let r = guarded(|| run_to(&suite.tera, job, &ctx, &mut rec));
                let mut vec_out: Vec<u8> = Vec::new();
                let v = guarded(|| run_to(&suite.tera, job, &ctx, &mut vec_out));
                st.api_checks += 1;
                meta.oracle_checks += 1;
                for (what, o) in [("string", class(&s)), ("rec", class(&r)), ("vec", class(&v))] {
                    if o == "panic" {
                        meta.oracle_fail(&format!("panic in the {what} variant of {}", job.api()), None, input());
                    }
                }
                if suite.label == "depth-limit" {
                    depth_table.entry(format!("{}", job.json())).or_insert_with(Vec::new).push(format!("{cname}:{}/{}", class(&s), class(&r)));
                }
                if class(&s) != class(&r) || class(&r) != class(&v) {
                    meta.oracle_fail(&format!("{}: outcome classes differ: String {} / writer {} / Vec {}", job.api(), class(&s), class(&r), class(&v)), None, input());
                }
                if let Outcome::Ok(text) = &s {
                    if text.as_bytes() != rec.buf.as_slice() || vec_out != rec.buf {
                        meta.oracle_fail(&format!("{}: returned String differs from the bytes written by the _to variant", job.api()), None, input());
                    }
                }
                if vec_out != rec.buf {
                    meta.oracle_fail(&format!("{}: Vec and recording writer received different bytes", job.api()), None, input());
                }
                if let (Job::Str { src, ae }, true) = (job, suite.label.starts_with("corpus:singles") || suite.label.starts_with("hand") || suite.label.starts_with("gen")) {
                    // Tera::one_off = render_str on a default instance
                    let o = guarded(|| Tera::one_off(src, &ctx, *ae));
                    let mut ob: Vec<u8> = Vec::new();
                    let d = Tera::default();
                    let o2 = guarded(|| d.render_str_to(src, &ctx, *ae, &mut ob));
                    meta.oracle_checks += 1;
                    let same = match (&o, &o2) {
                        (Outcome::Ok(t), Outcome::Ok(())) => t.as_bytes() == ob.as_slice(),
                        (Outcome::Err(a, _), Outcome::Err(b, _)) => a == b,
                        _ => false,
                    };
                    if !same {
                        meta.oracle_fail("one_off differs from render_str_to on a default instance", None, input());
                    }
                }
                st.flush_calls_seen += rec.flushes;
                let full = rec.buf.clone();
                let starts = rec.starts.clone();
                let ncalls = starts.len();
                st.max_calls = st.max_calls.max(ncalls);
                let base_class = class(&r);
                if matches!(r, Outcome::Ok(_)) { st.jobs_ok += 1 } else { st.jobs_err += 1 }
                distinct_behaviours.insert(fnv_pub(&format!("{base_class}|{}|{:?}", String::from_utf8_lossy(&full), starts)));

                // (ii) failing writers. `full` is the whole output, or what had been written when
                // the template itself failed (then a long enough budget reproduces that error).
                let mut ks: Vec<usize> = (1..=ncalls).collect();
                if ks.len() > call_cap {
                    let keep_head = call_cap / 3;
                    let mut sel: Vec<usize> = ks[..keep_head].to_vec();
                    sel.extend_from_slice(&ks[ks.len() - keep_head..]);
                    while sel.len() < call_cap {
                        sel.push(1 + rng.below(ncalls));
                    }
                    sel.sort();
                    sel.dedup();
                    ks = sel;
                }
                for &k in &ks {
                    let mut w = FailAt::new(k);
                    let o = guarded(|| run_to(&suite.tera, job, &ctx, &mut w));
                    st.fail_at_call_runs += 1;
                    meta.oracle_checks += 1;
                    let expect = &full[..starts[k - 1]];
                    let ok = matches!(&o, Outcome::Err(c, _) if c == "io") && w.buf == expect && w.writes_after_failure == 0 && w.calls == k;
                    if !ok {
                        meta.oracle_fail(
                            &format!("writer failing at call {k}/{ncalls}: outcome {} accepted {} bytes (expected Err(io) and the first {} bytes), {} writes after the failure", class(&o), w.buf.len(), expect.len(), w.writes_after_failure),
                            None, input());
                    }
                }
                // a k beyond the last call never fires: same outcome as the plain run
                {
                    let mut w = FailAt::new(ncalls + 1);
                    let o = guarded(|| run_to(&suite.tera, job, &ctx, &mut w));
                    meta.oracle_checks += 1;
                    if class(&o) != base_class || w.buf != full {
                        meta.oracle_fail("writer that never fails: outcome differs from the recording run", None, input());
                    }
                }
                let mut ns: Vec<usize> = if full.len() <= budget_cap { (0..=full.len()).collect() } else {
                    let mut v: Vec<usize> = (0..budget_cap).map(|i| i * full.len() / budget_cap).collect();
                    v.push(full.len().saturating_sub(1));
                    v.push(full.len());
                    v
                };
                ns.sort();
                ns.dedup();
                for &n in &ns {
                    for (per_call, zero) in [(usize::MAX, false), (1usize, false), (3usize, false), (usize::MAX, true)] {
                        let mut w = Budget { remaining: n, max_per_call: per_call, buf: Vec::new(), zero_instead_of_err: zero };
                        let o = guarded(|| run_to(&suite.tera, job, &ctx, &mut w));
                        st.budget_runs += 1;
                        meta.oracle_checks += 1;
                        let ok = if n >= full.len() {
                            class(&o) == base_class && w.buf == full
                        } else {
                            matches!(&o, Outcome::Err(c, _) if c == "io") && w.buf == &full[..n]
                        };
                        if !ok {
                            meta.oracle_fail(
                                &format!("budget writer n={n} of {} (max {} bytes per call, zero={zero}): outcome {} accepted {} bytes", full.len(), per_call, class(&o), w.buf.len()),
                                None, input());
                        }
                    }
                }
                {
                    let mut w = Interrupting::default();
                    let o = guarded(|| run_to(&suite.tera, job, &ctx, &mut w));
                    let mut f = FlushFail::default();
                    let of = guarded(|| run_to(&suite.tera, job, &ctx, &mut f));
                    st.other_writer_runs += 2;
                    meta.oracle_checks += 2;
                    if class(&o) != base_class || w.buf != full {
                        meta.oracle_fail(&format!("interrupting writer (write_all must retry): outcome {} / {} bytes of {}", class(&o), w.buf.len(), full.len()), None, input());
                    }
                    st.flush_calls_seen += f.flushes;
                    let flush_ok = if f.flushes == 0 { class(&of) == base_class && f.buf == full } else { matches!(&of, Outcome::Err(c, _) if c == "io") || class(&of) == base_class && base_class != "ok" };
                    if !flush_ok {
                        meta.oracle_fail(&format!("writer whose flush fails ({} flush calls): outcome {}", f.flushes, class(&of)), None, input());
                    }
                }

                // (iii) model-side cases: real chunks on Model/VM.v under the budget writer
                let (Some((wname, wterm, _)), true) = (&suite.model, ctx_in_subset(c)) else { continue };
                let (entry, block) = match job {
                    Job::Render(n) => (n.clone(), None),
                    Job::Block(n, b) => (n.clone(), Some(b.clone())),
                    _ => continue,
                };
                let Ok(full_s) = String::from_utf8(full.clone()) else { continue };
                let defs = vec![(wname.clone(), wterm.clone())];
                // one budget per selected job: an engine call boundary (= a writer failing at that
                // call), an offset inside a call, or (rarely) a budget that suffices; on character
                // boundaries. The sampling rates keep the Coq side inside the tier's time budget.
                let mut chosen: Vec<usize> = Vec::new();
                if rng.chance(wfail_rate.0, wfail_rate.1) && (full.len() >= 2 || rng.chance(1, 5)) {
                    let interior_bounds: Vec<usize> = starts.iter().copied().filter(|b| *b > 0 && *b < full.len() && full_s.is_char_boundary(*b)).collect();
                    let pick = rng.below(20);
                    if pick < 9 && !interior_bounds.is_empty() {
                        chosen.push(*rng.pick(&interior_bounds[..]));
                    } else if pick < 17 && full.len() >= 2 {
                        let mut b = 1 + rng.below(full.len() - 1);
                        while !full_s.is_char_boundary(b) {
                            b -= 1;
                        }
                        chosen.push(b);
                    } else if pick < 18 {
                        chosen.push(0);
                    } else {
                        chosen.push(full.len() + rng.below(3));
                    }
                }
                for nb in chosen {
                    let mut w = Budget { remaining: nb, max_per_call: usize::MAX, buf: Vec::new(), zero_instead_of_err: false };
                    let o = guarded(|| run_to(&suite.tera, job, &ctx, &mut w));
                    let Ok(acc) = String::from_utf8(w.buf.clone()) else { continue };
                    let nchars = if nb <= full.len() { full_s[..nb].chars().count() } else { full_s.chars().count() + (nb - full.len()) };
                    let g = format!(
                        "{{| wf_templates := {}; wf_entry := {}; wf_block := {}; wf_ctx := {}; wf_budget := {}%nat; wf_impl := {}; wf_accepted := {} |}}",
                        wname, gal_str(&entry), gal_opt(&block, |b| gal_str(b)), gal_ctx(c), nchars, o.gal(|_| "tt".to_string()), gal_str(&acc)
                    );
                    let desc = json!({"suite": suite.label, "sources": suite.sources, "job": job.json(), "context": cname,
                        "budget_bytes": nb, "budget_chars": nchars, "output_bytes": full.len(), "plain_outcome": base_class,
                        "impl": o.json(|_| json!("ok")), "accepted": acc});
                    let at_boundary = starts.contains(&nb);
                    let tag1 = if nb >= full.len() { "budget>=output" } else if at_boundary { "at-call-boundary" } else { "inside-a-call" };
                    let kf: Option<&str> = None;
                    wfail.push_with_defs(&defs, g, desc, nb > 0 && nb < full.len(), kf, &[tag1, &format!("plain:{base_class}"), job.api()]);
                }
                if matches!(r, Outcome::Ok(_)) && rng.chance(wcalls_rate.0, wcalls_rate.1) {
                    let mut bounds: Vec<usize> = starts.iter().filter_map(|b| char_count_at(&full_s, *b)).collect();
                    bounds.push(full_s.chars().count());
                    bounds.sort();
                    bounds.dedup();
                    let k = rng.below(5);
                    let g = format!(
                        "{{| wc_templates := {}; wc_entry := {}; wc_block := {}; wc_ctx := {}; wc_out := {}; wc_bounds := [{}]%nat; wc_k := {}%nat |}}",
                        wname, gal_str(&entry), gal_opt(&block, |b| gal_str(b)), gal_ctx(c), gal_str(&full_s),
                        bounds.iter().map(|b| b.to_string()).collect::<Vec<_>>().join(";"), k
                    );
                    let desc = json!({"suite": suite.label, "sources": suite.sources, "job": job.json(), "context": cname,
                        "output": full_s, "engine_call_boundaries_chars": bounds, "fail_at_model_call": k});
                    let kf: Option<&str> = None;
                    wcalls.push_with_defs(&defs, g, desc, ncalls >= 3, kf, &[job.api(), if ncalls >= 3 { "calls>=3" } else { "calls<3" }]);
                }
            }
        }
    }

    // ---------------- (iv) purity: repeats, snapshots, threads — one shared instance
    let mut big = Tera::default();
    big.autoescape_on(vec![".html"]);
    let mut big_jobs: Vec<Job> = Vec::new();
    {
        let mut all: Vec<(String, String)> = Vec::new();
        for (i, (_, src)) in singles.iter().take(if thorough { 200 } else { 70 }).enumerate() {
            all.push((format!("s{i}.html"), src.clone()));
            all.push((format!("s{i}.txt"), src.clone()));
        }
        let mut ok_names = Vec::new();
        for (n, s) in &all {
            if big.add_raw_template(n, s).is_ok() {
                ok_names.push(n.clone());
            }
        }
        for (n, s) in gen_set(&mut rng) {
            big.add_raw_template(&n, &s).expect("set template");
            ok_names.push(n);
        }
        big.add_raw_template("components.html", COMPONENTS).expect("components");
        big.add_raw_template("page.html", "<p>{{ <Button label={c}/> }}|{% <Card title=\"t\"> %}<i>{{ c }}</i>{% </Card> %}|{{ <Fact n={5}/> }}</p>{{ {\"k\": {} } }}{{ __tera_context | length }}").expect("page");
        ok_names.push("page.html".into());
        big_jobs.extend(block_jobs(&big, &ok_names));
        for (name, body) in [("Button", None), ("Card", Some("<p>x</p>")), ("Fact", None), ("Nope", None)] {
            big_jobs.push(Job::Component { name: name.into(), body: body.map(|s: &str| s.to_string()), ae: true });
        }
        big_jobs.push(Job::Str { src: "{{ a }}{% for i in b %}{{ i }}{% endfor %}{{ {} }}".into(), ae: true });
    }
    let mut pure_ctx_list: Vec<(String, Context)> = ctxs.iter().take(4).map(|(n, c)| (n.clone(), to_context(c))).collect();
    let mut cc = cctx.1.clone();
    cc.push(("c".into(), Value::from("<c&>")));
    cc.push(("b".into(), Value::from(vec![m(vec![("x", Value::from(1u64))]), m(vec![("x", Value::from("two"))])])));
    pure_ctx_list.push(("corpus+".into(), to_context(&cc)));
    let snap_before = snapshot(&big);
    let ctx_before: Vec<String> = pure_ctx_list.iter().map(|(_, c)| format!("{c:?}")).collect();
    let ctx_clones: Vec<Context> = pure_ctx_list.iter().map(|(_, c)| c.clone()).collect();
    let pairs: Vec<(usize, usize)> = (0..big_jobs.len()).flat_map(|j| (0..pure_ctx_list.len()).map(move |c| (j, c))).collect();
    let msg_seen: std::sync::Mutex<std::collections::BTreeMap<(usize, usize), (u64, String, Option<String>)>> = Default::default();
    let render_pair = |tera: &Tera, (j, c): (usize, usize)| -> String {
        let o = guarded(|| run_string(tera, &big_jobs[j], &pure_ctx_list[c].1));
        // errors are compared by class (DESIGN §8); message texts are tallied separately
        match o {
            Outcome::Ok(s) => format!("ok:{s}"),
            Outcome::Err(cl, msg) => {
                let h = fnv_pub(&msg);
                let mut seen = msg_seen.lock().unwrap();
                let e = seen.entry((j, c)).or_insert((h, msg.clone(), None));
                if e.0 != h && e.2.is_none() {
                    e.2 = Some(msg);
                }
                format!("err:{cl}")
            }
            Outcome::Panic(p) => format!("panic:{p}"),
        }
    };
    let baseline: Vec<String> = pairs.iter().map(|p| render_pair(&big, *p)).collect();
    let repeats = if thorough { 12 } else { 4 };
    let mut repeat_diffs = 0usize;
    for _ in 0..repeats {
        for (i, p) in pairs.iter().enumerate() {
            st.repeat_renders += 1;
            if render_pair(&big, *p) != baseline[i] {
                repeat_diffs += 1;
                if repeat_diffs <= 3 {
                    meta.oracle_fail("repeating a render gave a different result", None, json!({"job": big_jobs[p.0].json(), "context": pure_ctx_list[p.1].0}));
                }
            }
        }
    }
    meta.oracle_checks += st.repeat_renders;
    // a panic anywhere in the baseline is a violation on its own
    for (i, b) in baseline.iter().enumerate() {
        if b.starts_with("panic:") {
            meta.oracle_fail(&format!("panic while rendering: {b}"), None, json!({"job": big_jobs[pairs[i].0].json(), "context": pure_ctx_list[pairs[i].1].0}));
        }
    }
    let n_threads = 16usize;
    let per_thread = if thorough { 1500 } else { 400 };
    let shared = Arc::new(big.clone());
    let mut thread_diffs: Vec<(usize, usize, String)> = Vec::new();
    let thread_results: Vec<Vec<(usize, String)>> = std::thread::scope(|sc| {
        let handles: Vec<_> = (0..n_threads)
            .map(|t| {
                let shared = Arc::clone(&shared);
                let pairs = &pairs;
                let baseline = &baseline;
                let render_pair = &render_pair;
                sc.spawn(move || {
                    let mut bad = Vec::new();
                    let stride = 1 + 2 * t; // different orders in different threads
                    for i in 0..per_thread {
                        let idx = (t * 37 + i * stride) % pairs.len();
                        let got = render_pair(&shared, pairs[idx]);
                        if got != baseline[idx] {
                            bad.push((idx, got));
                        }
                    }
                    bad
                })
            })
            .collect();
        handles.into_iter().map(|h| h.join().unwrap_or_else(|_| vec![(usize::MAX, "thread panicked".into())])).collect()
    });
    for (t, bad) in thread_results.iter().enumerate() {
        for (idx, got) in bad {
            thread_diffs.push((t, *idx, got.clone()));
        }
    }
    st.thread_renders = n_threads * per_thread;
    meta.oracle_checks += st.thread_renders;
    for (t, idx, got) in thread_diffs.iter().take(3) {
        let what = if *idx == usize::MAX { "a rendering thread panicked".to_string() } else { format!("concurrent render differs from the sequential one: got {got:?}, expected {:?}", baseline[*idx]) };
        let input = if *idx == usize::MAX { json!({"thread": t}) } else { json!({"thread": t, "job": big_jobs[pairs[*idx].0].json(), "context": pure_ctx_list[pairs[*idx].1].0}) };
        meta.oracle_fail(&what, None, input);
    }
    let snap_after = snapshot(&big);
    let snap_shared = snapshot(&shared);
    meta.oracle_checks += 2;
    if snap_before != snap_after || snap_before != snap_shared {
        meta.oracle_fail("engine snapshot (Debug + every finalized chunk, lineage, component) changed across renders", None, json!({"before_len": snap_before.len(), "after_len": snap_after.len()}));
    }
    for (i, (n, c)) in pure_ctx_list.iter().enumerate() {
        meta.oracle_checks += 1;
        if format!("{c:?}") != ctx_before[i] || *c != ctx_clones[i] {
            meta.oracle_fail("context changed across renders", None, json!({"context": n}));
        }
    }

    // ---------------- (iv') purity over histories, one-off concurrency stress (c18_history.rs)
    {
        let (n_hist, hist_len) = if thorough { (500, 12) } else { (70, 8) };
        let hrep = history::run_histories(&mut rng, n_hist, hist_len);
        for (what, input) in &hrep.failures {
            meta.oracle_fail(what, None, input.clone());
        }
        meta.oracle_checks += hrep.compared;
        meta.extra.insert("purity_histories".into(), json!(hrep.histories));
        meta.extra.insert("purity_history_steps".into(), json!(hrep.steps));
        meta.extra.insert("purity_history_engine_observations".into(), json!(hrep.observations));
        meta.extra.insert("purity_history_observables_compared".into(), json!(hrep.compared));
        meta.extra.insert("purity_history_ops".into(), json!(hrep.op_tags));
        meta.extra.insert("purity_history_divergences".into(), json!(hrep.failures.len()));
        history_evals = hrep.compared;
        let (thr, rounds) = if thorough { (16usize, 20000usize) } else { (16usize, 4000usize) };
        let mut stress_renders = 0usize;
        let mut stress_failures = 0usize;
        for mode in ["shared", "clones"] {
            let srep = history::oneoff_stress(thr, rounds, mode);
            stress_renders += srep.renders;
            stress_failures += srep.failures.len();
            for (what, input) in srep.failures.iter().take(2) {
                meta.oracle_fail(what, None, input.clone());
            }
        }
        meta.oracle_checks += stress_renders;
        history_evals += stress_renders;
        meta.extra.insert("oneoff_stress_threads".into(), json!(thr));
        meta.extra.insert("oneoff_stress_renders".into(), json!(stress_renders));
        meta.extra.insert("oneoff_stress_threads_with_a_wrong_result".into(), json!(stress_failures));
    }

    // ---------------- (v) source audit
    let repo = std::env::var("VERIF_REPO").unwrap_or_else(|_| "/repo".to_string());
    let root_buf = std::path::Path::new(&repo).join("tera/src");
    let root = root_buf.as_path();
    let mut hits = Vec::new();
    audit_dir(root, root, &mut hits);
    let mut seen_kinds = std::collections::BTreeSet::new();
    for (file, kind, _, _) in &hits {
        if seen_kinds.insert((file.clone(), kind.clone())) {
            let g = format!("{{| au_file := {}; au_kind := {} |}}", gal_str(file), gal_str(kind));
            audit.push(g, json!({"file": file, "kind": kind, "note": "interior-mutability token outside the committed allow-list means the purity/thread-safety argument must be revisited"}), true, None, &[kind.as_str()]);
        }
    }

    {
        let seen = msg_seen.lock().unwrap();
        let varying: Vec<_> = seen.iter().filter(|(_, v)| v.2.is_some()).collect();
        meta.extra.insert("error_message_text_varies_between_identical_renders".into(), json!(varying.len()));
        if let Some(((j, c), v)) = varying.first() {
            meta.extra.insert("error_message_text_varies_example".into(), json!({"job": big_jobs[*j].json(), "context": pure_ctx_list[*c].0, "one": v.1, "another": v.2}));
        }
    }
    meta.extra.insert("interior_mutability_hits".into(), json!(hits.iter().map(|(f, k, l, t)| json!({"file": f, "kind": k, "line": l, "text": t})).collect::<Vec<_>>()));
    meta.extra.insert("interior_mutability_tokens".into(), json!(TOKENS));
    meta.extra.insert("send_sync_compile_checked".into(), json!(["Tera", "Context", "Value", "Error", "Kwargs", "Map", "Arc<Tera>"]));
    {
        // per entry point: the largest n at which both channels still succeed (must exist and be
        // followed by failures, otherwise the sweep did not straddle the limit)
        let mut straddled = 0usize;
        let mut summary = serde_json::Map::new();
        for (job, rows) in &depth_table {
            let oks = rows.iter().filter(|r| r.ends_with(":ok/ok")).count();
            if oks > 0 && oks < rows.len() {
                straddled += 1;
            }
            summary.insert(job.clone(), json!(rows));
        }
        meta.extra.insert("depth_limit_entry_points".into(), json!(depth_table.len()));
        meta.extra.insert("depth_limit_entry_points_straddling_the_limit".into(), json!(straddled));
        meta.extra.insert("depth_limit_table".into(), serde_json::Value::Object(summary));
    }
    meta.extra.insert("suites".into(), json!(suites.len()));
    meta.extra.insert("corpus_items".into(), json!(corpus_n));
    meta.extra.insert("api_agreement_checks".into(), json!(st.api_checks));
    meta.extra.insert("jobs_ok".into(), json!(st.jobs_ok));
    meta.extra.insert("jobs_err".into(), json!(st.jobs_err));
    meta.extra.insert("fail_at_call_runs".into(), json!(st.fail_at_call_runs));
    meta.extra.insert("budget_writer_runs".into(), json!(st.budget_runs));
    meta.extra.insert("interrupting_and_flush_runs".into(), json!(st.other_writer_runs));
    meta.extra.insert("flush_calls_made_by_engine".into(), json!(st.flush_calls_seen));
    meta.extra.insert("max_write_calls_in_one_render".into(), json!(st.max_calls));
    meta.extra.insert("repeat_renders".into(), json!(st.repeat_renders));
    meta.extra.insert("threads".into(), json!(n_threads));
    meta.extra.insert("concurrent_renders".into(), json!(st.thread_renders));
    meta.extra.insert("concurrent_differences".into(), json!(thread_diffs.len()));
    meta.extra.insert("shared_instance_jobs_x_contexts".into(), json!(pairs.len()));
    meta.extra.insert("oracle_only_evaluations".into(), json!(st.api_checks + st.fail_at_call_runs + st.budget_runs + st.other_writer_runs + st.repeat_renders + st.thread_renders + history_evals));
    meta.extra.insert("oracle_only_nontrivial".into(), json!(distinct_behaviours.len()));
    meta.families.push(wfail.finish());
    meta.families.push(wcalls.finish());
    meta.families.push(audit.finish());
    meta.write(&args.out);
}
