//! C02 — expression parsing (parser half). Families:
//!   ptree : a surface tree `sx`, printed here as template text with exactly the parentheses the
//!           documented precedence table demands; the REAL lexer's tokens of that text and the
//!           Display of the REAL parser's tree   vs  Model.Pratt (raw / parse_top / display)
//!   praw  : mutated / malformed token streams: accept-reject + Display  vs  Model.Pratt.parse_top
use serde_json::json;
use tera::Delimiters;
use tvh::*;

// ------------------------------------------------------------------ surface syntax (Pratt.v `sx`)

#[derive(Clone, Copy, Debug, PartialEq, Eq)]
enum Unop {
    Not,
    Minus,
}

#[derive(Clone, Copy, Debug, PartialEq, Eq)]
enum Bop {
    Mul,
    Div,
    Mod,
    Plus,
    Minus,
    FloorDiv,
    Power,
    Lt,
    Gt,
    Le,
    Ge,
    Eq,
    Ne,
    And,
    Or,
    Concat,
    In,
}

const BOPS: [Bop; 17] = [
    Bop::Mul,
    Bop::Div,
    Bop::Mod,
    Bop::Plus,
    Bop::Minus,
    Bop::FloorDiv,
    Bop::Power,
    Bop::Lt,
    Bop::Gt,
    Bop::Le,
    Bop::Ge,
    Bop::Eq,
    Bop::Ne,
    Bop::And,
    Bop::Or,
    Bop::Concat,
    Bop::In,
];

impl Bop {
    fn lvl(self) -> u32 {
        use Bop::*;
        match self {
            Or => 1,
            And => 2,
            In => 4,
            Eq | Ne | Lt | Le | Gt | Ge => 5,
            Plus | Minus => 6,
            Mul | Div | FloorDiv | Mod | Concat => 7,
            Power => 8,
        }
    }
    fn lp(self) -> u32 {
        if self == Bop::Power { self.lvl() + 1 } else { self.lvl() }
    }
    fn rp(self) -> u32 {
        if self == Bop::Power { self.lvl() } else { self.lvl() + 1 }
    }
    fn gal(self) -> &'static str {
        use Bop::*;
        match self {
            Mul => "OMul",
            Div => "ODiv",
            Mod => "OMod",
            Plus => "OPlus",
            Minus => "OMinus",
            FloorDiv => "OFloorDiv",
            Power => "OPower",
            Lt => "OLt",
            Gt => "OGt",
            Le => "OLe",
            Ge => "OGe",
            Eq => "OEq",
            Ne => "ONe",
            And => "OAnd",
            Or => "OOr",
            Concat => "OConcat",
            In => "OIn",
        }
    }
    fn tok(self) -> Tok {
        use Bop::*;
        match self {
            Mul => Tok::Mul,
            Div => Tok::Div,
            Mod => Tok::Mod,
            Plus => Tok::Plus,
            Minus => Tok::Minus,
            FloorDiv => Tok::FloorDiv,
            Power => Tok::Power,
            Lt => Tok::Lt,
            Gt => Tok::Gt,
            Le => Tok::Le,
            Ge => Tok::Ge,
            Eq => Tok::Eq,
            Ne => Tok::Ne,
            And => Tok::id("and"),
            Or => Tok::id("or"),
            Concat => Tok::Tilde,
            In => Tok::id("in"),
        }
    }
    fn class(self) -> &'static str {
        use Bop::*;
        match self {
            Mul | Div | Mod | Plus | Minus | FloorDiv => "op:arith",
            Power => "op:power",
            Lt | Gt | Le | Ge | Eq | Ne => "op:cmp",
            And | Or => "op:logic",
            Concat => "op:concat",
            In => "op:in",
        }
    }
}

const LVL_IS: u32 = 4;
const LVL_PIPE: u32 = 9;
const LVL_ATOM: u32 = 11;

impl Unop {
    fn lvl(self) -> u32 {
        match self {
            Unop::Not => 3,
            Unop::Minus => 10,
        }
    }
    fn gal(self) -> &'static str {
        match self {
            Unop::Not => "UNot",
            Unop::Minus => "UMinus",
        }
    }
    fn tok(self) -> Tok {
        match self {
            Unop::Not => Tok::id("not"),
            Unop::Minus => Tok::Minus,
        }
    }
}

#[derive(Clone, Debug, PartialEq)]
enum Const {
    Int(i64),
    /// the f64; source text is its `{:?}`, the Coq payload its `{}`
    Float(f64),
    Str(String),
    Bool(bool),
    Null,
}

#[derive(Clone, Debug, PartialEq)]
enum MKey {
    Str(String),
    Int(i64),
    Bool(bool),
}

type Kw = Vec<(String, Sx)>;

#[derive(Clone, Debug, PartialEq)]
enum Sx {
    Const(Const),
    Var(String),
    Attr(Box<Sx>, String, bool),
    Item(Box<Sx>, Box<Sx>, bool),
    Slice(Box<Sx>, Option<Box<Sx>>, Option<Box<Sx>>, Option<Box<Sx>>, bool),
    Un(Unop, Box<Sx>),
    Bin(Bop, Box<Sx>, Box<Sx>),
    NotIn(Box<Sx>, Box<Sx>),
    Test(Box<Sx>, String, Kw, bool),
    Filter(Box<Sx>, String, Kw),
    Call(String, Kw),
    Tern(Box<Sx>, Box<Sx>, Box<Sx>),
    Paren(Box<Sx>),
    Arr(Vec<(bool, Sx)>),
    Map(Vec<(Option<MKey>, Sx)>),
    Comp(Box<Sx>, Option<String>, String, Box<Sx>, Option<Box<Sx>>),
}

fn bx(s: Sx) -> Box<Sx> {
    Box::new(s)
}
fn var(x: &str) -> Sx {
    Sx::Var(x.to_string())
}
fn bin(o: Bop, a: Sx, b: Sx) -> Sx {
    Sx::Bin(o, bx(a), bx(b))
}
fn un(u: Unop, a: Sx) -> Sx {
    Sx::Un(u, bx(a))
}
fn tern(c: Sx, t: Sx, f: Sx) -> Sx {
    Sx::Tern(bx(c), bx(t), bx(f))
}
fn filt(e: Sx, n: &str) -> Sx {
    Sx::Filter(bx(e), n.to_string(), vec![])
}
fn test(e: Sx, n: &str, neg: bool) -> Sx {
    Sx::Test(bx(e), n.to_string(), vec![], neg)
}
fn item(e: Sx, i: Sx) -> Sx {
    Sx::Item(bx(e), bx(i), false)
}
fn paren_sx(e: Sx) -> Sx {
    Sx::Paren(bx(e))
}
fn cint(i: i64) -> Sx {
    Sx::Const(Const::Int(i))
}

impl Sx {
    fn lvl(&self) -> u32 {
        match self {
            Sx::Bin(o, _, _) => o.lvl(),
            Sx::NotIn(..) => Bop::In.lvl(),
            Sx::Test(..) => LVL_IS,
            Sx::Filter(..) => LVL_PIPE,
            Sx::Un(u, _) => u.lvl(),
            Sx::Tern(..) => 0,
            _ => LVL_ATOM,
        }
    }

    /// height of the tree (an upper bound, doubled, of the parser recursion it needs)
    fn height(&self) -> usize {
        let mut m = 0;
        self.for_children(&mut |c| m = m.max(c.height()));
        m + 1
    }

    fn for_children(&self, f: &mut dyn FnMut(&Sx)) {
        let kw = |kw: &Kw, f: &mut dyn FnMut(&Sx)| {
            for (_, v) in kw {
                f(v)
            }
        };
        match self {
            Sx::Const(_) | Sx::Var(_) => {}
            Sx::Attr(e, _, _) | Sx::Un(_, e) | Sx::Paren(e) => f(e),
            Sx::Item(e, i, _) => {
                f(e);
                f(i)
            }
            Sx::Slice(e, a, b, c, _) => {
                f(e);
                for x in [a, b, c].into_iter().flatten() {
                    f(x)
                }
            }
            Sx::Bin(_, a, b) | Sx::NotIn(a, b) => {
                f(a);
                f(b)
            }
            Sx::Test(e, _, k, _) | Sx::Filter(e, _, k) => {
                f(e);
                kw(k, f)
            }
            Sx::Call(_, k) => kw(k, f),
            Sx::Tern(c, t, e) => {
                f(c);
                f(t);
                f(e)
            }
            Sx::Arr(items) => {
                for (_, v) in items {
                    f(v)
                }
            }
            Sx::Map(es) => {
                for (_, v) in es {
                    f(v)
                }
            }
            Sx::Comp(e, _, _, t, c) => {
                f(e);
                f(t);
                if let Some(c) = c {
                    f(c)
                }
            }
        }
    }

    /// number of operators / postfix forms (grouping matters when >= 2)
    fn n_ops(&self) -> usize {
        let own = match self {
            Sx::Bin(..) | Sx::NotIn(..) | Sx::Un(..) | Sx::Test(..) | Sx::Filter(..) | Sx::Tern(..)
            | Sx::Attr(..) | Sx::Item(..) | Sx::Slice(..) => 1,
            _ => 0,
        };
        let mut n = own;
        self.for_children(&mut |c| n += c.n_ops());
        n
    }

    fn classes(&self, out: &mut std::collections::BTreeSet<&'static str>) {
        match self {
            Sx::Bin(o, _, _) => {
                out.insert(o.class());
            }
            Sx::NotIn(..) => {
                out.insert("op:notin");
            }
            Sx::Un(Unop::Not, _) => {
                out.insert("un:not");
            }
            Sx::Un(Unop::Minus, _) => {
                out.insert("un:minus");
            }
            Sx::Test(_, _, k, neg) => {
                out.insert(if *neg { "test:isnot" } else { "test:is" });
                if !k.is_empty() {
                    out.insert("kwargs");
                }
            }
            Sx::Filter(_, _, k) => {
                out.insert("filter");
                if !k.is_empty() {
                    out.insert("kwargs");
                }
            }
            Sx::Call(_, k) => {
                out.insert("call");
                if !k.is_empty() {
                    out.insert("kwargs");
                }
            }
            Sx::Tern(..) => {
                out.insert("ternary");
            }
            Sx::Attr(_, _, o) => {
                out.insert(if *o { "chain:?." } else { "chain:." });
            }
            Sx::Item(_, _, o) => {
                out.insert(if *o { "chain:?[" } else { "subscript" });
            }
            Sx::Slice(_, _, _, _, o) => {
                out.insert(if *o { "slice:?[" } else { "slice" });
            }
            Sx::Paren(_) => {
                out.insert("paren");
            }
            Sx::Arr(_) => {
                out.insert("array");
            }
            Sx::Map(_) => {
                out.insert("map");
            }
            Sx::Comp(..) => {
                out.insert("comprehension");
            }
            Sx::Const(_) | Sx::Var(_) => {}
        }
        self.for_children(&mut |c| c.classes(out));
    }

    /// `~` whose right operand is (after removing parentheses) a unary / negated form
    fn has_concat_unary(&self) -> bool {
        fn strip(s: &Sx) -> &Sx {
            match s {
                Sx::Paren(e) => strip(e),
                _ => s,
            }
        }
        let own = match self {
            Sx::Bin(Bop::Concat, _, b) => {
                matches!(strip(b), Sx::Un(..) | Sx::NotIn(..) | Sx::Test(_, _, _, true))
            }
            _ => false,
        };
        let mut r = own;
        self.for_children(&mut |c| r = r || c.has_concat_unary());
        r
    }
}

// ------------------------------------------------------------------ tokens (Pratt.v `token`)

#[derive(Clone, Debug, PartialEq)]
enum Tok {
    Int(i64),
    Float(f64),
    Str(String),
    Bool(bool),
    Ident(String),
    Mul,
    Div,
    FloorDiv,
    Mod,
    Plus,
    Minus,
    Power,
    Lt,
    Gt,
    Le,
    Ge,
    Eq,
    Ne,
    Tilde,
    Pipe,
    Assign,
    Dot,
    QDot,
    QLBracket,
    Comma,
    Colon,
    Bang,
    LBracket,
    RBracket,
    LParen,
    RParen,
    LBrace,
    RBrace,
    Spread,
    ClosingTagStart,
    VarEnd,
}

impl Tok {
    fn id(s: &str) -> Tok {
        Tok::Ident(s.to_string())
    }

    fn gal(&self) -> String {
        match self {
            Tok::Int(i) => format!("(TInt {}%Z)", gal_z(*i as i128)),
            Tok::Float(f) => format!("(TFloat {})", gal_str(&format!("{f}"))),
            Tok::Str(s) => format!("(TStr {})", gal_str(s)),
            Tok::Bool(b) => format!("(TBool {})", gal_bool(*b)),
            Tok::Ident(s) => format!("(TIdent {})", gal_str(s)),
            Tok::Mul => "TMul".into(),
            Tok::Div => "TDiv".into(),
            Tok::FloorDiv => "TFloorDiv".into(),
            Tok::Mod => "TMod".into(),
            Tok::Plus => "TPlus".into(),
            Tok::Minus => "TMinus".into(),
            Tok::Power => "TPower".into(),
            Tok::Lt => "TLt".into(),
            Tok::Gt => "TGt".into(),
            Tok::Le => "TLe".into(),
            Tok::Ge => "TGe".into(),
            Tok::Eq => "TEq".into(),
            Tok::Ne => "TNe".into(),
            Tok::Tilde => "TTilde".into(),
            Tok::Pipe => "TPipe".into(),
            Tok::Assign => "TAssign".into(),
            Tok::Dot => "TDot".into(),
            Tok::QDot => "TQDot".into(),
            Tok::QLBracket => "TQLBracket".into(),
            Tok::Comma => "TComma".into(),
            Tok::Colon => "TColon".into(),
            Tok::Bang => "TBang".into(),
            Tok::LBracket => "TLBracket".into(),
            Tok::RBracket => "TRBracket".into(),
            Tok::LParen => "TLParen".into(),
            Tok::RParen => "TRParen".into(),
            Tok::LBrace => "TLBrace".into(),
            Tok::RBrace => "TRBrace".into(),
            Tok::Spread => "TSpread".into(),
            Tok::ClosingTagStart => "TClosingTagStart".into(),
            Tok::VarEnd => "TVarEnd".into(),
        }
    }

    /// source text of one token; `rng` picks the quote style / the spelling of booleans
    fn text(&self, rng: &mut Rng) -> String {
        match self {
            Tok::Int(i) => format!("{i}"),
            Tok::Float(f) => format!("{f:?}"),
            Tok::Str(s) => {
                let qs: Vec<char> = ['"', '\'', '`'].into_iter().filter(|q| !s.contains(*q)).collect();
                let q = *rng.pick(&qs);
                format!("{q}{s}{q}")
            }
            Tok::Bool(b) => {
                let cap = rng.chance(1, 5);
                match (b, cap) {
                    (true, false) => "true",
                    (true, true) => "True",
                    (false, false) => "false",
                    (false, true) => "False",
                }
                .to_string()
            }
            Tok::Ident(s) => s.clone(),
            Tok::Mul => "*".into(),
            Tok::Div => "/".into(),
            Tok::FloorDiv => "//".into(),
            Tok::Mod => "%".into(),
            Tok::Plus => "+".into(),
            Tok::Minus => "-".into(),
            Tok::Power => "**".into(),
            Tok::Lt => "<".into(),
            Tok::Gt => ">".into(),
            Tok::Le => "<=".into(),
            Tok::Ge => ">=".into(),
            Tok::Eq => "==".into(),
            Tok::Ne => "!=".into(),
            Tok::Tilde => "~".into(),
            Tok::Pipe => "|".into(),
            Tok::Assign => "=".into(),
            Tok::Dot => ".".into(),
            Tok::QDot => "?.".into(),
            Tok::QLBracket => "?[".into(),
            Tok::Comma => ",".into(),
            Tok::Colon => ":".into(),
            Tok::Bang => "!".into(),
            Tok::LBracket => "[".into(),
            Tok::RBracket => "]".into(),
            Tok::LParen => "(".into(),
            Tok::RParen => ")".into(),
            Tok::LBrace => "{".into(),
            Tok::RBrace => "}".into(),
            Tok::Spread => "...".into(),
            Tok::ClosingTagStart => "</".into(),
            Tok::VarEnd => "}}".into(),
        }
    }
}

fn gal_toks(ts: &[Tok]) -> String {
    let parts: Vec<String> = ts.iter().map(|t| t.gal()).collect();
    format!("[{}]", parts.join("; "))
}

// ------------------------------------------------------------------ the printer (Pratt.v `raw`)

fn paren(ts: Vec<Tok>) -> Vec<Tok> {
    let mut v = Vec::with_capacity(ts.len() + 2);
    v.push(Tok::LParen);
    v.extend(ts);
    v.push(Tok::RParen);
    v
}
fn wrap(p: u32, l: u32, ts: Vec<Tok>) -> Vec<Tok> {
    if l < p { paren(ts) } else { ts }
}
fn starts_unary(ts: &[Tok]) -> bool {
    match ts.first() {
        Some(Tok::Minus) => true,
        Some(Tok::Ident(s)) => s == "not",
        _ => false,
    }
}
fn tok_const(c: &Const) -> Tok {
    match c {
        Const::Int(i) => Tok::Int(*i),
        Const::Float(f) => Tok::Float(*f),
        Const::Str(s) => Tok::Str(s.clone()),
        Const::Bool(b) => Tok::Bool(*b),
        Const::Null => Tok::id("none"),
    }
}
fn tok_mkey(k: &MKey) -> Tok {
    match k {
        MKey::Str(s) => Tok::Str(s.clone()),
        MKey::Int(i) => Tok::Int(*i),
        MKey::Bool(b) => Tok::Bool(*b),
    }
}
fn sep_by(sep: Tok, parts: Vec<Vec<Tok>>) -> Vec<Tok> {
    let mut out = Vec::new();
    for (i, p) in parts.into_iter().enumerate() {
        if i > 0 {
            out.push(sep.clone());
        }
        out.extend(p);
    }
    out
}
fn kw_toks(kw: &Kw) -> Vec<Tok> {
    sep_by(
        Tok::Comma,
        kw.iter()
            .map(|(k, v)| {
                let mut t = vec![Tok::id(k), Tok::Assign];
                t.extend(raw(v));
                t
            })
            .collect(),
    )
}

fn raw(s: &Sx) -> Vec<Tok> {
    let sub = |e: &Sx, opt: bool| {
        let mut v = wrap(LVL_ATOM, e.lvl(), raw(e));
        v.push(if opt { Tok::QLBracket } else { Tok::LBracket });
        v
    };
    match s {
        Sx::Const(c) => vec![tok_const(c)],
        Sx::Var(x) => vec![Tok::id(x)],
        Sx::Attr(e, a, opt) => {
            let mut v = raw(e);
            v.push(if *opt { Tok::QDot } else { Tok::Dot });
            v.push(Tok::id(a));
            v
        }
        Sx::Item(e, i, opt) => {
            let mut v = sub(e, *opt);
            v.extend(raw(i));
            v.push(Tok::RBracket);
            v
        }
        Sx::Slice(e, a, b, c, opt) => {
            let mut v = sub(e, *opt);
            if let Some(x) = a {
                v.extend(raw(x));
            }
            v.push(Tok::Colon);
            if let Some(x) = b {
                v.extend(raw(x));
            }
            if let Some(x) = c {
                v.push(Tok::Colon);
                v.extend(raw(x));
            }
            v.push(Tok::RBracket);
            v
        }
        Sx::Un(u, e) => {
            let r = raw(e);
            let mut v = vec![u.tok()];
            if e.lvl() < u.lvl() || starts_unary(&r) {
                v.extend(paren(r));
            } else {
                v.extend(r);
            }
            v
        }
        Sx::Bin(o, a, b) => {
            let mut v = wrap(o.lp(), a.lvl(), raw(a));
            v.push(o.tok());
            v.extend(wrap(o.rp(), b.lvl(), raw(b)));
            v
        }
        Sx::NotIn(a, b) => {
            let mut v = wrap(Bop::In.lp(), a.lvl(), raw(a));
            v.push(Tok::id("not"));
            v.push(Tok::id("in"));
            v.extend(wrap(Bop::In.rp(), b.lvl(), raw(b)));
            v
        }
        Sx::Test(e, n, kw, neg) => {
            let mut v = wrap(LVL_IS, e.lvl(), raw(e));
            v.push(Tok::id("is"));
            if *neg {
                v.push(Tok::id("not"));
            }
            v.push(Tok::id(n));
            if !kw.is_empty() {
                v.extend(paren(kw_toks(kw)));
            }
            v
        }
        Sx::Filter(e, n, kw) => {
            let mut v = wrap(LVL_PIPE, e.lvl(), raw(e));
            v.push(Tok::Pipe);
            v.push(Tok::id(n));
            if !kw.is_empty() {
                v.extend(paren(kw_toks(kw)));
            }
            v
        }
        Sx::Call(n, kw) => {
            let mut v = vec![Tok::id(n)];
            v.extend(paren(kw_toks(kw)));
            v
        }
        Sx::Tern(c, t, f) => {
            let mut v = wrap(1, t.lvl(), raw(t));
            v.push(Tok::id("if"));
            v.extend(raw(c));
            v.push(Tok::id("else"));
            v.extend(raw(f));
            v
        }
        Sx::Paren(e) => paren(raw(e)),
        Sx::Arr(items) => {
            let mut v = vec![Tok::LBracket];
            v.extend(sep_by(
                Tok::Comma,
                items
                    .iter()
                    .map(|(sp, x)| {
                        let mut t = if *sp { vec![Tok::Spread] } else { vec![] };
                        t.extend(raw(x));
                        t
                    })
                    .collect(),
            ));
            v.push(Tok::RBracket);
            v
        }
        Sx::Map(es) => {
            let mut v = vec![Tok::LBrace];
            v.extend(sep_by(
                Tok::Comma,
                es.iter()
                    .map(|(k, x)| {
                        let mut t = match k {
                            Some(k) => vec![tok_mkey(k), Tok::Colon],
                            None => vec![Tok::Spread],
                        };
                        t.extend(raw(x));
                        t
                    })
                    .collect(),
            ));
            v.push(Tok::RBrace);
            v
        }
        Sx::Comp(e, k, x, target, cond) => {
            let mut v = vec![Tok::LBracket];
            v.extend(raw(e));
            v.push(Tok::id("for"));
            if let Some(k) = k {
                v.push(Tok::id(k));
                v.push(Tok::Comma);
            }
            v.push(Tok::id(x));
            v.push(Tok::id("in"));
            v.extend(wrap(1, target.lvl(), raw(target)));
            if let Some(c) = cond {
                v.push(Tok::id("if"));
                v.extend(wrap(1, c.lvl(), raw(c)));
            }
            v.push(Tok::RBracket);
            v
        }
    }
}

// ------------------------------------------------------------------ Gallina of an `sx`

fn gal_const(c: &Const) -> String {
    match c {
        Const::Int(i) => format!("(CInt {}%Z)", gal_z(*i as i128)),
        Const::Float(f) => format!("(CFloat {})", gal_str(&format!("{f}"))),
        Const::Str(s) => format!("(CStr {})", gal_str(s)),
        Const::Bool(b) => format!("(CBool {})", gal_bool(*b)),
        Const::Null => "CNone".into(),
    }
}
fn gal_mkey(k: &MKey) -> String {
    match k {
        MKey::Str(s) => format!("(MKStr {})", gal_str(s)),
        MKey::Int(i) => format!("(MKInt {}%Z)", gal_z(*i as i128)),
        MKey::Bool(b) => format!("(MKBool {})", gal_bool(*b)),
    }
}
fn gal_kw(kw: &Kw) -> String {
    let parts: Vec<String> = kw.iter().map(|(k, v)| format!("({}, {})", gal_str(k), gal_sx(v))).collect();
    format!("[{}]", parts.join("; "))
}
fn gal_osx(o: &Option<Box<Sx>>) -> String {
    match o {
        None => "None".into(),
        Some(x) => format!("(Some {})", gal_sx(x)),
    }
}
fn gal_sx(s: &Sx) -> String {
    match s {
        Sx::Const(c) => format!("(SConst {})", gal_const(c)),
        Sx::Var(x) => format!("(SVar {})", gal_str(x)),
        Sx::Attr(e, a, o) => format!("(SAttr {} {} {})", gal_sx(e), gal_str(a), gal_bool(*o)),
        Sx::Item(e, i, o) => format!("(SItem {} {} {})", gal_sx(e), gal_sx(i), gal_bool(*o)),
        Sx::Slice(e, a, b, c, o) => format!(
            "(SSlice {} {} {} {} {})",
            gal_sx(e),
            gal_osx(a),
            gal_osx(b),
            gal_osx(c),
            gal_bool(*o)
        ),
        Sx::Un(u, e) => format!("(SUn {} {})", u.gal(), gal_sx(e)),
        Sx::Bin(o, a, b) => format!("(SBin {} {} {})", o.gal(), gal_sx(a), gal_sx(b)),
        Sx::NotIn(a, b) => format!("(SNotIn {} {})", gal_sx(a), gal_sx(b)),
        Sx::Test(e, n, kw, neg) => {
            format!("(STest {} {} {} {})", gal_sx(e), gal_str(n), gal_kw(kw), gal_bool(*neg))
        }
        Sx::Filter(e, n, kw) => format!("(SFilter {} {} {})", gal_sx(e), gal_str(n), gal_kw(kw)),
        Sx::Call(n, kw) => format!("(SCall {} {})", gal_str(n), gal_kw(kw)),
        Sx::Tern(c, t, f) => format!("(STern {} {} {})", gal_sx(c), gal_sx(t), gal_sx(f)),
        Sx::Paren(e) => format!("(SParen {})", gal_sx(e)),
        Sx::Arr(items) => {
            let parts: Vec<String> =
                items.iter().map(|(sp, x)| format!("({}, {})", gal_bool(*sp), gal_sx(x))).collect();
            format!("(SArr [{}])", parts.join("; "))
        }
        Sx::Map(es) => {
            let parts: Vec<String> = es
                .iter()
                .map(|(k, x)| {
                    let k = match k {
                        None => "None".to_string(),
                        Some(k) => format!("(Some {})", gal_mkey(k)),
                    };
                    format!("({}, {})", k, gal_sx(x))
                })
                .collect();
            format!("(SMap [{}])", parts.join("; "))
        }
        Sx::Comp(e, k, x, t, c) => format!(
            "(SComp {} {} {} {} {})",
            gal_sx(e),
            match k {
                None => "None".to_string(),
                Some(k) => format!("(Some {})", gal_str(k)),
            },
            gal_str(x),
            gal_sx(t),
            gal_osx(c)
        ),
    }
}

// ------------------------------------------------------------------ tokens -> template text

fn wordlike(c: char) -> bool {
    c.is_ascii_alphanumeric() || c == '_'
}

/// would `a` immediately followed by `b` lex differently from `a b`?
fn needs_space(a: &str, b: &str) -> bool {
    let (la, fb) = match (a.chars().last(), b.chars().next()) {
        (Some(x), Some(y)) => (x, y),
        _ => return false,
    };
    if wordlike(la) && wordlike(fb) {
        return true;
    }
    if a.chars().next().map_or(false, |c| c.is_ascii_digit()) && fb == '.' {
        return true;
    }
    let pair = [la, fb];
    const GLUE: [[char; 2]; 16] = [
        ['/', '/'],
        ['*', '*'],
        ['=', '='],
        ['!', '='],
        ['>', '='],
        ['<', '='],
        ['<', '/'],
        ['?', '.'],
        ['?', '['],
        ['.', '.'],
        ['}', '}'],
        ['{', '{'],
        ['{', '%'],
        ['{', '#'],
        ['{', '-'],
        ['-', '}'],
    ];
    GLUE.contains(&pair)
}

fn ws_run(rng: &mut Rng, at_least_one: bool) -> String {
    let n = rng.below(4) + if at_least_one { 1 } else { 0 };
    let mut s = String::new();
    for _ in 0..n {
        s.push(*rng.pick(&[' ', ' ', '\t', '\n']));
    }
    s
}

/// `{{ tokens }}`; layout 0 = single spaces everywhere, 1 = minimal, 2 = random runs
fn render(ts: &[Tok], layout: u8, rng: &mut Rng) -> String {
    let mut out = String::from("{{");
    let mut prev = String::from("{{");
    let mut put = |out: &mut String, prev: &str, cur: &str, rng: &mut Rng| {
        let need = needs_space(prev, cur);
        match layout {
            0 => out.push(' '),
            1 => {
                if need {
                    out.push(' ')
                }
            }
            _ => out.push_str(&ws_run(rng, need)),
        }
        out.push_str(cur);
    };
    for t in ts {
        let cur = t.text(rng);
        put(&mut out, &prev, &cur, rng);
        prev = cur;
    }
    put(&mut out, &prev, "}}", rng);
    out
}

// ------------------------------------------------------------------ the real lexer / parser

fn unescape_debug(s: &str) -> Option<String> {
    let inner = s.strip_prefix('"')?.strip_suffix('"')?;
    let mut out = String::new();
    let mut it = inner.chars();
    while let Some(c) = it.next() {
        if c != '\\' {
            out.push(c);
            continue;
        }
        match it.next()? {
            'n' => out.push('\n'),
            't' => out.push('\t'),
            'r' => out.push('\r'),
            '0' => out.push('\0'),
            '"' => out.push('"'),
            '\'' => out.push('\''),
            '\\' => out.push('\\'),
            'u' => {
                if it.next()? != '{' {
                    return None;
                }
                let mut hex = String::new();
                loop {
                    let h = it.next()?;
                    if h == '}' {
                        break;
                    }
                    hex.push(h);
                }
                out.push(char::from_u32(u32::from_str_radix(&hex, 16).ok()?)?);
            }
            _ => return None,
        }
    }
    Some(out)
}

fn parse_tok(d: &str) -> Option<Tok> {
    let arg = |pre: &str| d.strip_prefix(pre).and_then(|r| r.strip_suffix(')'));
    if let Some(x) = arg("IDENT(") {
        return Some(Tok::Ident(x.to_string()));
    }
    if let Some(x) = arg("STRING(") {
        return unescape_debug(x).map(Tok::Str);
    }
    if let Some(x) = arg("INTEGER(") {
        return x.parse::<i64>().ok().map(Tok::Int);
    }
    if let Some(x) = arg("FLOAT(") {
        return x.parse::<f64>().ok().map(Tok::Float);
    }
    if let Some(x) = arg("BOOL(") {
        return x.parse::<bool>().ok().map(Tok::Bool);
    }
    Some(match d {
        "PLUS" => Tok::Plus,
        "MINUS" => Tok::Minus,
        "MUL" => Tok::Mul,
        "DIV" => Tok::Div,
        "FLOORDIV" => Tok::FloorDiv,
        "POWER" => Tok::Power,
        "MOD" => Tok::Mod,
        "BANG" => Tok::Bang,
        "DOT" => Tok::Dot,
        "QUESTION_MARK_DOT" => Tok::QDot,
        "QUESTION_MARK_LEFT_BRACKET" => Tok::QLBracket,
        "COMMA" => Tok::Comma,
        "COLON" => Tok::Colon,
        "TILDE" => Tok::Tilde,
        "ASSIGN" => Tok::Assign,
        "PIPE" => Tok::Pipe,
        "EQ" => Tok::Eq,
        "NE" => Tok::Ne,
        "GT" => Tok::Gt,
        "GTE" => Tok::Ge,
        "LT" => Tok::Lt,
        "CLOSING_TAG_START" => Tok::ClosingTagStart,
        "LTE" => Tok::Le,
        "LEFT_BRACKET" => Tok::LBracket,
        "RIGHT_BRACKET" => Tok::RBracket,
        "LEFT_PAREN" => Tok::LParen,
        "RIGHT_PAREN" => Tok::RParen,
        "LEFT_BRACE" => Tok::LBrace,
        "RIGHT_BRACE" => Tok::RBrace,
        "SPREAD" => Tok::Spread,
        _ => return None,
    })
}

enum Lexed {
    /// tokens after the `{{`, including the final `TVarEnd`
    Toks(Vec<Tok>),
    Reject(String),
    /// the text is not one `{{ ... }}` block, or a token could not be decoded
    Odd(String),
    Panic(String),
}

fn lex_text(text: &str) -> Lexed {
    match guarded(|| tera::verif::lex(text, Delimiters::default(), true)) {
        Outcome::Panic(m) => Lexed::Panic(m),
        Outcome::Err(_, m) => Lexed::Reject(m),
        Outcome::Ok(v) => {
            let n = v.len();
            if n < 2 || v[0].0 != "VARIABLE_START(false)" || v[n - 1].0 != "VARIABLE_END(false)" {
                return Lexed::Odd(format!("not a single variable block: {:?}", v.iter().map(|x| &x.0).collect::<Vec<_>>()));
            }
            let mut out = Vec::with_capacity(n);
            for (d, _) in &v[1..n - 1] {
                match parse_tok(d) {
                    Some(t) => out.push(t),
                    None => return Lexed::Odd(format!("unexpected token {d}")),
                }
            }
            out.push(Tok::VarEnd);
            Lexed::Toks(out)
        }
    }
}

enum Parsed {
    Accept(String),
    Reject(String),
    Odd(String),
    Panic(String),
}

fn parse_text(text: &str) -> Parsed {
    match guarded(|| tera::verif::parse_expr_display(text, Delimiters::default())) {
        Outcome::Panic(m) => Parsed::Panic(m),
        Outcome::Err(c, m) => {
            if c == "syntax" {
                Parsed::Reject(m)
            } else {
                Parsed::Odd(format!("error of class {c}: {m}"))
            }
        }
        Outcome::Ok(v) => {
            if v.len() == 1 {
                Parsed::Accept(v[0].0.clone())
            } else {
                Parsed::Odd(format!("{} expression nodes", v.len()))
            }
        }
    }
}

fn gal_ostr(o: &Option<String>) -> String {
    match o {
        None => "None".into(),
        Some(s) => format!("(Some {})", gal_str(s)),
    }
}

// @@NEXT@@
