//! C02 — expression parsing (parser half). Families:
//!   ptree : a surface tree `sx`, printed here as template text with exactly the parentheses the
//!           documented precedence table demands; the REAL lexer's tokens of that text and the
//!           Display of the REAL parser's tree   vs  Model.Pratt (raw / parse_top / display)
//!   praw  : mutated / malformed token streams: accept-reject + Display  vs  Model.Pratt.parse_top
//!   eval  : an expression + a context, rendered as `{{ (e) | probe }}` (the value) or `{{ e }}`
//!           (printing)  vs  the reference evaluator Spec.ExprSem.eval (documentation semantics)
use serde_json::json;
use tera::{Context, Delimiters, Tera, Value};
use tvh::*;

// ------------------------------------------------------------------ surface syntax (Pratt.v `sx`)

#[derive(Clone, Copy, Debug, PartialEq, Eq)]
enum Unop {
    Not,
    Minus,
}

#[derive(Clone, Copy, Debug, PartialEq, Eq)]
enum Bop {
    Mul,
    Div,
    Mod,
    Plus,
    Minus,
    FloorDiv,
    Power,
    Lt,
    Gt,
    Le,
    Ge,
    Eq,
    Ne,
    And,
    Or,
    Concat,
    In,
}

const BOPS: [Bop; 17] = [
    Bop::Mul,
    Bop::Div,
    Bop::Mod,
    Bop::Plus,
    Bop::Minus,
    Bop::FloorDiv,
    Bop::Power,
    Bop::Lt,
    Bop::Gt,
    Bop::Le,
    Bop::Ge,
    Bop::Eq,
    Bop::Ne,
    Bop::And,
    Bop::Or,
    Bop::Concat,
    Bop::In,
];

impl Bop {
    fn lvl(self) -> u32 {
        use Bop::*;
        match self {
            Or => 1,
            And => 2,
            In => 4,
            Eq | Ne | Lt | Le | Gt | Ge => 5,
            Plus | Minus => 6,
            Mul | Div | FloorDiv | Mod | Concat => 7,
            Power => 8,
        }
    }
    fn lp(self) -> u32 {
        if self == Bop::Power { self.lvl() + 1 } else { self.lvl() }
    }
    fn rp(self) -> u32 {
        if self == Bop::Power { self.lvl() } else { self.lvl() + 1 }
    }
    fn gal(self) -> &'static str {
        use Bop::*;
        match self {
            Mul => "OMul",
            Div => "ODiv",
            Mod => "OMod",
            Plus => "OPlus",
            Minus => "OMinus",
            FloorDiv => "OFloorDiv",
            Power => "OPower",
            Lt => "OLt",
            Gt => "OGt",
            Le => "OLe",
            Ge => "OGe",
            Eq => "OEq",
            Ne => "ONe",
            And => "OAnd",
            Or => "OOr",
            Concat => "OConcat",
            In => "OIn",
        }
    }
    fn tok(self) -> Tok {
        use Bop::*;
        match self {
            Mul => Tok::Mul,
            Div => Tok::Div,
            Mod => Tok::Mod,
            Plus => Tok::Plus,
            Minus => Tok::Minus,
            FloorDiv => Tok::FloorDiv,
            Power => Tok::Power,
            Lt => Tok::Lt,
            Gt => Tok::Gt,
            Le => Tok::Le,
            Ge => Tok::Ge,
            Eq => Tok::Eq,
            Ne => Tok::Ne,
            And => Tok::id("and"),
            Or => Tok::id("or"),
            Concat => Tok::Tilde,
            In => Tok::id("in"),
        }
    }
    fn class(self) -> &'static str {
        use Bop::*;
        match self {
            Mul | Div | Mod | Plus | Minus | FloorDiv => "op:arith",
            Power => "op:power",
            Lt | Gt | Le | Ge | Eq | Ne => "op:cmp",
            And | Or => "op:logic",
            Concat => "op:concat",
            In => "op:in",
        }
    }
}

const LVL_IS: u32 = 4;
const LVL_PIPE: u32 = 9;
const LVL_ATOM: u32 = 11;

impl Unop {
    fn lvl(self) -> u32 {
        match self {
            Unop::Not => 3,
            Unop::Minus => 10,
        }
    }
    fn gal(self) -> &'static str {
        match self {
            Unop::Not => "UNot",
            Unop::Minus => "UMinus",
        }
    }
    fn tok(self) -> Tok {
        match self {
            Unop::Not => Tok::id("not"),
            Unop::Minus => Tok::Minus,
        }
    }
}

#[derive(Clone, Debug, PartialEq)]
enum Const {
    Int(i64),
    /// the f64; source text is its `{:?}`, the Coq payload its `{}`
    Float(f64),
    Str(String),
    Bool(bool),
    Null,
}

#[derive(Clone, Debug, PartialEq)]
enum MKey {
    Str(String),
    Int(i64),
    Bool(bool),
}

type Kw = Vec<(String, Sx)>;

#[derive(Clone, Debug, PartialEq)]
enum Sx {
    Const(Const),
    Var(String),
    Attr(Box<Sx>, String, bool),
    Item(Box<Sx>, Box<Sx>, bool),
    Slice(Box<Sx>, Option<Box<Sx>>, Option<Box<Sx>>, Option<Box<Sx>>, bool),
    Un(Unop, Box<Sx>),
    Bin(Bop, Box<Sx>, Box<Sx>),
    NotIn(Box<Sx>, Box<Sx>),
    Test(Box<Sx>, String, Kw, bool),
    Filter(Box<Sx>, String, Kw),
    Call(String, Kw),
    Tern(Box<Sx>, Box<Sx>, Box<Sx>),
    Paren(Box<Sx>),
    Arr(Vec<(bool, Sx)>),
    Map(Vec<(Option<MKey>, Sx)>),
    Comp(Box<Sx>, Option<String>, String, Box<Sx>, Option<Box<Sx>>),
    /// a non-empty `Arr` / `Map` written with a trailing comma (`[a, b,]`, `{k: v,}`):
    /// `SArr items true` / `SMap entries true` of the model
    Trail(Box<Sx>),
}

fn bx(s: Sx) -> Box<Sx> {
    Box::new(s)
}
fn var(x: &str) -> Sx {
    Sx::Var(x.to_string())
}
fn bin(o: Bop, a: Sx, b: Sx) -> Sx {
    Sx::Bin(o, bx(a), bx(b))
}
fn un(u: Unop, a: Sx) -> Sx {
    Sx::Un(u, bx(a))
}
fn tern(c: Sx, t: Sx, f: Sx) -> Sx {
    Sx::Tern(bx(c), bx(t), bx(f))
}
fn filt(e: Sx, n: &str) -> Sx {
    Sx::Filter(bx(e), n.to_string(), vec![])
}
fn test(e: Sx, n: &str, neg: bool) -> Sx {
    Sx::Test(bx(e), n.to_string(), vec![], neg)
}
fn item(e: Sx, i: Sx) -> Sx {
    Sx::Item(bx(e), bx(i), false)
}
fn paren_sx(e: Sx) -> Sx {
    Sx::Paren(bx(e))
}
fn cint(i: i64) -> Sx {
    Sx::Const(Const::Int(i))
}

impl Sx {
    fn lvl(&self) -> u32 {
        match self {
            Sx::Bin(o, _, _) => o.lvl(),
            Sx::NotIn(..) => Bop::In.lvl(),
            Sx::Test(..) => LVL_IS,
            Sx::Filter(..) => LVL_PIPE,
            Sx::Un(u, _) => u.lvl(),
            Sx::Tern(..) => 0,
            _ => LVL_ATOM,
        }
    }

    /// height of the tree (an upper bound, doubled, of the parser recursion it needs)
    fn height(&self) -> usize {
        let mut m = 0;
        self.for_children(&mut |c| m = m.max(c.height()));
        m + 1
    }

    fn for_children(&self, f: &mut dyn FnMut(&Sx)) {
        let kw = |kw: &Kw, f: &mut dyn FnMut(&Sx)| {
            for (_, v) in kw {
                f(v)
            }
        };
        match self {
            Sx::Const(_) | Sx::Var(_) => {}
            Sx::Attr(e, _, _) | Sx::Un(_, e) | Sx::Paren(e) | Sx::Trail(e) => f(e),
            Sx::Item(e, i, _) => {
                f(e);
                f(i)
            }
            Sx::Slice(e, a, b, c, _) => {
                f(e);
                for x in [a, b, c].into_iter().flatten() {
                    f(x)
                }
            }
            Sx::Bin(_, a, b) | Sx::NotIn(a, b) => {
                f(a);
                f(b)
            }
            Sx::Test(e, _, k, _) | Sx::Filter(e, _, k) => {
                f(e);
                kw(k, f)
            }
            Sx::Call(_, k) => kw(k, f),
            Sx::Tern(c, t, e) => {
                f(c);
                f(t);
                f(e)
            }
            Sx::Arr(items) => {
                for (_, v) in items {
                    f(v)
                }
            }
            Sx::Map(es) => {
                for (_, v) in es {
                    f(v)
                }
            }
            Sx::Comp(e, _, _, t, c) => {
                f(e);
                f(t);
                if let Some(c) = c {
                    f(c)
                }
            }
        }
    }

    /// number of operators / postfix forms (grouping matters when >= 2)
    fn n_ops(&self) -> usize {
        let own = match self {
            Sx::Bin(..) | Sx::NotIn(..) | Sx::Un(..) | Sx::Test(..) | Sx::Filter(..) | Sx::Tern(..)
            | Sx::Attr(..) | Sx::Item(..) | Sx::Slice(..) => 1,
            _ => 0,
        };
        let mut n = own;
        self.for_children(&mut |c| n += c.n_ops());
        n
    }

    fn classes(&self, out: &mut std::collections::BTreeSet<&'static str>) {
        match self {
            Sx::Bin(o, _, _) => {
                out.insert(o.class());
            }
            Sx::NotIn(..) => {
                out.insert("op:notin");
            }
            Sx::Un(Unop::Not, _) => {
                out.insert("un:not");
            }
            Sx::Un(Unop::Minus, _) => {
                out.insert("un:minus");
            }
            Sx::Test(_, _, k, neg) => {
                out.insert(if *neg { "test:isnot" } else { "test:is" });
                if !k.is_empty() {
                    out.insert("kwargs");
                }
            }
            Sx::Filter(_, _, k) => {
                out.insert("filter");
                if !k.is_empty() {
                    out.insert("kwargs");
                }
            }
            Sx::Call(_, k) => {
                out.insert("call");
                if !k.is_empty() {
                    out.insert("kwargs");
                }
            }
            Sx::Tern(..) => {
                out.insert("ternary");
            }
            Sx::Attr(_, _, o) => {
                out.insert(if *o { "chain:?." } else { "chain:." });
            }
            Sx::Item(_, _, o) => {
                out.insert(if *o { "chain:?[" } else { "subscript" });
            }
            Sx::Slice(_, _, _, _, o) => {
                out.insert(if *o { "slice:?[" } else { "slice" });
            }
            Sx::Paren(_) => {
                out.insert("paren");
            }
            Sx::Arr(_) => {
                out.insert("array");
            }
            Sx::Map(_) => {
                out.insert("map");
            }
            Sx::Comp(..) => {
                out.insert("comprehension");
            }
            Sx::Trail(_) => {
                out.insert("trailing-comma");
            }
            Sx::Const(_) | Sx::Var(_) => {}
        }
        self.for_children(&mut |c| c.classes(out));
    }

    /// `~` whose right operand is (after removing parentheses) a unary / negated form
    fn has_concat_unary(&self) -> bool {
        fn strip(s: &Sx) -> &Sx {
            match s {
                Sx::Paren(e) => strip(e),
                _ => s,
            }
        }
        let own = match self {
            Sx::Bin(Bop::Concat, _, b) => {
                matches!(strip(b), Sx::Un(..) | Sx::NotIn(..) | Sx::Test(_, _, _, true))
            }
            _ => false,
        };
        let mut r = own;
        self.for_children(&mut |c| r = r || c.has_concat_unary());
        r
    }
}

// ------------------------------------------------------------------ tokens (Pratt.v `token`)

#[derive(Clone, Debug, PartialEq)]
enum Tok {
    Int(i64),
    Float(f64),
    Str(String),
    Bool(bool),
    Ident(String),
    Mul,
    Div,
    FloorDiv,
    Mod,
    Plus,
    Minus,
    Power,
    Lt,
    Gt,
    Le,
    Ge,
    Eq,
    Ne,
    Tilde,
    Pipe,
    Assign,
    Dot,
    QDot,
    QLBracket,
    Comma,
    Colon,
    Bang,
    LBracket,
    RBracket,
    LParen,
    RParen,
    LBrace,
    RBrace,
    Spread,
    ClosingTagStart,
    VarEnd,
}

impl Tok {
    fn id(s: &str) -> Tok {
        Tok::Ident(s.to_string())
    }

    fn gal(&self) -> String {
        match self {
            Tok::Int(i) => format!("(TInt {}%Z)", gal_z(*i as i128)),
            Tok::Float(f) => format!("(TFloat {})", gal_str(&format!("{f}"))),
            Tok::Str(s) => format!("(TStr {})", gal_str(s)),
            Tok::Bool(b) => format!("(TBool {})", gal_bool(*b)),
            Tok::Ident(s) => format!("(TIdent {})", gal_str(s)),
            Tok::Mul => "TMul".into(),
            Tok::Div => "TDiv".into(),
            Tok::FloorDiv => "TFloorDiv".into(),
            Tok::Mod => "TMod".into(),
            Tok::Plus => "TPlus".into(),
            Tok::Minus => "TMinus".into(),
            Tok::Power => "TPower".into(),
            Tok::Lt => "TLt".into(),
            Tok::Gt => "TGt".into(),
            Tok::Le => "TLe".into(),
            Tok::Ge => "TGe".into(),
            Tok::Eq => "TEq".into(),
            Tok::Ne => "TNe".into(),
            Tok::Tilde => "TTilde".into(),
            Tok::Pipe => "TPipe".into(),
            Tok::Assign => "TAssign".into(),
            Tok::Dot => "TDot".into(),
            Tok::QDot => "TQDot".into(),
            Tok::QLBracket => "TQLBracket".into(),
            Tok::Comma => "TComma".into(),
            Tok::Colon => "TColon".into(),
            Tok::Bang => "TBang".into(),
            Tok::LBracket => "TLBracket".into(),
            Tok::RBracket => "TRBracket".into(),
            Tok::LParen => "TLParen".into(),
            Tok::RParen => "TRParen".into(),
            Tok::LBrace => "TLBrace".into(),
            Tok::RBrace => "TRBrace".into(),
            Tok::Spread => "TSpread".into(),
            Tok::ClosingTagStart => "TClosingTagStart".into(),
            Tok::VarEnd => "TVarEnd".into(),
        }
    }

    /// source text of one token; `rng` picks the quote style / the spelling of booleans
    fn text(&self, rng: &mut Rng) -> String {
        match self {
            Tok::Int(i) => format!("{i}"),
            Tok::Float(f) => format!("{f:?}"),
            Tok::Str(s) => {
                let qs: Vec<char> = ['"', '\'', '`'].into_iter().filter(|q| !s.contains(*q)).collect();
                let q = *rng.pick(&qs);
                format!("{q}{s}{q}")
            }
            Tok::Bool(b) => {
                let cap = rng.chance(1, 5);
                match (b, cap) {
                    (true, false) => "true",
                    (true, true) => "True",
                    (false, false) => "false",
                    (false, true) => "False",
                }
                .to_string()
            }
            Tok::Ident(s) => s.clone(),
            Tok::Mul => "*".into(),
            Tok::Div => "/".into(),
            Tok::FloorDiv => "//".into(),
            Tok::Mod => "%".into(),
            Tok::Plus => "+".into(),
            Tok::Minus => "-".into(),
            Tok::Power => "**".into(),
            Tok::Lt => "<".into(),
            Tok::Gt => ">".into(),
            Tok::Le => "<=".into(),
            Tok::Ge => ">=".into(),
            Tok::Eq => "==".into(),
            Tok::Ne => "!=".into(),
            Tok::Tilde => "~".into(),
            Tok::Pipe => "|".into(),
            Tok::Assign => "=".into(),
            Tok::Dot => ".".into(),
            Tok::QDot => "?.".into(),
            Tok::QLBracket => "?[".into(),
            Tok::Comma => ",".into(),
            Tok::Colon => ":".into(),
            Tok::Bang => "!".into(),
            Tok::LBracket => "[".into(),
            Tok::RBracket => "]".into(),
            Tok::LParen => "(".into(),
            Tok::RParen => ")".into(),
            Tok::LBrace => "{".into(),
            Tok::RBrace => "}".into(),
            Tok::Spread => "...".into(),
            Tok::ClosingTagStart => "</".into(),
            Tok::VarEnd => "}}".into(),
        }
    }
}

fn gal_toks(ts: &[Tok]) -> String {
    let parts: Vec<String> = ts.iter().map(|t| t.gal()).collect();
    format!("[{}]", parts.join("; "))
}

// ------------------------------------------------------------------ the printer (Pratt.v `raw`)

fn paren(ts: Vec<Tok>) -> Vec<Tok> {
    let mut v = Vec::with_capacity(ts.len() + 2);
    v.push(Tok::LParen);
    v.extend(ts);
    v.push(Tok::RParen);
    v
}
fn wrap(p: u32, l: u32, ts: Vec<Tok>) -> Vec<Tok> {
    if l < p { paren(ts) } else { ts }
}
fn starts_unary(ts: &[Tok]) -> bool {
    match ts.first() {
        Some(Tok::Minus) => true,
        Some(Tok::Ident(s)) => s == "not",
        _ => false,
    }
}
fn tok_const(c: &Const) -> Tok {
    match c {
        Const::Int(i) => Tok::Int(*i),
        Const::Float(f) => Tok::Float(*f),
        Const::Str(s) => Tok::Str(s.clone()),
        Const::Bool(b) => Tok::Bool(*b),
        Const::Null => Tok::id("none"),
    }
}
fn tok_mkey(k: &MKey) -> Tok {
    match k {
        MKey::Str(s) => Tok::Str(s.clone()),
        MKey::Int(i) => Tok::Int(*i),
        MKey::Bool(b) => Tok::Bool(*b),
    }
}
fn sep_by(sep: Tok, parts: Vec<Vec<Tok>>) -> Vec<Tok> {
    let mut out = Vec::new();
    for (i, p) in parts.into_iter().enumerate() {
        if i > 0 {
            out.push(sep.clone());
        }
        out.extend(p);
    }
    out
}
fn kw_toks(kw: &Kw) -> Vec<Tok> {
    sep_by(
        Tok::Comma,
        kw.iter()
            .map(|(k, v)| {
                let mut t = vec![Tok::id(k), Tok::Assign];
                t.extend(raw(v));
                t
            })
            .collect(),
    )
}

fn raw(s: &Sx) -> Vec<Tok> {
    let sub = |e: &Sx, opt: bool| {
        let mut v = wrap(LVL_ATOM, e.lvl(), raw(e));
        v.push(if opt { Tok::QLBracket } else { Tok::LBracket });
        v
    };
    match s {
        Sx::Const(c) => vec![tok_const(c)],
        Sx::Var(x) => vec![Tok::id(x)],
        Sx::Attr(e, a, opt) => {
            let mut v = raw(e);
            v.push(if *opt { Tok::QDot } else { Tok::Dot });
            v.push(Tok::id(a));
            v
        }
        Sx::Item(e, i, opt) => {
            let mut v = sub(e, *opt);
            v.extend(raw(i));
            v.push(Tok::RBracket);
            v
        }
        Sx::Slice(e, a, b, c, opt) => {
            let mut v = sub(e, *opt);
            if let Some(x) = a {
                v.extend(raw(x));
            }
            v.push(Tok::Colon);
            if let Some(x) = b {
                v.extend(raw(x));
            }
            if let Some(x) = c {
                v.push(Tok::Colon);
                v.extend(raw(x));
            }
            v.push(Tok::RBracket);
            v
        }
        Sx::Un(u, e) => {
            let r = raw(e);
            let mut v = vec![u.tok()];
            if e.lvl() < u.lvl() || starts_unary(&r) {
                v.extend(paren(r));
            } else {
                v.extend(r);
            }
            v
        }
        Sx::Bin(o, a, b) => {
            let mut v = wrap(o.lp(), a.lvl(), raw(a));
            v.push(o.tok());
            v.extend(wrap(o.rp(), b.lvl(), raw(b)));
            v
        }
        Sx::NotIn(a, b) => {
            let mut v = wrap(Bop::In.lp(), a.lvl(), raw(a));
            v.push(Tok::id("not"));
            v.push(Tok::id("in"));
            v.extend(wrap(Bop::In.rp(), b.lvl(), raw(b)));
            v
        }
        Sx::Test(e, n, kw, neg) => {
            let mut v = wrap(LVL_IS, e.lvl(), raw(e));
            v.push(Tok::id("is"));
            if *neg {
                v.push(Tok::id("not"));
            }
            v.push(Tok::id(n));
            if !kw.is_empty() {
                v.extend(paren(kw_toks(kw)));
            }
            v
        }
        Sx::Filter(e, n, kw) => {
            let mut v = wrap(LVL_PIPE, e.lvl(), raw(e));
            v.push(Tok::Pipe);
            v.push(Tok::id(n));
            if !kw.is_empty() {
                v.extend(paren(kw_toks(kw)));
            }
            v
        }
        Sx::Call(n, kw) => {
            let mut v = vec![Tok::id(n)];
            v.extend(paren(kw_toks(kw)));
            v
        }
        Sx::Tern(c, t, f) => {
            let mut v = wrap(1, t.lvl(), raw(t));
            v.push(Tok::id("if"));
            v.extend(raw(c));
            v.push(Tok::id("else"));
            v.extend(raw(f));
            v
        }
        Sx::Paren(e) => paren(raw(e)),
        Sx::Trail(e) => {
            let mut v = raw(e);
            let close = v.pop().expect("literal");
            v.push(Tok::Comma);
            v.push(close);
            v
        }
        Sx::Arr(items) => {
            let mut v = vec![Tok::LBracket];
            v.extend(sep_by(
                Tok::Comma,
                items
                    .iter()
                    .map(|(sp, x)| {
                        let mut t = if *sp { vec![Tok::Spread] } else { vec![] };
                        t.extend(raw(x));
                        t
                    })
                    .collect(),
            ));
            v.push(Tok::RBracket);
            v
        }
        Sx::Map(es) => {
            let mut v = vec![Tok::LBrace];
            v.extend(sep_by(
                Tok::Comma,
                es.iter()
                    .map(|(k, x)| {
                        let mut t = match k {
                            Some(k) => vec![tok_mkey(k), Tok::Colon],
                            None => vec![Tok::Spread],
                        };
                        t.extend(raw(x));
                        t
                    })
                    .collect(),
            ));
            v.push(Tok::RBrace);
            v
        }
        Sx::Comp(e, k, x, target, cond) => {
            let mut v = vec![Tok::LBracket];
            v.extend(raw(e));
            v.push(Tok::id("for"));
            if let Some(k) = k {
                v.push(Tok::id(k));
                v.push(Tok::Comma);
            }
            v.push(Tok::id(x));
            v.push(Tok::id("in"));
            v.extend(wrap(1, target.lvl(), raw(target)));
            if let Some(c) = cond {
                v.push(Tok::id("if"));
                v.extend(wrap(1, c.lvl(), raw(c)));
            }
            v.push(Tok::RBracket);
            v
        }
    }
}

// ------------------------------------------------------------------ Gallina of an `sx`

fn gal_const(c: &Const) -> String {
    match c {
        Const::Int(i) => format!("(CInt {}%Z)", gal_z(*i as i128)),
        Const::Float(f) => format!("(CFloat {})", gal_str(&format!("{f}"))),
        Const::Str(s) => format!("(CStr {})", gal_str(s)),
        Const::Bool(b) => format!("(CBool {})", gal_bool(*b)),
        Const::Null => "CNone".into(),
    }
}
fn gal_mkey(k: &MKey) -> String {
    match k {
        MKey::Str(s) => format!("(MKStr {})", gal_str(s)),
        MKey::Int(i) => format!("(MKInt {}%Z)", gal_z(*i as i128)),
        MKey::Bool(b) => format!("(MKBool {})", gal_bool(*b)),
    }
}
fn gal_kw(kw: &Kw) -> String {
    let parts: Vec<String> = kw.iter().map(|(k, v)| format!("({}, {})", gal_str(k), gal_sx(v))).collect();
    format!("[{}]", parts.join("; "))
}
fn gal_osx(o: &Option<Box<Sx>>) -> String {
    match o {
        None => "None".into(),
        Some(x) => format!("(Some {})", gal_sx(x)),
    }
}
fn gal_sx(s: &Sx) -> String {
    match s {
        Sx::Const(c) => format!("(SConst {})", gal_const(c)),
        Sx::Var(x) => format!("(SVar {})", gal_str(x)),
        Sx::Attr(e, a, o) => format!("(SAttr {} {} {})", gal_sx(e), gal_str(a), gal_bool(*o)),
        Sx::Item(e, i, o) => format!("(SItem {} {} {})", gal_sx(e), gal_sx(i), gal_bool(*o)),
        Sx::Slice(e, a, b, c, o) => format!(
            "(SSlice {} {} {} {} {})",
            gal_sx(e),
            gal_osx(a),
            gal_osx(b),
            gal_osx(c),
            gal_bool(*o)
        ),
        Sx::Un(u, e) => format!("(SUn {} {})", u.gal(), gal_sx(e)),
        Sx::Bin(o, a, b) => format!("(SBin {} {} {})", o.gal(), gal_sx(a), gal_sx(b)),
        Sx::NotIn(a, b) => format!("(SNotIn {} {})", gal_sx(a), gal_sx(b)),
        Sx::Test(e, n, kw, neg) => {
            format!("(STest {} {} {} {})", gal_sx(e), gal_str(n), gal_kw(kw), gal_bool(*neg))
        }
        Sx::Filter(e, n, kw) => format!("(SFilter {} {} {})", gal_sx(e), gal_str(n), gal_kw(kw)),
        Sx::Call(n, kw) => format!("(SCall {} {})", gal_str(n), gal_kw(kw)),
        Sx::Tern(c, t, f) => format!("(STern {} {} {})", gal_sx(c), gal_sx(t), gal_sx(f)),
        Sx::Paren(e) => format!("(SParen {})", gal_sx(e)),
        Sx::Trail(e) => {
            // the inner literal with its `trail` flag set
            let g = gal_sx(e);
            let cut = g.strip_suffix(" false)").expect("Trail wraps a non-empty Arr / Map");
            format!("{cut} true)")
        }
        Sx::Arr(items) => {
            let parts: Vec<String> =
                items.iter().map(|(sp, x)| format!("({}, {})", gal_bool(*sp), gal_sx(x))).collect();
            format!("(SArr [{}] false)", parts.join("; "))
        }
        Sx::Map(es) => {
            let parts: Vec<String> = es
                .iter()
                .map(|(k, x)| {
                    let k = match k {
                        None => "None".to_string(),
                        Some(k) => format!("(Some {})", gal_mkey(k)),
                    };
                    format!("({}, {})", k, gal_sx(x))
                })
                .collect();
            format!("(SMap [{}] false)", parts.join("; "))
        }
        Sx::Comp(e, k, x, t, c) => format!(
            "(SComp {} {} {} {} {})",
            gal_sx(e),
            match k {
                None => "None".to_string(),
                Some(k) => format!("(Some {})", gal_str(k)),
            },
            gal_str(x),
            gal_sx(t),
            gal_osx(c)
        ),
    }
}

// ------------------------------------------------------------------ tokens -> template text

fn wordlike(c: char) -> bool {
    c.is_ascii_alphanumeric() || c == '_'
}

/// would `a` immediately followed by `b` lex differently from `a b`?
fn needs_space(a: &str, b: &str) -> bool {
    let (la, fb) = match (a.chars().last(), b.chars().next()) {
        (Some(x), Some(y)) => (x, y),
        _ => return false,
    };
    if wordlike(la) && wordlike(fb) {
        return true;
    }
    if a.chars().next().map_or(false, |c| c.is_ascii_digit()) && fb == '.' {
        return true;
    }
    let pair = [la, fb];
    const GLUE: [[char; 2]; 16] = [
        ['/', '/'],
        ['*', '*'],
        ['=', '='],
        ['!', '='],
        ['>', '='],
        ['<', '='],
        ['<', '/'],
        ['?', '.'],
        ['?', '['],
        ['.', '.'],
        ['}', '}'],
        ['{', '{'],
        ['{', '%'],
        ['{', '#'],
        ['{', '-'],
        ['-', '}'],
    ];
    GLUE.contains(&pair)
}

fn ws_run(rng: &mut Rng, at_least_one: bool) -> String {
    let n = rng.below(4) + if at_least_one { 1 } else { 0 };
    let mut s = String::new();
    for _ in 0..n {
        s.push(*rng.pick(&[' ', ' ', '\t', '\n']));
    }
    s
}

/// `{{ tokens }}`; layout 0 = single spaces everywhere, 1 = minimal, 2 = random runs
fn render(ts: &[Tok], layout: u8, rng: &mut Rng) -> String {
    let mut out = String::from("{{");
    let mut prev = String::from("{{");
    let put = |out: &mut String, prev: &str, cur: &str, rng: &mut Rng| {
        let need = needs_space(prev, cur);
        match layout {
            0 => out.push(' '),
            1 => {
                if need {
                    out.push(' ')
                }
            }
            _ => out.push_str(&ws_run(rng, need)),
        }
        out.push_str(cur);
    };
    for t in ts {
        let cur = t.text(rng);
        put(&mut out, &prev, &cur, rng);
        prev = cur;
    }
    put(&mut out, &prev, "}}", rng);
    out
}

// ------------------------------------------------------------------ the real lexer / parser

fn unescape_debug(s: &str) -> Option<String> {
    let inner = s.strip_prefix('"')?.strip_suffix('"')?;
    let mut out = String::new();
    let mut it = inner.chars();
    while let Some(c) = it.next() {
        if c != '\\' {
            out.push(c);
            continue;
        }
        match it.next()? {
            'n' => out.push('\n'),
            't' => out.push('\t'),
            'r' => out.push('\r'),
            '0' => out.push('\0'),
            '"' => out.push('"'),
            '\'' => out.push('\''),
            '\\' => out.push('\\'),
            'u' => {
                if it.next()? != '{' {
                    return None;
                }
                let mut hex = String::new();
                loop {
                    let h = it.next()?;
                    if h == '}' {
                        break;
                    }
                    hex.push(h);
                }
                out.push(char::from_u32(u32::from_str_radix(&hex, 16).ok()?)?);
            }
            _ => return None,
        }
    }
    Some(out)
}

fn parse_tok(d: &str) -> Option<Tok> {
    let arg = |pre: &str| d.strip_prefix(pre).and_then(|r| r.strip_suffix(')'));
    if let Some(x) = arg("IDENT(") {
        return Some(Tok::Ident(x.to_string()));
    }
    if let Some(x) = arg("STRING(") {
        return unescape_debug(x).map(Tok::Str);
    }
    if let Some(x) = arg("INTEGER(") {
        return x.parse::<i64>().ok().map(Tok::Int);
    }
    if let Some(x) = arg("FLOAT(") {
        return x.parse::<f64>().ok().map(Tok::Float);
    }
    if let Some(x) = arg("BOOL(") {
        return x.parse::<bool>().ok().map(Tok::Bool);
    }
    Some(match d {
        "PLUS" => Tok::Plus,
        "MINUS" => Tok::Minus,
        "MUL" => Tok::Mul,
        "DIV" => Tok::Div,
        "FLOORDIV" => Tok::FloorDiv,
        "POWER" => Tok::Power,
        "MOD" => Tok::Mod,
        "BANG" => Tok::Bang,
        "DOT" => Tok::Dot,
        "QUESTION_MARK_DOT" => Tok::QDot,
        "QUESTION_MARK_LEFT_BRACKET" => Tok::QLBracket,
        "COMMA" => Tok::Comma,
        "COLON" => Tok::Colon,
        "TILDE" => Tok::Tilde,
        "ASSIGN" => Tok::Assign,
        "PIPE" => Tok::Pipe,
        "EQ" => Tok::Eq,
        "NE" => Tok::Ne,
        "GT" => Tok::Gt,
        "GTE" => Tok::Ge,
        "LT" => Tok::Lt,
        "CLOSING_TAG_START" => Tok::ClosingTagStart,
        "LTE" => Tok::Le,
        "LEFT_BRACKET" => Tok::LBracket,
        "RIGHT_BRACKET" => Tok::RBracket,
        "LEFT_PAREN" => Tok::LParen,
        "RIGHT_PAREN" => Tok::RParen,
        "LEFT_BRACE" => Tok::LBrace,
        "RIGHT_BRACE" => Tok::RBrace,
        "SPREAD" => Tok::Spread,
        _ => return None,
    })
}

enum Lexed {
    /// tokens after the `{{`, including the final `TVarEnd`
    Toks(Vec<Tok>),
    Reject(String),
    /// the text is not one `{{ ... }}` block, or a token could not be decoded
    Odd(String),
    Panic(String),
}

fn lex_text(text: &str) -> Lexed {
    match guarded(|| tera::verif::lex(text, Delimiters::default(), true)) {
        Outcome::Panic(m) => Lexed::Panic(m),
        Outcome::Err(_, m) => Lexed::Reject(m),
        Outcome::Ok(v) => {
            let n = v.len();
            if n < 2 || v[0].0 != "VARIABLE_START(false)" || v[n - 1].0 != "VARIABLE_END(false)" {
                return Lexed::Odd(format!("not a single variable block: {:?}", v.iter().map(|x| &x.0).collect::<Vec<_>>()));
            }
            let mut out = Vec::with_capacity(n);
            for (d, _) in &v[1..n - 1] {
                match parse_tok(d) {
                    Some(t) => out.push(t),
                    None => return Lexed::Odd(format!("unexpected token {d}")),
                }
            }
            out.push(Tok::VarEnd);
            Lexed::Toks(out)
        }
    }
}

enum Parsed {
    Accept(String),
    Reject(String),
    Odd(String),
    Panic(String),
}

fn parse_text(text: &str) -> Parsed {
    match guarded(|| tera::verif::parse_expr_display(text, Delimiters::default())) {
        Outcome::Panic(m) => Parsed::Panic(m),
        Outcome::Err(c, m) => {
            if c == "syntax" {
                Parsed::Reject(m)
            } else {
                Parsed::Odd(format!("error of class {c}: {m}"))
            }
        }
        Outcome::Ok(v) => {
            if v.len() == 1 {
                Parsed::Accept(v[0].0.clone())
            } else {
                Parsed::Odd(format!("{} expression nodes", v.len()))
            }
        }
    }
}

fn gal_ostr(o: &Option<String>) -> String {
    match o {
        None => "None".into(),
        Some(s) => format!("(Some {})", gal_str(s)),
    }
}

// ------------------------------------------------------------------ decorations

fn map_kw(kw: &Kw, f: &mut dyn FnMut(&Sx) -> Sx) -> Kw {
    kw.iter().map(|(k, v)| (k.clone(), f(v))).collect()
}
fn map_opt(o: &Option<Box<Sx>>, f: &mut dyn FnMut(&Sx) -> Sx) -> Option<Box<Sx>> {
    o.as_ref().map(|x| bx(f(x)))
}

/// every operand / sub-expression in explicit parentheses; `chainpos`: the node is the base of
/// a `.`/`?.`/`?[` access (the real parser only continues an identifier chain there), so it
/// is not wrapped itself
fn full(s: &Sx) -> Sx {
    fn p(s: &Sx) -> Sx {
        Sx::Paren(bx(full(s)))
    }
    /// base of an access: unwrapped when it must stay a chain
    fn base(e: &Sx, must_chain: bool) -> Sx {
        if must_chain { full(e) } else { p(e) }
    }
    match s {
        Sx::Const(_) | Sx::Var(_) => s.clone(),
        Sx::Attr(e, a, o) => Sx::Attr(bx(chain_full(e)), a.clone(), *o),
        Sx::Item(e, i, o) => Sx::Item(bx(if *o { chain_full(e) } else { base(e, false) }), bx(p(i)), *o),
        Sx::Slice(e, a, b, c, o) => Sx::Slice(
            bx(if *o { chain_full(e) } else { base(e, false) }),
            map_opt(a, &mut p),
            map_opt(b, &mut p),
            map_opt(c, &mut p),
            *o,
        ),
        Sx::Un(u, e) => Sx::Un(*u, bx(p(e))),
        Sx::Bin(o, a, b) => Sx::Bin(*o, bx(p(a)), bx(p(b))),
        Sx::NotIn(a, b) => Sx::NotIn(bx(p(a)), bx(p(b))),
        Sx::Test(e, n, kw, neg) => Sx::Test(bx(p(e)), n.clone(), map_kw(kw, &mut p), *neg),
        Sx::Filter(e, n, kw) => Sx::Filter(bx(p(e)), n.clone(), map_kw(kw, &mut p)),
        Sx::Call(n, kw) => Sx::Call(n.clone(), map_kw(kw, &mut p)),
        Sx::Tern(c, t, f) => Sx::Tern(bx(p(c)), bx(p(t)), bx(p(f))),
        Sx::Paren(e) => Sx::Paren(bx(full(e))),
        Sx::Trail(e) => Sx::Trail(bx(full(e))),
        Sx::Arr(items) => Sx::Arr(items.iter().map(|(sp, x)| (*sp, p(x))).collect()),
        Sx::Map(es) => Sx::Map(es.iter().map(|(k, x)| (k.clone(), p(x))).collect()),
        Sx::Comp(e, k, x, t, c) => Sx::Comp(bx(p(e)), k.clone(), x.clone(), bx(p(t)), map_opt(c, &mut p)),
    }
}

/// `full` of a node in chain position: bases stay bare all the way down
fn chain_full(s: &Sx) -> Sx {
    fn p(s: &Sx) -> Sx {
        Sx::Paren(bx(full(s)))
    }
    match s {
        Sx::Attr(e, a, o) => Sx::Attr(bx(chain_full(e)), a.clone(), *o),
        Sx::Item(e, i, o) => Sx::Item(bx(chain_full(e)), bx(p(i)), *o),
        Sx::Slice(e, a, b, c, o) => {
            Sx::Slice(bx(chain_full(e)), map_opt(a, &mut p), map_opt(b, &mut p), map_opt(c, &mut p), *o)
        }
        _ => full(s),
    }
}

/// parentheses at random positions (probability 1/4, sometimes doubled), never in chain position
fn redundant(s: &Sx, rng: &mut Rng, chainpos: bool) -> Sx {
    let inner = match s {
        Sx::Const(_) | Sx::Var(_) => s.clone(),
        Sx::Attr(e, a, o) => Sx::Attr(bx(redundant(e, rng, true)), a.clone(), *o),
        Sx::Item(e, i, o) => {
            let b = redundant(e, rng, chainpos || *o);
            Sx::Item(bx(b), bx(redundant(i, rng, false)), *o)
        }
        Sx::Slice(e, a, b, c, o) => {
            let base = redundant(e, rng, chainpos || *o);
            let a = a.as_ref().map(|x| bx(redundant(x, rng, false)));
            let b = b.as_ref().map(|x| bx(redundant(x, rng, false)));
            let c = c.as_ref().map(|x| bx(redundant(x, rng, false)));
            Sx::Slice(bx(base), a, b, c, *o)
        }
        Sx::Un(u, e) => Sx::Un(*u, bx(redundant(e, rng, false))),
        Sx::Bin(o, a, b) => {
            let a = redundant(a, rng, false);
            Sx::Bin(*o, bx(a), bx(redundant(b, rng, false)))
        }
        Sx::NotIn(a, b) => {
            let a = redundant(a, rng, false);
            Sx::NotIn(bx(a), bx(redundant(b, rng, false)))
        }
        Sx::Test(e, n, kw, neg) => {
            let e = redundant(e, rng, false);
            Sx::Test(bx(e), n.clone(), map_kw(kw, &mut |v| redundant(v, rng, false)), *neg)
        }
        Sx::Filter(e, n, kw) => {
            let e = redundant(e, rng, false);
            Sx::Filter(bx(e), n.clone(), map_kw(kw, &mut |v| redundant(v, rng, false)))
        }
        Sx::Call(n, kw) => Sx::Call(n.clone(), map_kw(kw, &mut |v| redundant(v, rng, false))),
        Sx::Tern(c, t, f) => {
            let c = redundant(c, rng, false);
            let t = redundant(t, rng, false);
            Sx::Tern(bx(c), bx(t), bx(redundant(f, rng, false)))
        }
        Sx::Paren(e) => Sx::Paren(bx(redundant(e, rng, false))),
        Sx::Trail(e) => match redundant(e, rng, true) {
            Sx::Trail(i) => Sx::Trail(i),
            i => Sx::Trail(bx(i)),
        },
        // a trailing comma is a decoration too (non-empty literals only)
        Sx::Arr(items) => {
            let a = Sx::Arr(items.iter().map(|(sp, x)| (*sp, redundant(x, rng, false))).collect());
            if !items.is_empty() && rng.chance(1, 3) { Sx::Trail(bx(a)) } else { a }
        }
        Sx::Map(es) => {
            let m = Sx::Map(es.iter().map(|(k, x)| (k.clone(), redundant(x, rng, false))).collect());
            if !es.is_empty() && rng.chance(1, 3) { Sx::Trail(bx(m)) } else { m }
        }
        Sx::Comp(e, k, x, t, c) => {
            let e = redundant(e, rng, false);
            let t = redundant(t, rng, false);
            let c = c.as_ref().map(|c| bx(redundant(c, rng, false)));
            Sx::Comp(bx(e), k.clone(), x.clone(), bx(t), c)
        }
    };
    if !chainpos && rng.chance(1, 4) {
        if rng.chance(1, 5) { Sx::Paren(bx(Sx::Paren(bx(inner)))) } else { Sx::Paren(bx(inner)) }
    } else {
        inner
    }
}

// ------------------------------------------------------------------ case emission

struct Run {
    ptree: Sink,
    praw: Sink,
    meta: Meta,
    /// printed texts (min decoration) kept as mutation seeds for praw
    seeds: Vec<Vec<Tok>>,
    seed_cap: usize,
}

/// What the implementation said for one emitted tree.
struct Emitted {
    text: String,
    /// Some(display) = accepted
    disp: Option<String>,
    /// 2*height+1 of the printed tree: an upper bound of the recursion the parser needs
    depth_bound: usize,
}

impl Run {
    fn emit_tree(&mut self, s: &Sx, deco: &str, layout: u8, shape: &str, rng: &mut Rng) -> Option<Emitted> {
        let toks = raw(s);
        let text = render(&toks, layout, rng);
        let base = json!({"text": text, "decoration": deco, "layout": layout, "shape": shape});
        self.meta.oracle_checks += 1;
        let lexed = match lex_text(&text) {
            Lexed::Toks(t) => t,
            Lexed::Reject(m) => {
                self.meta.oracle_fail("lexer rejected printed expression", None, json!({"case": base, "msg": m}));
                return None;
            }
            Lexed::Odd(m) => {
                self.meta.oracle_fail("lexer: printed expression is not one variable block", None, json!({"case": base, "msg": m}));
                return None;
            }
            Lexed::Panic(m) => {
                self.meta.oracle_fail(&format!("panic in lexer: {m}"), None, base);
                return None;
            }
        };
        self.meta.oracle_checks += 1;
        let disp = match parse_text(&text) {
            Parsed::Accept(d) => Some(d),
            Parsed::Reject(_) => None,
            Parsed::Odd(m) => {
                self.meta.oracle_fail(&format!("parser hook: {m}"), None, base);
                return None;
            }
            Parsed::Panic(m) => {
                self.meta.oracle_fail(&format!("panic in parser: {m}"), None, base);
                return None;
            }
        };
        if deco == "min" && self.seeds.len() < self.seed_cap && lexed.len() >= 3 {
            self.seeds.push(lexed[..lexed.len() - 1].to_vec());
        }
        let g = format!(
            "{{| pt_sx := {}; pt_toks := {}; pt_impl := {} |}}",
            gal_sx(s),
            gal_toks(&lexed),
            gal_ostr(&disp)
        );
        let mut desc = base;
        desc["impl"] = json!(disp);
        let mut cls = std::collections::BTreeSet::new();
        s.classes(&mut cls);
        let deco_tag = format!("deco:{deco}");
        let layout_tag = format!("layout:{layout}");
        let gen_tag = format!("gen:{}", shape.split(':').next().unwrap_or("?"));
        let mut tags: Vec<&str> = vec![
            deco_tag.as_str(),
            layout_tag.as_str(),
            gen_tag.as_str(),
            if disp.is_some() { "impl:ok" } else { "impl:err" },
        ];
        tags.extend(cls.iter().copied());
        self.ptree.push(g, desc, s.n_ops() >= 2, None, &tags);
        Some(Emitted { text, disp, depth_bound: 2 * s.height() + 1 })
    }

    /// one tree in several decorations + the oracle "parentheses and whitespace never change the parse"
    fn emit_decorated(&mut self, s: &Sx, shape: &str, with_redundant: bool, fixed_layout: Option<u8>, rng: &mut Rng) {
        let lay = |rng: &mut Rng| fixed_layout.unwrap_or(rng.below(3) as u8);
        let l0 = lay(rng);
        let min = self.emit_tree(s, "min", l0, shape, rng);
        let mut others = Vec::new();
        let f = full(s);
        let l1 = lay(rng);
        others.push(self.emit_tree(&f, "full", l1, shape, rng));
        if with_redundant {
            let r = redundant(s, rng, false);
            let l2 = lay(rng);
            others.push(self.emit_tree(&r, "redundant", l2, shape, rng));
        }
        let Some(min) = min else { return };
        let Some(d0) = &min.disp else { return };
        if s.has_concat_unary() {
            return;
        }
        for o in others.into_iter().flatten() {
            self.meta.oracle_checks += 1;
            let bad = match &o.disp {
                Some(d) => d != d0,
                // more parentheses may exceed the recursion limit: only a failure when they cannot
                None => o.depth_bound < 38,
            };
            if bad {
                self.meta.oracle_fail(
                    "decoration changes the parse",
                    None,
                    json!({"texts": [min.text, o.text], "displays": [min.disp, o.disp], "shape": shape}),
                );
            }
        }
    }

    fn emit_raw_text(&mut self, text: &str, origin: &str) {
        self.meta.oracle_checks += 1;
        let lexed = match lex_text(text) {
            Lexed::Toks(t) => t,
            Lexed::Reject(_) | Lexed::Odd(_) => return,
            Lexed::Panic(m) => {
                self.meta.oracle_fail(&format!("panic in lexer: {m}"), None, json!({"text": text, "origin": origin}));
                return;
            }
        };
        self.meta.oracle_checks += 1;
        let disp = match parse_text(text) {
            Parsed::Accept(d) => Some(d),
            Parsed::Reject(_) => None,
            Parsed::Odd(m) => {
                // several / no expression nodes cannot come from one `{{ }}` block
                self.meta.oracle_fail(&format!("parser hook: {m}"), None, json!({"text": text, "origin": origin}));
                return;
            }
            Parsed::Panic(m) => {
                self.meta.oracle_fail(&format!("panic in parser: {m}"), None, json!({"text": text, "origin": origin}));
                return;
            }
        };
        let g = format!("{{| pw_toks := {}; pw_impl := {} |}}", gal_toks(&lexed), gal_ostr(&disp));
        let desc = json!({"text": text, "origin": origin, "impl": disp});
        let gen_tag = format!("gen:{}", origin.split(':').next().unwrap_or("?"));
        let tags = [gen_tag.as_str(), if disp.is_some() { "impl:ok" } else { "impl:err" }];
        self.praw.push(g, desc, lexed.len() >= 5, None, &tags);
    }
}

// ------------------------------------------------------------------ (E) exhaustive shapes

/// the 17 infix operators + `not in`
#[derive(Clone, Copy)]
enum Op18 {
    B(Bop),
    NotIn,
}
impl Op18 {
    fn all() -> Vec<Op18> {
        let mut v: Vec<Op18> = BOPS.iter().map(|o| Op18::B(*o)).collect();
        v.push(Op18::NotIn);
        v
    }
    fn mk(self, a: Sx, b: Sx) -> Sx {
        match self {
            Op18::B(o) => bin(o, a, b),
            Op18::NotIn => Sx::NotIn(bx(a), bx(b)),
        }
    }
    fn name(self) -> String {
        match self {
            Op18::B(o) => format!("{o:?}"),
            Op18::NotIn => "NotIn".into(),
        }
    }
}

fn exhaustive_shapes() -> Vec<(String, Sx)> {
    let (a, b, c, d) = (var("a"), var("b"), var("c"), var("d"));
    let ops = Op18::all();
    let uns = [Unop::Not, Unop::Minus];
    let mut out: Vec<(String, Sx)> = Vec::new();
    let mut add = |tag: String, s: Sx| out.push((format!("E:{tag}"), s));

    // (1) two infix operators, both groupings
    for o1 in &ops {
        for o2 in &ops {
            add(format!("1L:{}:{}", o1.name(), o2.name()), o2.mk(o1.mk(a.clone(), b.clone()), c.clone()));
            add(format!("1R:{}:{}", o1.name(), o2.name()), o1.mk(a.clone(), o2.mk(b.clone(), c.clone())));
        }
    }
    for o in &ops {
        for u in uns {
            // (2) unary on the left: (u a) op b  /  u (a op b)
            add(format!("2in:{u:?}:{}", o.name()), o.mk(un(u, a.clone()), b.clone()));
            add(format!("2out:{u:?}:{}", o.name()), un(u, o.mk(a.clone(), b.clone())));
            // (3) unary right operand
            add(format!("3:{}:{u:?}", o.name()), o.mk(a.clone(), un(u, b.clone())));
        }
        // (4) filter
        add(format!("4out:{}", o.name()), filt(o.mk(a.clone(), b.clone()), "f"));
        add(format!("4in:{}", o.name()), o.mk(a.clone(), filt(b.clone(), "f")));
        add(format!("4inl:{}", o.name()), o.mk(filt(a.clone(), "f"), b.clone()));
        // (5) test, plain and negated
        for neg in [false, true] {
            add(format!("5out:{}:{neg}", o.name()), test(o.mk(a.clone(), b.clone()), "t", neg));
            add(format!("5in:{}:{neg}", o.name()), o.mk(a.clone(), test(b.clone(), "t", neg)));
            add(format!("5inl:{}:{neg}", o.name()), o.mk(test(a.clone(), "t", neg), b.clone()));
        }
        // (6) ternary against an infix operator
        add(format!("6a:{}", o.name()), tern(b.clone(), a.clone(), o.mk(c.clone(), d.clone())));
        add(format!("6b:{}", o.name()), o.mk(tern(b.clone(), a.clone(), c.clone()), d.clone()));
        add(format!("6c:{}", o.name()), tern(c.clone(), o.mk(a.clone(), b.clone()), d.clone()));
        add(format!("6d:{}", o.name()), o.mk(a.clone(), tern(c.clone(), b.clone(), d.clone())));
        add(format!("6e:{}", o.name()), tern(o.mk(a.clone(), b.clone()), c.clone(), d.clone()));
    }
    // (6) ternary in the other positions
    let t = tern(b.clone(), a.clone(), c.clone());
    let e = var("e");
    add("6:tern-in-cond".into(), tern(t.clone(), d.clone(), e.clone()));
    add("6:tern-in-true".into(), tern(d.clone(), t.clone(), e.clone()));
    add("6:tern-in-false".into(), tern(d.clone(), e.clone(), t.clone()));
    for u in uns {
        add(format!("6:tern-under-{u:?}"), un(u, t.clone()));
        add(format!("6:{u:?}-in-tern-true"), tern(b.clone(), un(u, a.clone()), c.clone()));
        add(format!("6:{u:?}-in-tern-cond"), tern(un(u, b.clone()), a.clone(), c.clone()));
        add(format!("6:{u:?}-in-tern-false"), tern(b.clone(), a.clone(), un(u, c.clone())));
    }
    add("6:tern-under-filter".into(), filt(t.clone(), "f"));
    add("6:filter-in-tern".into(), tern(filt(b.clone(), "f"), filt(a.clone(), "f"), filt(c.clone(), "f")));
    for neg in [false, true] {
        add(format!("6:tern-under-test:{neg}"), test(t.clone(), "t", neg));
        add(format!("6:test-in-tern:{neg}"), tern(test(b.clone(), "t", neg), test(a.clone(), "t", neg), test(c.clone(), "t", neg)));
    }
    add("6:tern-as-index".into(), item(d.clone(), t.clone()));
    add("6:tern-as-opt-index".into(), Sx::Item(bx(d.clone()), bx(t.clone()), true));
    add("6:tern-as-base".into(), item(t.clone(), d.clone()));
    add("6:tern-as-kwarg".into(), Sx::Call("f".into(), vec![("k".into(), t.clone())]));
    add("6:tern-as-filter-kwarg".into(), Sx::Filter(bx(d.clone()), "f".into(), vec![("k".into(), t.clone())]));
    add("6:tern-as-test-kwarg".into(), Sx::Test(bx(d.clone()), "t".into(), vec![("k".into(), t.clone())], false));
    add("6:tern-as-slice-start".into(), Sx::Slice(bx(d.clone()), Some(bx(t.clone())), None, None, false));
    add("6:tern-as-slice-stop".into(), Sx::Slice(bx(d.clone()), None, Some(bx(t.clone())), None, false));
    add("6:tern-as-slice-step".into(), Sx::Slice(bx(d.clone()), None, None, Some(bx(t.clone())), false));
    add("6:tern-in-array".into(), Sx::Arr(vec![(false, t.clone()), (true, t.clone())]));
    add("6:tern-in-map".into(), Sx::Map(vec![(Some(MKey::Str("k".into())), t.clone()), (None, t.clone())]));
    add("6:tern-in-comp-expr".into(), Sx::Comp(bx(t.clone()), None, "x".into(), bx(d.clone()), None));
    add("6:tern-in-comp-target".into(), Sx::Comp(bx(d.clone()), None, "x".into(), bx(t.clone()), None));
    add("6:tern-in-comp-cond".into(), Sx::Comp(bx(d.clone()), Some("k".into()), "x".into(), bx(e.clone()), Some(bx(t.clone()))));

    // (7) unary / filter / test against each other
    for u1 in uns {
        for u2 in uns {
            add(format!("7:{u1:?}-{u2:?}"), un(u1, un(u2, a.clone())));
        }
        add(format!("7:{u1:?}-under-filter"), filt(un(u1, a.clone()), "f"));
        add(format!("7:filter-under-{u1:?}"), un(u1, filt(a.clone(), "f")));
        for neg in [false, true] {
            add(format!("7:{u1:?}-under-test:{neg}"), test(un(u1, a.clone()), "t", neg));
            add(format!("7:test-under-{u1:?}:{neg}"), un(u1, test(a.clone(), "t", neg)));
        }
        add(format!("7:notin-under-{u1:?}"), un(u1, Sx::NotIn(bx(a.clone()), bx(b.clone()))));
    }
    for neg in [false, true] {
        add(format!("7:filter-under-test:{neg}"), test(filt(a.clone(), "f"), "t", neg));
        add(format!("7:test-under-filter:{neg}"), filt(test(a.clone(), "t", neg), "f"));
        add(format!("7:test-under-test:{neg}"), test(test(a.clone(), "t", neg), "t2", neg));
    }
    add("7:filter-under-filter".into(), filt(filt(a.clone(), "f"), "g"));

    // (7) subscripts / slices on every kind of base
    let bases: Vec<(&str, Sx)> = vec![
        ("var", a.clone()),
        ("attr", Sx::Attr(bx(a.clone()), "x".into(), false)),
        ("str", Sx::Const(Const::Str("s".into()))),
        ("int", cint(1)),
        ("float", Sx::Const(Const::Float(1.5))),
        ("bool", Sx::Const(Const::Bool(true))),
        ("none", Sx::Const(Const::Null)),
        ("call", Sx::Call("f".into(), vec![])),
        ("paren", paren_sx(bin(Bop::Plus, a.clone(), b.clone()))),
        ("array", Sx::Arr(vec![(false, a.clone()), (false, b.clone())])),
        ("constarray", Sx::Arr(vec![(false, cint(1)), (false, cint(2))])),
        ("map", Sx::Map(vec![(Some(MKey::Str("k".into())), a.clone())])),
        ("comp", Sx::Comp(bx(a.clone()), None, "x".into(), bx(b.clone()), None)),
        ("filter", filt(a.clone(), "f")),
        ("test", test(a.clone(), "t", false)),
        ("nottest", test(a.clone(), "t", true)),
        ("minus", un(Unop::Minus, a.clone())),
        ("not", un(Unop::Not, a.clone())),
        ("plus", bin(Bop::Plus, a.clone(), b.clone())),
        ("power", bin(Bop::Power, a.clone(), b.clone())),
        ("notin", Sx::NotIn(bx(a.clone()), bx(b.clone()))),
        ("tern", t.clone()),
        ("item", item(a.clone(), b.clone())),
        ("slice", Sx::Slice(bx(a.clone()), None, None, None, false)),
    ];
    for (n, base) in &bases {
        add(format!("7:item-on-{n}"), item(base.clone(), c.clone()));
        add(format!("7:slice-on-{n}"), Sx::Slice(bx(base.clone()), Some(bx(c.clone())), None, None, false));
        add(format!("7:slice3-on-{n}"), Sx::Slice(bx(base.clone()), None, Some(bx(c.clone())), Some(bx(d.clone())), false));
        add(format!("7:item-item-on-{n}"), item(item(base.clone(), c.clone()), d.clone()));
        // each kind also as an index / a slice bound
        add(format!("7:{n}-as-index"), item(d.clone(), base.clone()));
        add(format!("7:{n}-as-bounds"), Sx::Slice(bx(d.clone()), Some(bx(base.clone())), Some(bx(base.clone())), Some(bx(base.clone())), false));
    }
    // all 8 subsets of slice bounds, plain and optional
    for m in 0..8u8 {
        for opt in [false, true] {
            let pick = |bit: u8, v: &Sx| if m & bit != 0 { Some(bx(v.clone())) } else { None };
            add(format!("7:slice-bounds:{m}:{opt}"), Sx::Slice(bx(a.clone()), pick(1, &b), pick(2, &c), pick(4, &d), opt));
        }
    }

    // (8) array / map literals and list comprehensions (parse_array / parse_map /
    // parse_list_comprehension): empty, nested, every placement of spreads among 1..3 elements,
    // folded (literal-only) and unfolded, with and without a trailing comma
    let trail = |s: Sx| Sx::Trail(bx(s));
    add("8:empty-array".into(), Sx::Arr(vec![]));
    add("8:empty-map".into(), Sx::Map(vec![]));
    add("8:empty-in-array".into(), Sx::Arr(vec![(false, Sx::Arr(vec![])), (false, Sx::Map(vec![]))]));
    add("8:empty-in-map".into(), Sx::Map(vec![(Some(MKey::Int(0)), Sx::Arr(vec![])), (Some(MKey::Bool(true)), Sx::Map(vec![]))]));
    add("8:spread-empty".into(), Sx::Arr(vec![(true, Sx::Arr(vec![])), (true, Sx::Arr(vec![]))]));
    add("8:map-spread-empty".into(), Sx::Map(vec![(None, Sx::Map(vec![])), (None, Sx::Map(vec![]))]));
    let elems = [a.clone(), bin(Bop::Plus, b.clone(), cint(1)), c.clone()];
    let keys = [MKey::Str("k".into()), MKey::Int(7), MKey::Bool(false)];
    for n in 1..=3usize {
        for mask in 0..(1u8 << n) {
            let items: Vec<(bool, Sx)> = (0..n).map(|i| (mask & (1 << i) != 0, elems[i].clone())).collect();
            let es: Vec<(Option<MKey>, Sx)> =
                (0..n).map(|i| (if mask & (1 << i) != 0 { None } else { Some(keys[i].clone()) }, elems[i].clone())).collect();
            add(format!("8:array-spreads:{n}:{mask}"), Sx::Arr(items.clone()));
            add(format!("8T:array-spreads:{n}:{mask}"), trail(Sx::Arr(items)));
            add(format!("8:map-spreads:{n}:{mask}"), Sx::Map(es.clone()));
            add(format!("8T:map-spreads:{n}:{mask}"), trail(Sx::Map(es)));
        }
        // literal-only: folded into a constant
        let citems: Vec<(bool, Sx)> = (0..n).map(|i| (false, cint(i as i64))).collect();
        let ces: Vec<(Option<MKey>, Sx)> = (0..n).map(|i| (Some(keys[i].clone()), cint(i as i64))).collect();
        add(format!("8:const-array:{n}"), Sx::Arr(citems.clone()));
        add(format!("8T:const-array:{n}"), trail(Sx::Arr(citems.clone())));
        add(format!("8:const-map:{n}"), Sx::Map(ces.clone()));
        add(format!("8T:const-map:{n}"), trail(Sx::Map(ces.clone())));
        // a folded literal inside an unfolded one and the other way round, trailing commas at both levels
        add(format!("8:const-in-array:{n}"), Sx::Arr(vec![(false, a.clone()), (false, trail(Sx::Arr(citems.clone()))), (true, Sx::Arr(citems.clone()))]));
        add(format!("8T:const-in-map:{n}"), trail(Sx::Map(vec![(Some(MKey::Str("m".into())), trail(Sx::Map(ces.clone()))), (None, Sx::Map(ces)), (Some(MKey::Int(1)), a.clone())])));
    }
    // nesting (two array dimensions are the limit; maps do not count)
    add("8:array-in-array".into(), Sx::Arr(vec![(false, Sx::Arr(vec![(false, a.clone()), (true, b.clone())])), (true, Sx::Arr(vec![(false, c.clone())]))]));
    add("8T:array-in-array".into(), trail(Sx::Arr(vec![(false, trail(Sx::Arr(vec![(false, a.clone()), (true, b.clone())]))), (true, trail(Sx::Arr(vec![(false, c.clone())])))])));
    add("8:map-in-map-in-map".into(), Sx::Map(vec![(Some(MKey::Str("x".into())), Sx::Map(vec![(None, a.clone()), (Some(MKey::Int(1)), Sx::Map(vec![(Some(MKey::Bool(true)), b.clone())]))]))]));
    add("8:array-in-map-in-array".into(), Sx::Arr(vec![(false, Sx::Map(vec![(Some(MKey::Str("x".into())), Sx::Arr(vec![(true, a.clone())]))]))]));
    add("8:map-in-array-in-map".into(), Sx::Map(vec![(Some(MKey::Int(1)), Sx::Arr(vec![(false, Sx::Map(vec![(None, a.clone())])), (true, b.clone())]))]));
    // comprehensions: key x condition x kind of element / target / condition
    let t = tern(b.clone(), a.clone(), c.clone());
    let arr = Sx::Arr(vec![(false, a.clone()), (true, b.clone())]);
    let carr = Sx::Arr(vec![(false, cint(1)), (false, cint(2))]);
    let mp = Sx::Map(vec![(Some(MKey::Str("k".into())), a.clone()), (None, b.clone())]);
    let parts: Vec<(&str, Sx)> = vec![
        ("var", var("x")),
        ("or", bin(Bop::Or, var("x"), b.clone())),
        ("mul", bin(Bop::Mul, var("x"), var("x"))),
        ("not", un(Unop::Not, var("x"))),
        ("notin", Sx::NotIn(bx(var("x")), bx(b.clone()))),
        ("filter", filt(var("x"), "f")),
        ("isnot", test(var("x"), "t", true)),
        ("tern", t.clone()),
        ("array", arr.clone()),
        ("constarray", carr.clone()),
        ("map", mp.clone()),
        ("call", Sx::Call("f".into(), vec![("k".into(), var("x"))])),
        ("item", item(d.clone(), var("x"))),
        ("paren", paren_sx(t.clone())),
    ];
    for key in [None, Some("k".to_string())] {
        let kt = if key.is_some() { "kv" } else { "v" };
        for (pn, part) in &parts {
            add(format!("8:comp-elem:{kt}:{pn}"), Sx::Comp(bx(part.clone()), key.clone(), "x".into(), bx(d.clone()), None));
            add(format!("8:comp-target:{kt}:{pn}"), Sx::Comp(bx(var("x")), key.clone(), "x".into(), bx(part.clone()), None));
            add(format!("8:comp-cond:{kt}:{pn}"), Sx::Comp(bx(var("x")), key.clone(), "x".into(), bx(d.clone()), Some(bx(part.clone()))));
            add(format!("8:comp-target-cond:{kt}:{pn}"), Sx::Comp(bx(var("x")), key.clone(), "x".into(), bx(part.clone()), Some(bx(part.clone()))));
        }
    }
    let comp = Sx::Comp(bx(bin(Bop::Mul, var("x"), var("x"))), None, "x".into(), bx(d.clone()), None);
    let compif = Sx::Comp(bx(var("x")), Some("k".into()), "x".into(), bx(d.clone()), Some(bx(bin(Bop::Gt, var("x"), cint(0)))));
    add("8:comp-in-comp-elem".into(), Sx::Comp(bx(comp.clone()), None, "y".into(), bx(d.clone()), None));
    add("8:comp-in-comp-target".into(), Sx::Comp(bx(var("x")), None, "x".into(), bx(compif.clone()), Some(bx(comp.clone()))));
    // every literal form as an operand of every operator, under the unary operators, filters,
    // tests, in every ternary position, as argument, index and subscript base
    let lits: Vec<(&str, Sx)> = vec![
        ("array", arr.clone()),
        ("array,", trail(arr.clone())),
        ("constarray", carr.clone()),
        ("emptyarray", Sx::Arr(vec![])),
        ("map", mp.clone()),
        ("map,", trail(mp.clone())),
        ("emptymap", Sx::Map(vec![])),
        ("comp", comp.clone()),
        ("compif", compif.clone()),
    ];
    for (ln, l) in &lits {
        for o in &ops {
            add(format!("8:{ln}:left-of:{}", o.name()), o.mk(l.clone(), a.clone()));
            add(format!("8:{ln}:right-of:{}", o.name()), o.mk(a.clone(), l.clone()));
        }
        for u in uns {
            add(format!("8:{ln}:under-{u:?}"), un(u, l.clone()));
        }
        add(format!("8:{ln}:filter"), filt(l.clone(), "f"));
        add(format!("8:{ln}:filter-kwarg"), Sx::Filter(bx(a.clone()), "f".into(), vec![("k".into(), l.clone())]));
        add(format!("8:{ln}:test"), test(l.clone(), "t", false));
        add(format!("8:{ln}:isnot"), test(l.clone(), "t", true));
        add(format!("8:{ln}:tern-cond"), tern(l.clone(), a.clone(), b.clone()));
        add(format!("8:{ln}:tern-true"), tern(a.clone(), l.clone(), b.clone()));
        add(format!("8:{ln}:tern-false"), tern(a.clone(), b.clone(), l.clone()));
        add(format!("8:{ln}:kwarg"), Sx::Call("f".into(), vec![("k".into(), l.clone())]));
        add(format!("8:{ln}:index"), item(a.clone(), l.clone()));
        add(format!("8:{ln}:base"), item(l.clone(), cint(0)));
        add(format!("8:{ln}:slice-base"), Sx::Slice(bx(l.clone()), Some(bx(cint(1))), None, None, false));
        add(format!("8:{ln}:paren"), paren_sx(l.clone()));
        add(format!("8:{ln}:in-array"), Sx::Arr(vec![(false, a.clone()), (false, l.clone())]));
        add(format!("8:{ln}:in-map"), Sx::Map(vec![(Some(MKey::Str("k".into())), l.clone()), (None, l.clone())]));
    }
    out
}

// ------------------------------------------------------------------ (R) random trees

const VARS: [&str; 22] = [
    "a", "b", "c", "x", "y", "foo", "bar_1", "_z", "item", "user", "v0", "v1", "v2", "v3", "v4", "v5", "v6",
    "v7", "v8", "v9", "loop_", "nottrue",
];
const ATTRS: [&str; 12] = ["a", "b", "name", "id", "x1", "_p", "items", "len", "first", "k", "value", "n0"];
const KW_ATTRS: [&str; 9] = ["if", "in", "is", "not", "and", "or", "else", "for", "none"];
const FILTERS: [&str; 12] =
    ["upper", "lower", "length", "default", "abs", "int", "round", "safe", "my_filter", "f", "g2", "trim_x"];
const TESTS: [&str; 11] =
    ["defined", "undefined", "odd", "even", "string", "number", "divisible_by", "containing", "t", "my_test", "zz9"];
const FUNCS: [&str; 6] = ["range", "throw", "f", "make", "now_x", "get_1"];
const KWNAMES: [&str; 10] = ["k", "value", "n", "end", "start", "by", "default_", "x", "sep", "a1"];
const STRS: [&str; 11] = ["", "a", "hello world", "x y", "é日", "<b>", "a'b", "10%", "k", "not", "{{ x }}"];
const FLOATS: [f64; 7] = [1.5, 0.25, 2.0, 10.125, 0.0, 3.75, 100.5];
const INTS: [i64; 6] = [100, 255, 1000000, 4294967296, 9007199254740993, i64::MAX];

struct TreeGen<'r> {
    rng: &'r mut Rng,
    max_br: usize,
    max_dim: usize,
}

impl<'r> TreeGen<'r> {
    fn name(&mut self, pool: &[&str]) -> String {
        self.rng.pick(pool).to_string()
    }
    fn konst(&mut self) -> Const {
        match self.rng.below(12) {
            0..=4 => Const::Int(self.rng.range(0, 20)),
            5 => Const::Int(*self.rng.pick(&INTS)),
            6..=7 => Const::Float(*self.rng.pick(&FLOATS)),
            8..=9 => Const::Str(self.name(&STRS)),
            10 => Const::Bool(self.rng.chance(1, 2)),
            _ => Const::Null,
        }
    }
    fn atom(&mut self) -> Sx {
        match self.rng.below(20) {
            0..=10 => Sx::Var(self.name(&VARS)),
            11..=17 => Sx::Const(self.konst()),
            18 => Sx::Call(self.name(&FUNCS), vec![]),
            _ => {
                if self.rng.chance(1, 2) {
                    Sx::Arr(vec![])
                } else {
                    Sx::Map(vec![])
                }
            }
        }
    }
    fn mkey(&mut self) -> MKey {
        match self.rng.below(6) {
            0..=2 => MKey::Str(self.name(&STRS)),
            3..=4 => MKey::Int(self.rng.range(0, 12)),
            _ => MKey::Bool(self.rng.chance(1, 2)),
        }
    }

    /// splits `n` into `k` parts, each >= 1 when n >= k
    fn split(&mut self, n: usize, k: usize) -> Vec<usize> {
        let mut parts = vec![1usize; k];
        let mut rest = n.saturating_sub(k);
        while rest > 0 {
            let i = self.rng.below(k);
            let take = 1 + self.rng.below(rest);
            parts[i] += take;
            rest -= take;
        }
        parts
    }

    /// 0..=3 keyword arguments with distinct names out of a budget of `n` nodes
    fn kwargs(&mut self, n: usize, br: usize, dim: usize) -> Kw {
        let k = self.rng.below(4).min(n);
        if k == 0 {
            return vec![];
        }
        let parts = self.split(n, k);
        let mut names: Vec<&str> = KWNAMES.to_vec();
        let mut kw = Vec::new();
        for p in parts {
            let i = self.rng.below(names.len());
            let name = names.remove(i).to_string();
            kw.push((name, self.expr(p, br, dim)));
        }
        kw
    }

    /// an identifier chain (the only place where `.`, `?.`, `?[` are accepted)
    fn chain(&mut self, n: usize, br: usize, dim: usize) -> Sx {
        let mut e = Sx::Var(self.name(&VARS));
        let mut left = n.saturating_sub(1);
        while left > 0 {
            let opt = self.rng.chance(1, 5);
            match self.rng.below(10) {
                0..=4 => {
                    let a = if self.rng.chance(1, 25) { self.name(&KW_ATTRS) } else { self.name(&ATTRS) };
                    e = Sx::Attr(bx(e), a, opt);
                    left -= 1;
                }
                5..=7 if br < self.max_br => {
                    let take = 1 + self.rng.below(left.min(6));
                    let i = self.expr(take, br + 1, dim);
                    e = Sx::Item(bx(e), bx(i), opt);
                    left -= take;
                }
                _ if br < self.max_br => {
                    let (s, used) = self.bounds(left.min(7), br + 1, dim);
                    e = Sx::Slice(bx(e), s.0, s.1, s.2, opt);
                    left -= used.max(1).min(left);
                }
                _ => {
                    let a = self.name(&ATTRS);
                    e = Sx::Attr(bx(e), a, opt);
                    left -= 1;
                }
            }
        }
        e
    }

    /// any subset of slice bounds; returns the number of nodes used
    #[allow(clippy::type_complexity)]
    fn bounds(&mut self, n: usize, br: usize, dim: usize) -> ((Option<Box<Sx>>, Option<Box<Sx>>, Option<Box<Sx>>), usize) {
        let mut used = 0;
        let mut one = |me: &mut Self| -> Option<Box<Sx>> {
            if used < n && me.rng.chance(1, 2) {
                let take = 1 + me.rng.below((n - used).min(3));
                used += take;
                Some(bx(me.expr(take, br, dim)))
            } else {
                None
            }
        };
        let a = one(self);
        let b = one(self);
        let c = one(self);
        ((a, b, c), used)
    }

    fn expr(&mut self, n: usize, br: usize, dim: usize) -> Sx {
        if n <= 1 {
            return self.atom();
        }
        for _ in 0..30 {
            let k = self.rng.below(100);
            match k {
                0..=29 if n >= 3 => {
                    let p = self.split(n - 1, 2);
                    let o = *self.rng.pick(&BOPS);
                    let a = self.expr(p[0], br, dim);
                    return bin(o, a, self.expr(p[1], br, dim));
                }
                30..=33 if n >= 3 => {
                    let p = self.split(n - 1, 2);
                    let a = self.expr(p[0], br, dim);
                    return Sx::NotIn(bx(a), bx(self.expr(p[1], br, dim)));
                }
                34..=41 => {
                    let u = if self.rng.chance(1, 2) { Unop::Not } else { Unop::Minus };
                    return un(u, self.expr(n - 1, br, dim));
                }
                42..=49 => {
                    let kwn = if self.rng.chance(1, 3) { self.rng.below(n.min(6)) } else { 0 };
                    let e = self.expr((n - 1).saturating_sub(kwn).max(1), br, dim);
                    let kw = self.kwargs(kwn, br, dim);
                    return Sx::Test(bx(e), self.name(&TESTS), kw, self.rng.chance(1, 3));
                }
                50..=58 => {
                    let kwn = if self.rng.chance(1, 3) { self.rng.below(n.min(6)) } else { 0 };
                    let e = self.expr((n - 1).saturating_sub(kwn).max(1), br, dim);
                    let kw = self.kwargs(kwn, br, dim);
                    return Sx::Filter(bx(e), self.name(&FILTERS), kw);
                }
                59..=62 => {
                    let kw = self.kwargs(n - 1, br, dim);
                    return Sx::Call(self.name(&FUNCS), kw);
                }
                63..=68 if n >= 4 => {
                    let p = self.split(n - 1, 3);
                    let c = self.expr(p[0], br, dim);
                    let t = self.expr(p[1], br, dim);
                    return tern(c, t, self.expr(p[2], br, dim));
                }
                69..=80 => return self.chain(n, br, dim),
                81..=84 if br < self.max_br && n >= 3 => {
                    // subscript / slice on something that is not an identifier chain
                    let p = self.split(n - 1, 2);
                    let base = self.expr(p[0], br, dim);
                    if self.rng.chance(2, 3) {
                        return item(base, self.expr(p[1], br + 1, dim));
                    }
                    let (s, _) = self.bounds(p[1], br + 1, dim);
                    return Sx::Slice(bx(base), s.0, s.1, s.2, false);
                }
                85..=89 if dim < self.max_dim => {
                    let k = 1 + self.rng.below((n - 1).min(4));
                    let parts = self.split(n - 1, k);
                    let all_const = self.rng.chance(1, 4);
                    let mut items = Vec::new();
                    for p in parts {
                        let v = if all_const { Sx::Const(self.konst()) } else { self.expr(p, br, dim + 1) };
                        items.push((!all_const && self.rng.chance(1, 5), v));
                    }
                    return Sx::Arr(items);
                }
                90..=93 => {
                    let k = 1 + self.rng.below((n - 1).min(4));
                    let parts = self.split(n - 1, k);
                    let all_const = self.rng.chance(1, 4);
                    let mut es = Vec::new();
                    for p in parts {
                        let v = if all_const { Sx::Const(self.konst()) } else { self.expr(p, br, dim) };
                        let key = if !all_const && self.rng.chance(1, 5) { None } else { Some(self.mkey()) };
                        es.push((key, v));
                    }
                    return Sx::Map(es);
                }
                94..=96 if dim < self.max_dim && n >= 3 => {
                    let with_cond = n >= 4 && self.rng.chance(1, 2);
                    let p = self.split(n - 1, if with_cond { 3 } else { 2 });
                    let e = self.expr(p[0], br, dim + 1);
                    let t = self.expr(p[1], br, dim);
                    let c = if with_cond { Some(bx(self.expr(p[2], br, dim))) } else { None };
                    let k = if self.rng.chance(1, 3) { Some(self.name(&VARS)) } else { None };
                    return Sx::Comp(bx(e), k, self.name(&VARS), bx(t), c);
                }
                97..=99 => return paren_sx(self.expr(n - 1, br, dim)),
                _ => {}
            }
        }
        self.atom()
    }
}

fn random_tree(rng: &mut Rng) -> Sx {
    // sizes 1..~25, small ones more often
    let n = match rng.below(10) {
        0 => 1 + rng.below(2),
        1..=4 => 2 + rng.below(6),
        5..=7 => 5 + rng.below(9),
        _ => 10 + rng.below(16),
    };
    let max_br = if rng.chance(1, 40) { 5 } else { 4 };
    let max_dim = if rng.chance(1, 40) { 3 } else { 2 };
    let mut g = TreeGen { rng, max_br, max_dim };
    g.expr(n, 0, 0)
}

// ------------------------------------------------------------------ (L) limit cases

fn limit_shapes() -> Vec<(String, Sx)> {
    let (a, b, c) = (var("a"), var("b"), var("c"));
    let mut out: Vec<(String, Sx)> = Vec::new();
    let mut add = |tag: String, s: Sx| out.push((format!("L:{tag}"), s));
    let nest = |n: usize, base: Sx, f: &dyn Fn(Sx) -> Sx| {
        let mut e = base;
        for _ in 0..n {
            e = f(e);
        }
        e
    };
    for n in 36..=42 {
        add(format!("parens:{n}"), nest(n, a.clone(), &|e| paren_sx(e)));
        add(format!("power-right:{n}"), nest(n, a.clone(), &|e| bin(Bop::Power, a.clone(), e)));
        add(format!("tern-else:{n}"), nest(n, a.clone(), &|e| tern(b.clone(), a.clone(), e)));
        add(format!("tern-cond:{n}"), nest(n, a.clone(), &|e| tern(e, a.clone(), b.clone())));
        add(format!("kwarg:{n}"), nest(n, a.clone(), &|e| Sx::Call("f".into(), vec![("k".into(), e)])));
        add(format!("map-nest:{n}"), nest(n, a.clone(), &|e| Sx::Map(vec![(Some(MKey::Int(1)), e)])));
        add(format!("spread-nest:{n}"), nest(n, a.clone(), &|e| Sx::Map(vec![(None, e)])));
    }
    for n in 17..=22 {
        add(format!("minus-chain:{n}"), nest(n, a.clone(), &|e| un(Unop::Minus, e)));
        add(format!("plus-right:{n}"), nest(n, a.clone(), &|e| bin(Bop::Plus, a.clone(), e)));
    }
    // `not` in front of a lower-level operand needs no parentheses and one level per `not`... the
    // real parser forbids `not not`, so the printer parenthesises: two levels per `not`
    for n in 8..=11 {
        add(format!("not-minus-chain:{n}"), nest(n, a.clone(), &|e| un(Unop::Not, un(Unop::Minus, e))));
    }
    for n in [18, 19, 20, 21] {
        add(format!("not-chain:{n}"), nest(n, a.clone(), &|e| un(Unop::Not, e)));
    }
    // loops do not consume recursion levels
    add("plus-left:60".into(), nest(60, a.clone(), &|e| bin(Bop::Plus, e, a.clone())));
    add("filter-chain:60".into(), nest(60, a.clone(), &|e| filt(e, "f")));
    add("test-chain:45".into(), nest(45, a.clone(), &|e| test(e, "t", false)));
    add("attr-chain:60".into(), nest(60, a.clone(), &|e| Sx::Attr(bx(e), "x".into(), false)));
    add("item-chain:60".into(), nest(60, a.clone(), &|e| item(e, cint(0))));
    for n in 1..=6 {
        add(format!("brackets:{n}"), nest(n, a.clone(), &|e| item(b.clone(), e)));
        add(format!("opt-brackets:{n}"), nest(n, a.clone(), &|e| Sx::Item(bx(b.clone()), bx(e), true)));
        add(format!("slice-brackets:{n}"), nest(n, a.clone(), &|e| Sx::Slice(bx(b.clone()), None, Some(bx(e)), None, false)));
        add(format!("paren-brackets:{n}"), nest(n, a.clone(), &|e| item(paren_sx(b.clone()), paren_sx(e))));
        add(format!("brackets-through-call:{n}"), nest(n, a.clone(), &|e| item(b.clone(), Sx::Call("f".into(), vec![("k".into(), e)]))));
    }
    // literals at the recursion limit: every element / value / comprehension part is one level down
    for n in 37..=41 {
        let deep = nest(n, a.clone(), &|e| paren_sx(e));
        add(format!("array-item-parens:{n}"), Sx::Arr(vec![(false, b.clone()), (false, deep.clone())]));
        add(format!("array-spread-parens:{n}"), Sx::Trail(bx(Sx::Arr(vec![(true, deep.clone())]))));
        add(format!("map-value-parens:{n}"), Sx::Map(vec![(Some(MKey::Str("k".into())), deep.clone()), (None, b.clone())]));
        add(format!("map-spread-parens:{n}"), Sx::Trail(bx(Sx::Map(vec![(None, deep.clone())]))));
        add(format!("comp-elem-parens:{n}"), Sx::Comp(bx(deep.clone()), None, "x".into(), bx(b.clone()), None));
        add(format!("comp-target-parens:{n}"), Sx::Comp(bx(b.clone()), None, "x".into(), bx(deep.clone()), None));
        add(format!("comp-cond-parens:{n}"), Sx::Comp(bx(b.clone()), Some("k".into()), "x".into(), bx(c.clone()), Some(bx(deep.clone()))));
        // a ternary target / condition is parenthesised by the printer: one more level
        add(format!("comp-target-tern:{n}"), Sx::Comp(bx(b.clone()), None, "x".into(), bx(tern(c.clone(), deep.clone(), a.clone())), None));
        add(format!("comp-cond-tern:{n}"), Sx::Comp(bx(b.clone()), None, "x".into(), bx(c.clone()), Some(bx(tern(c.clone(), a.clone(), deep.clone())))));
        add(format!("array-in-map-nest:{n}"), nest(n, Sx::Arr(vec![(false, Sx::Arr(vec![(true, a.clone())]))]), &|e| Sx::Map(vec![(None, e)])));
        add(format!("comp-in-map-nest:{n}"), nest(n, Sx::Comp(bx(a.clone()), None, "x".into(), bx(b.clone()), Some(bx(c.clone()))), &|e| Sx::Map(vec![(Some(MKey::Int(1)), e)])));
    }
    for n in 1..=4 {
        add(format!("array-dim:{n}"), nest(n, a.clone(), &|e| Sx::Arr(vec![(false, e)])));
        add(format!("const-array-dim:{n}"), nest(n, cint(1), &|e| Sx::Arr(vec![(false, e)])));
        add(format!("array-dim-through-call:{n}"), nest(n, a.clone(), &|e| Sx::Arr(vec![(false, Sx::Call("f".into(), vec![("k".into(), e)]))])));
        add(format!("comp-dim-expr:{n}"), nest(n, a.clone(), &|e| Sx::Comp(bx(e), None, "x".into(), bx(b.clone()), None)));
        add(format!("comp-dim-target:{n}"), nest(n, a.clone(), &|e| Sx::Comp(bx(b.clone()), None, "x".into(), bx(e), None)));
        add(format!("array-in-index:{n}"), nest(n, a.clone(), &|e| item(b.clone(), Sx::Arr(vec![(false, e)]))));
    }
    // `~` and unary right operands
    add("concat-minus".into(), bin(Bop::Concat, a.clone(), un(Unop::Minus, b.clone())));
    add("concat-not".into(), bin(Bop::Concat, a.clone(), un(Unop::Not, b.clone())));
    add("concat-notin".into(), bin(Bop::Concat, a.clone(), Sx::NotIn(bx(b.clone()), bx(c.clone()))));
    add("concat-isnot".into(), bin(Bop::Concat, a.clone(), test(b.clone(), "t", true)));
    add("concat-is".into(), bin(Bop::Concat, a.clone(), test(b.clone(), "t", false)));
    add("concat-paren-minus".into(), bin(Bop::Concat, a.clone(), paren_sx(paren_sx(un(Unop::Minus, b.clone())))));
    add("concat-minus-left".into(), bin(Bop::Concat, un(Unop::Minus, a.clone()), b.clone()));
    add("concat-minus-item".into(), bin(Bop::Concat, a.clone(), item(paren_sx(un(Unop::Minus, b.clone())), c.clone())));
    add("concat-minus-filter".into(), bin(Bop::Concat, a.clone(), filt(un(Unop::Minus, b.clone()), "f")));
    // constants
    for i in INTS {
        add(format!("int:{i}"), cint(i));
        add(format!("neg-int:{i}"), un(Unop::Minus, cint(i)));
    }
    for f in FLOATS {
        add(format!("float:{f}"), Sx::Const(Const::Float(f)));
        add(format!("float-in-array:{f}"), Sx::Arr(vec![(false, Sx::Const(Const::Float(f))), (false, cint(1))]));
        add(format!("float-in-map:{f}"), Sx::Map(vec![(Some(MKey::Str("k".into())), Sx::Const(Const::Float(f)))]));
    }
    for s in STRS {
        add(format!("str:{s}"), Sx::Const(Const::Str(s.to_string())));
        add(format!("str-in-array:{s}"), Sx::Arr(vec![(false, Sx::Const(Const::Str(s.to_string())))]));
        add(format!("str-in-map:{s}"), Sx::Map(vec![(Some(MKey::Str(s.to_string())), Sx::Const(Const::Str(s.to_string())))]));
        add(format!("str-in-nested:{s}"), Sx::Arr(vec![(false, Sx::Arr(vec![(false, Sx::Const(Const::Str(s.to_string())))]))]));
    }
    // duplicate / mixed map keys (a folded map is a HashMap printed sorted)
    add(
        "map-dup-keys".into(),
        Sx::Map(vec![
            (Some(MKey::Str("b".into())), cint(1)),
            (Some(MKey::Int(2)), cint(2)),
            (Some(MKey::Bool(true)), cint(3)),
            (Some(MKey::Str("a".into())), cint(4)),
            (Some(MKey::Str("b".into())), cint(5)),
            (Some(MKey::Int(10)), Sx::Const(Const::Null)),
            (Some(MKey::Bool(false)), Sx::Const(Const::Bool(false))),
        ]),
    );
    add(
        "map-dup-keys-nonconst".into(),
        Sx::Map(vec![
            (Some(MKey::Str("b".into())), a.clone()),
            (Some(MKey::Str("b".into())), cint(5)),
            (None, b.clone()),
            (Some(MKey::Int(1)), Sx::Map(vec![(Some(MKey::Int(1)), cint(1))])),
        ]),
    );
    out
}

// ------------------------------------------------------------------ praw: mutations + hand-written

fn mutation_pool() -> Vec<Tok> {
    let mut v = vec![
        Tok::Mul,
        Tok::Div,
        Tok::FloorDiv,
        Tok::Mod,
        Tok::Plus,
        Tok::Minus,
        Tok::Power,
        Tok::Gt,
        Tok::Le,
        Tok::Ge,
        Tok::Eq,
        Tok::Ne,
        Tok::Tilde,
        Tok::Pipe,
        Tok::Assign,
        Tok::Dot,
        Tok::QDot,
        Tok::QLBracket,
        Tok::Comma,
        Tok::Colon,
        Tok::Bang,
        Tok::LBracket,
        Tok::RBracket,
        Tok::LParen,
        Tok::RParen,
        Tok::LBrace,
        Tok::RBrace,
        Tok::Spread,
        Tok::Int(1),
        Tok::Float(2.5),
        Tok::Str("s".into()),
        Tok::Bool(true),
    ];
    for k in ["not", "in", "and", "or", "is", "if", "else", "none", "for", "a", "f", "not", "in", "is"] {
        v.push(Tok::id(k));
    }
    v
}

fn mutate(ts: &mut Vec<Tok>, pool: &[Tok], rng: &mut Rng) -> &'static str {
    if ts.is_empty() {
        ts.push(rng.pick(pool).clone());
        return "insert";
    }
    let i = rng.below(ts.len());
    let is_op = |t: &Tok| {
        matches!(
            t,
            Tok::Mul | Tok::Div | Tok::FloorDiv | Tok::Mod | Tok::Plus | Tok::Minus | Tok::Power | Tok::Gt | Tok::Le
                | Tok::Ge | Tok::Eq | Tok::Ne | Tok::Tilde | Tok::Lt
        ) || matches!(t, Tok::Ident(s) if s == "and" || s == "or" || s == "in")
    };
    match rng.below(8) {
        5 | 6 => {
            // an infix operator becomes another one (mostly still well-formed: regrouping)
            let ops: Vec<usize> = (0..ts.len()).filter(|k| is_op(&ts[*k])).collect();
            if ops.is_empty() {
                ts[i] = rng.pick(pool).clone();
                return "replace";
            }
            let k = *rng.pick(&ops);
            ts[k] = match rng.below(4) {
                0 => Tok::id(*rng.pick(&["and", "or", "in"])),
                _ => rng.pick(&BOPS[..13]).tok(),
            };
            if ts[k] == Tok::Lt {
                ts[k] = Tok::Le;
            }
            "op-for-op"
        }
        7 => {
            // an atom becomes a keyword-ish or another atom
            let atoms: Vec<usize> = (0..ts.len())
                .filter(|k| matches!(&ts[*k], Tok::Int(_) | Tok::Float(_) | Tok::Str(_) | Tok::Bool(_)) || matches!(&ts[*k], Tok::Ident(s) if VARS.contains(&s.as_str())))
                .collect();
            if atoms.is_empty() {
                ts.remove(i);
                return "delete";
            }
            let k = *rng.pick(&atoms);
            ts[k] = match rng.below(6) {
                0 => Tok::id("none"),
                1 => Tok::id("not"),
                2 => Tok::Int(7),
                3 => Tok::Str("q".into()),
                4 => Tok::Minus,
                _ => Tok::id("zz"),
            };
            "atom-for-atom"
        }
        0 => {
            ts.remove(i);
            "delete"
        }
        1 => {
            let t = ts[i].clone();
            ts.insert(i, t);
            "duplicate"
        }
        2 => {
            if i + 1 < ts.len() {
                ts.swap(i, i + 1);
            } else if i > 0 {
                ts.swap(i - 1, i);
            }
            "swap"
        }
        3 => {
            ts[i] = rng.pick(pool).clone();
            "replace"
        }
        _ => {
            ts.insert(i, rng.pick(pool).clone());
            "insert"
        }
    }
}

const HANDWRITTEN: &[&str] = &[
    "a not b",
    "a is not",
    "a not in",
    "a if b",
    "a if b else",
    "a[",
    "a[]",
    "a[:]",
    "a[::]",
    "a[1:2:]",
    "a[1:2:3]",
    "a[::3]",
    "a[:2:]",
    "a[1::]",
    "a[1:2:3:4]",
    "a.",
    "a.1",
    "a?.",
    "a?.b?.c",
    "a?[0]?.b",
    "(a).b",
    "(a)?[0]",
    "(a)[0]",
    "\"s\"?[0]",
    "\"s\"[0]",
    "\"s\".x",
    "a.b(c=1)",
    "a(b=1).c",
    "a(b=1)[0]",
    "f(a=1, a=2)",
    "f(a=1,)",
    "f(,)",
    "f(a)",
    "f(a=)",
    "f(1=a)",
    "a | f(",
    "a | f()",
    "a | f(x=1,)",
    "a | f.g",
    "a | f[0]",
    "a is t(x=1)(y=2)",
    "a is t[0]",
    "a is t.u",
    "a is not not t",
    "- - a",
    "not not a",
    "- not a",
    "not - a",
    "-(-a)",
    "a ~ -b",
    "a ~ (-b)",
    "a ~ not b",
    "a ~ b ~ -c",
    "a - -b",
    "a + not b",
    "a and",
    "or a",
    "a ** ** b",
    "[a for x in xs for y in ys]",
    "[a for not in xs]",
    "[a for x, in xs]",
    "[a for x, y, z in xs]",
    "[a for x in xs if]",
    "[a for x in b if c else d]",
    "[a for x in b if c if d]",
    "[a, b for x in xs]",
    "[...a for x in xs]",
    "[a for loop in xs]",
    "[...a, b]",
    "[a,]",
    "[,]",
    "[a,,b]",
    "{\"a\": 1, ...m, 2: x, true: y}",
    "{a: 1}",
    "{1.5: 1}",
    "{\"a\": 1,}",
    "{,}",
    "{\"a\" 1}",
    "[[[1]]]",
    "if",
    "a if",
    "in",
    "not",
    "none.x",
    "1[0]",
    "1.5.x",
];

const HANDWRITTEN2: &[&str] = &[
    "true[0]",
    "a.if",
    "a.not.in",
    "a not in b in c",
    "a in b not in c",
    "a is not defined is defined",
    "a if b if c else d else e",
    "a if b else c if d else e",
    "a else b",
    "a for b",
    "a.true",
    "a!b",
    "a = b",
    "a, b",
    "a : b",
    "()",
    "(a",
    "a)",
    "",
    "a b",
    "1 2",
    "null is none",
];

/// literal / comprehension syntax around the rules ported in Model/Pratt.v (array_loop, map_loop,
/// parse_comp): trailing commas, spreads, lookahead for `for`, reserved variables, array dimension
const HANDWRITTEN3: &[&str] = &[
    "[a, b,]",
    "[a, b,,]",
    "[a b]",
    "[...a,]",
    "[...]",
    "[..., a]",
    "[a, ...]",
    "[a for x in xs,]",
    "[a, for x in xs]",
    "[a for x in xs if c,]",
    "[for x in xs]",
    "[a for in in xs]",
    "[a for x in]",
    "[a for x xs]",
    "[a for true in xs]",
    "[a for x, y in m if y]",
    "[a for x, loop in m]",
    "[a for self, y in m]",
    "[a for x in (b if c else d)]",
    "[a if b else c for x in xs]",
    "[a for x in xs if c or d]",
    "[a for x in xs if (c if d else e)]",
    "[a for x in xs if c else d]",
    "[a for x in b or c if d]",
    "[a for x in xs if c for y in ys]",
    "[[a, b], [c]]",
    "[[[a]]]",
    "[[a], [[b]]]",
    "[[a for x in xs] for y in ys]",
    "[[[a] for x in xs] for y in ys]",
    "[[a for x in [b]] for y in ys]",
    "[a for x in [[b]]]",
    "[a for x in [[[b]]]]",
    "[[a] for x in [[b]] if [[c]]]",
    "[a for x in xs][0]",
    "[a, b][0][1]",
    "[a, b] [0]",
    "{\"k\": v}[\"k\"]",
    "{\"k\": v}.k",
    "[a].x",
    "[a](b=1)",
    "{...m,}",
    "{...}",
    "{...m n}",
    "{\"a\": 1, , }",
    "{\"a\": }",
    "{\"a\": 1 \"b\": 2}",
    "{\"a\": 1, \"a\": 2}",
    "{\"a\": x, \"a\": 2}",
    "{1: a, -1: b}",
    "{none: a}",
    "{\"a\": [1, 2,], \"b\": {\"c\": [],},}",
    "{\"a\": [x for x in xs], ...{\"b\": 1}}",
    "[{}, [], {\"a\": []}, [{}]]",
    "[1, 2, 3,][0]",
    "[...[1, 2], ...[], 3]",
    "[]]",
    "[",
    "{",
    "[a",
    "{\"a\": 1",
    "[a for x in xs",
];

// ------------------------------------------------------------------ family eval (evaluation half)

fn vmap(es: Vec<(&'static str, Value)>) -> Value {
    let mut m = tera::Map::new();
    for (k, v) in es {
        m.insert(k.into(), v);
    }
    Value::from(m)
}
fn varr(v: Vec<Value>) -> Value {
    Value::from(v)
}
fn vi(i: i64) -> Value {
    Value::from(i)
}

/// (name, value, truthy) — every kind of value a variable can be bound to
fn value_pool() -> Vec<(&'static str, Value, Option<bool>)> {
    vec![
        ("none", Value::none(), Some(false)),
        ("true", Value::from(true), Some(true)),
        ("false", Value::from(false), Some(false)),
        ("0", vi(0), Some(false)),
        ("1", vi(1), Some(true)),
        ("-1", vi(-1), Some(true)),
        ("2", vi(2), Some(true)),
        ("7", vi(7), Some(true)),
        ("10", vi(10), Some(true)),
        ("i64max", vi(i64::MAX), Some(true)),
        ("i64min", vi(i64::MIN), Some(true)),
        ("1.5", Value::from(1.5f64), None),
        ("0.0", Value::from(0.0f64), None),
        ("str-empty", Value::from(""), Some(false)),
        ("str-a", Value::from("a"), Some(true)),
        ("str-abc", Value::from("abc"), Some(true)),
        ("str-x-y", Value::from("x y"), Some(true)),
        ("arr-empty", varr(vec![]), Some(false)),
        ("arr-123", varr(vec![vi(1), vi(2), vi(3)]), Some(true)),
        ("arr-ab", varr(vec![Value::from("a"), Value::from("b")]), Some(true)),
        ("arr-mixed", varr(vec![vi(1), Value::from("a"), Value::from(true), Value::none()]), Some(true)),
        ("map-empty", vmap(vec![]), Some(false)),
        ("map-ab", vmap(vec![("a", vi(1)), ("b", Value::from("x"))]), Some(true)),
        ("map-a-b", vmap(vec![("a", vmap(vec![("b", vi(2))]))]), Some(true)),
        ("map-n-none", vmap(vec![("n", Value::none())]), Some(true)),
        ("map-f-g", vmap(vec![("f", vmap(vec![("g", vi(5))]))]), Some(true)),
        ("map-f-none", vmap(vec![("f", Value::none())]), Some(true)),
        ("map-f-arr", vmap(vec![("f", varr(vec![vi(4), vi(5)])), ("a", varr(vec![vi(1), vi(2)]))]), Some(true)),
        ("arr-nested", varr(vec![varr(vec![vi(1)]), varr(vec![vi(2), vi(3)])]), Some(true)),
        ("arr-of-map", varr(vec![vmap(vec![("a", vi(1)), ("f", vi(9))])]), Some(true)),
        ("arr-undef-free", varr(vec![Value::none(), vi(0)]), Some(true)),
    ]
}

fn sstr(s: &str) -> Sx {
    Sx::Const(Const::Str(s.to_string()))
}
fn throw_call() -> Sx {
    Sx::Call("throw".into(), vec![("message".into(), sstr("b"))])
}
fn attr(e: Sx, a: &str, opt: bool) -> Sx {
    Sx::Attr(bx(e), a.to_string(), opt)
}
fn item_o(e: Sx, i: Sx, opt: bool) -> Sx {
    Sx::Item(bx(e), bx(i), opt)
}
fn arr(items: Vec<(bool, Sx)>) -> Sx {
    Sx::Arr(items)
}

impl Sx {
    fn n_nodes(&self) -> usize {
        let mut n = 1;
        self.for_children(&mut |c| n += c.n_nodes());
        n
    }
    fn has_var(&self) -> bool {
        if matches!(self, Sx::Var(_)) {
            return true;
        }
        let mut r = false;
        self.for_children(&mut |c| r = r || c.has_var());
        r
    }
}

type Shape = (&'static str, Box<dyn Fn(&Sx) -> Sx>);

/// the systematic shapes around an operand X; the first `N_PRINT_SHAPES` also run in print mode
const N_PRINT_SHAPES: usize = 10;
fn eval_shapes() -> Vec<Shape> {
    fn s(n: &'static str, f: impl Fn(&Sx) -> Sx + 'static) -> Shape {
        (n, Box::new(f))
    }
    vec![
        s("X", |x| x.clone()),
        s("X and throw", |x| bin(Bop::And, x.clone(), throw_call())),
        s("X or throw", |x| bin(Bop::Or, x.clone(), throw_call())),
        s("throw if X else 1", |x| tern(x.clone(), throw_call(), cint(1))),
        s("1 if X else throw", |x| tern(x.clone(), cint(1), throw_call())),
        s("X and 1", |x| bin(Bop::And, x.clone(), cint(1))),
        s("X or 1", |x| bin(Bop::Or, x.clone(), cint(1))),
        s("0 or X", |x| bin(Bop::Or, cint(0), x.clone())),
        s("1 and X", |x| bin(Bop::And, cint(1), x.clone())),
        s("X.f", |x| attr(x.clone(), "f", false)),
        s("X?.f", |x| attr(x.clone(), "f", true)),
        s("X?.f?.g", |x| attr(attr(x.clone(), "f", true), "g", true)),
        s("X.f.g", |x| attr(attr(x.clone(), "f", false), "g", false)),
        s("X.f?.g", |x| attr(attr(x.clone(), "f", false), "g", true)),
        s("X['a']", |x| item(x.clone(), sstr("a"))),
        s("X[0]", |x| item(x.clone(), cint(0))),
        s("X[-1]", |x| item(x.clone(), un(Unop::Minus, cint(1)))),
        s("X[5]", |x| item(x.clone(), cint(5))),
        s("X?[0]", |x| item_o(x.clone(), cint(0), true)),
        s("X?['a']", |x| item_o(x.clone(), sstr("a"), true)),
        s("X?[nope]", |x| item_o(x.clone(), var("nope_i"), true)),
        s("X[none]", |x| item(x.clone(), Sx::Const(Const::Null))),
        s("X[true]", |x| item(x.clone(), Sx::Const(Const::Bool(true)))),
        s("'abc'[X]", |x| item(sstr("abc"), x.clone())),
        s("[1,2,3][X]", |x| item(arr(vec![(false, cint(1)), (false, cint(2)), (false, cint(3))]), x.clone())),
        s("X + 1", |x| bin(Bop::Plus, x.clone(), cint(1))),
        s("1 + X", |x| bin(Bop::Plus, cint(1), x.clone())),
        s("X - 1", |x| bin(Bop::Minus, x.clone(), cint(1))),
        s("X * 2", |x| bin(Bop::Mul, x.clone(), cint(2))),
        s("-X", |x| un(Unop::Minus, x.clone())),
        s("not X", |x| un(Unop::Not, x.clone())),
        s("X ~ 's'", |x| bin(Bop::Concat, x.clone(), sstr("s"))),
        s("'s' ~ X", |x| bin(Bop::Concat, sstr("s"), x.clone())),
        s("X in [1,'a']", |x| bin(Bop::In, x.clone(), arr(vec![(false, cint(1)), (false, sstr("a"))]))),
        s("X not in [1,'a']", |x| Sx::NotIn(bx(x.clone()), bx(arr(vec![(false, cint(1)), (false, sstr("a"))])))),
        s("1 in X", |x| bin(Bop::In, cint(1), x.clone())),
        s("'a' in X", |x| bin(Bop::In, sstr("a"), x.clone())),
        s("X < 1", |x| bin(Bop::Lt, x.clone(), cint(1))),
        s("1 <= X", |x| bin(Bop::Le, cint(1), x.clone())),
        s("X == 1", |x| bin(Bop::Eq, x.clone(), cint(1))),
        s("X != 'a'", |x| bin(Bop::Ne, x.clone(), sstr("a"))),
        s("X is defined", |x| test(x.clone(), "defined", false)),
        s("X is undefined", |x| test(x.clone(), "undefined", false)),
        s("X is not defined", |x| test(x.clone(), "defined", true)),
        s("X is odd", |x| test(x.clone(), "odd", false)),
        s("X | default(value=5)", |x| Sx::Filter(bx(x.clone()), "default".into(), vec![("value".into(), cint(5))])),
        s("X | length", |x| filt(x.clone(), "length")),
        s("[X, 1]", |x| arr(vec![(false, x.clone()), (false, cint(1))])),
        s("[...X, 1]", |x| arr(vec![(true, x.clone()), (false, cint(1))])),
        s("(X or 2) + 1", |x| bin(Bop::Plus, bin(Bop::Or, x.clone(), cint(2)), cint(1))),
        s("X if X is defined else 'd'", |x| tern(test(x.clone(), "defined", false), x.clone(), sstr("d"))),
        // branches / operands that are bare variables and dotted paths: the forms the peephole
        // pass fuses with the final WriteTop when the expression is printed directly
        s("'g' if X else u.name", |x| tern(x.clone(), sstr("g"), attr(var("u"), "name", false))),
        s("u.name if X else 'g'", |x| tern(x.clone(), attr(var("u"), "name", false), sstr("g"))),
        s("'g' if X else w", |x| tern(x.clone(), sstr("g"), var("w"))),
        s("w if X else u.name", |x| tern(x.clone(), var("w"), attr(var("u"), "name", false))),
        s("'g' if X else nope2", |x| tern(x.clone(), sstr("g"), var("nope2"))),
        s("nope2 if X else 'g'", |x| tern(x.clone(), var("nope2"), sstr("g"))),
        s("'g' if X else nope2.a", |x| tern(x.clone(), sstr("g"), attr(var("nope2"), "a", false))),
        s("nope2.a.b if X else 'g'", |x| tern(x.clone(), attr(attr(var("nope2"), "a", false), "b", false), sstr("g"))),
        s("'g' if X else u.missing", |x| tern(x.clone(), sstr("g"), attr(var("u"), "missing", false))),
        s("'g' if X else u.name.first", |x| tern(x.clone(), sstr("g"), attr(attr(var("u"), "name", false), "first", false))),
        s("X and u.name", |x| bin(Bop::And, x.clone(), attr(var("u"), "name", false))),
        s("X or u.name", |x| bin(Bop::Or, x.clone(), attr(var("u"), "name", false))),
        s("X and w", |x| bin(Bop::And, x.clone(), var("w"))),
        s("X or w", |x| bin(Bop::Or, x.clone(), var("w"))),
        s("X and nope2.a", |x| bin(Bop::And, x.clone(), attr(var("nope2"), "a", false))),
        s("X or nope2.a", |x| bin(Bop::Or, x.clone(), attr(var("nope2"), "a", false))),
        s("X or nope2", |x| bin(Bop::Or, x.clone(), var("nope2"))),
        s("(w if X else u.name) ~ '!'", |x| bin(Bop::Concat, Sx::Paren(bx(tern(x.clone(), var("w"), attr(var("u"), "name", false)))), sstr("!"))),
        s("'a' if X else ('b' if w else u.name)", |x| tern(x.clone(), sstr("a"), Sx::Paren(bx(tern(var("w"), sstr("b"), attr(var("u"), "name", false)))))),
    ]
}

/// the operands X of the systematic generator: (name, tree, context)
fn eval_operands(step: usize) -> Vec<(String, Sx, Vec<(String, Value)>)> {
    let mut out = Vec::new();
    for (i, (n, v, _)) in value_pool().into_iter().enumerate() {
        if i % step == 0 {
            out.push((format!("v={n}"), var("v"), vec![("v".to_string(), v)]));
        }
    }
    let m_ab = vmap(vec![("a", vi(1)), ("b", Value::from("x"))]);
    let m_n = vmap(vec![("n", Value::none())]);
    let m_a_b = vmap(vec![("a", vmap(vec![("b", vi(2))]))]);
    let m = |v: &Value| vec![("m".to_string(), v.clone())];
    out.push(("unbound".into(), var("nope"), vec![]));
    out.push(("m.missing".into(), attr(var("m"), "missing", false), m(&m_ab)));
    out.push(("m['missing']".into(), item(var("m"), sstr("missing")), m(&m_ab)));
    out.push(("m.n=none".into(), attr(var("m"), "n", false), m(&m_n)));
    out.push(("m.a.b".into(), attr(attr(var("m"), "a", false), "b", false), m(&m_a_b)));
    out.push(("m.a.missing".into(), attr(attr(var("m"), "a", false), "missing", false), m(&m_a_b)));
    out.push(("nope.a".into(), attr(var("nope"), "a", false), vec![]));
    out.push(("nope?.a".into(), attr(var("nope"), "a", true), vec![]));
    out.push(("m.missing.x".into(), attr(attr(var("m"), "missing", false), "x", false), m(&m_ab)));
    out.push(("m.missing?.x".into(), attr(attr(var("m"), "missing", false), "x", true), m(&m_ab)));
    out.push(("xs[9]".into(), item(var("xs"), cint(9)), vec![("xs".to_string(), varr(vec![vi(1), vi(2)]))]));
    out
}

fn expr_text(s: &Sx, rng: &mut Rng) -> String {
    let t = render(&raw(s), if rng.chance(1, 4) { 1 } else { 0 }, rng);
    t[2..t.len() - 2].trim().to_string()
}

fn context_of(env: &[(String, Value)]) -> Context {
    let mut ctx = Context::new();
    for (k, v) in env {
        ctx.insert_value(k.clone(), v.clone());
    }
    ctx
}

fn run_eval(tera: &Tera, text: &str, env: &[(String, Value)], print: bool) -> Outcome<Value> {
    let ctx = context_of(env);
    if print {
        match guarded(|| tera.render_str(&format!("{{{{ {text} }}}}"), &ctx, false)) {
            Outcome::Ok(_) => Outcome::Ok(Value::none()),
            Outcome::Err(c, m) => Outcome::Err(c, m),
            Outcome::Panic(m) => Outcome::Panic(m),
        }
    } else {
        eval_expr(tera, text, &ctx)
    }
}

fn json_env(env: &[(String, Value)]) -> serde_json::Value {
    serde_json::Value::Object(env.iter().map(|(k, v)| (k.clone(), json_value(v))).collect())
}

/// Implementation-side oracle: printing `e` directly with `{{ e }}` (the only form in which the
/// compiler ends the expression with WriteTop and the peephole pass may fuse it into WritePath)
/// gives the text that printing the VALUE `e` evaluates to gives (`{{ __pv }}` with `__pv` bound
/// to the probed value), and fails exactly when evaluating `e` fails or yields undefined.
fn direct_print_oracle(meta: &mut Meta, tera: &Tera, text: &str, env: &[(String, Value)], probed: &Outcome<Value>, shape: &str) {
    let ctx = context_of(env);
    let src = format!("{{{{ {text} }}}}");
    let direct = guarded(|| tera.render_str(&src, &ctx, false));
    meta.oracle_checks += 1;
    let show = |o: &Outcome<String>| match o {
        Outcome::Ok(t) => json!({"ok": t}),
        Outcome::Err(c, m) => json!({"err": c, "msg": m}),
        Outcome::Panic(m) => json!({"panic": m}),
    };
    let mut fail = |what: &str, expect: serde_json::Value| {
        meta.oracle_fail(
            what,
            None,
            json!({"template": src, "ctx": json_env(env), "shape": shape, "direct": show(&direct),
                   "probed": probed.json(json_value), "expected": expect}),
        );
    };
    match probed {
        Outcome::Panic(_) => {}
        Outcome::Ok(v) if !v.is_undefined() => {
            let mut c2 = Context::new();
            c2.insert_value("__pv", v.clone());
            let expect = guarded(|| tera.render_str("{{ __pv }}", &c2, false));
            match (&direct, &expect) {
                (Outcome::Ok(a), Outcome::Ok(b)) if a == b => {}
                (Outcome::Err(..), Outcome::Err(..)) => {}
                _ => fail("`{{ e }}` does not print the value e evaluates to", show(&expect)),
            }
        }
        // undefined value or evaluation error: printing must be an error (never a panic, never text)
        _ => {
            if !matches!(direct, Outcome::Err(..)) {
                fail("`{{ e }}` renders although e is undefined or fails to evaluate", json!("error"));
            }
        }
    }
}

fn emit_eval(sink: &mut Sink, meta: &mut Meta, tera: &Tera, s: &Sx, env: &[(String, Value)], print: bool, shape: &str, rng: &mut Rng) {
    let text = expr_text(s, rng);
    let r = run_eval(tera, &text, env, print);
    let desc = json!({"text": text, "ctx": json_env(env), "print": print, "shape": shape, "impl": r.json(json_value)});
    meta.oracle_checks += 1;
    if let Outcome::Panic(m) = &r {
        meta.oracle_fail(&format!("panic while evaluating: {m}"), None, desc.clone());
    }
    if !print {
        direct_print_oracle(meta, tera, &text, env, &r, shape);
    }
    let envg: Vec<String> = env.iter().map(|(k, v)| format!("({}, {})", gal_str(k), gal_value(v))).collect();
    let g = format!(
        "{{| ev_sx := {}; ev_env := [{}]; ev_print := {}; ev_impl := {} |}}",
        gal_sx(s),
        envg.join("; "),
        gal_bool(print),
        r.gal(gal_value)
    );
    let tag_res = match &r {
        Outcome::Ok(v) if v.is_undefined() => "impl:undefined",
        Outcome::Ok(_) => "impl:ok",
        Outcome::Err(..) => "impl:err",
        Outcome::Panic(_) => "impl:panic",
    };
    let shape_tag = format!("shape:{}", shape.split(" @ ").next().unwrap_or("?").trim());
    let mut tags = vec![if print { "mode:print" } else { "mode:probe" }, tag_res, shape_tag.as_str()];
    // the parser rejects a unary operand right of `~`: outside the evaluator's domain (counted)
    let outside = s.has_concat_unary();
    if outside {
        tags.push("domain:outside(unary-right-of-~)");
    }
    sink.push(g, desc, !outside && s.n_nodes() >= 2 && s.has_var(), None, &tags);
}

/// random expressions over the documented fragment, with registered builtins only
struct EvalGen<'r> {
    rng: &'r mut Rng,
    vars: Vec<&'static str>,
}

const EV_STRS: [&str; 5] = ["", "a", "abc", "x y", "b"];
const EV_ATTRS: [&str; 7] = ["a", "b", "n", "f", "g", "missing", "x"];

impl<'r> EvalGen<'r> {
    fn konst(&mut self) -> Sx {
        match self.rng.below(10) {
            0..=4 => cint(self.rng.range(0, 5)),
            5..=7 => sstr(*self.rng.pick(&EV_STRS)),
            8 => Sx::Const(Const::Bool(self.rng.chance(1, 2))),
            _ => Sx::Const(Const::Null),
        }
    }
    fn a_var(&mut self) -> Sx {
        var(*self.rng.pick(&self.vars))
    }
    fn atom(&mut self) -> Sx {
        if self.rng.chance(1, 2) { self.a_var() } else { self.konst() }
    }
    fn index(&mut self, n: usize) -> Sx {
        match self.rng.below(8) {
            0..=2 => cint(self.rng.range(0, 3)),
            3 => un(Unop::Minus, cint(self.rng.range(1, 3))),
            4..=5 => sstr(*self.rng.pick(&EV_ATTRS)),
            _ => self.expr(n.max(1)),
        }
    }
    fn chain(&mut self, n: usize) -> Sx {
        let mut e = self.a_var();
        // at most three accessors: longer chains nearly always end in an error
        let mut left = n.saturating_sub(1).max(1).min(1 + self.rng.below(3));
        while left > 0 {
            let opt = self.rng.chance(1, 3);
            if self.rng.chance(3, 5) {
                e = attr(e, *self.rng.pick(&EV_ATTRS), opt);
                left -= 1;
            } else {
                let take = 1 + self.rng.below(left.min(3));
                let i = self.index(take);
                e = item_o(e, i, opt);
                left -= take;
            }
        }
        e
    }
    fn split2(&mut self, n: usize) -> (usize, usize) {
        let a = 1 + self.rng.below(n.saturating_sub(1).max(1));
        (a, n.saturating_sub(a).max(1))
    }
    fn expr(&mut self, n: usize) -> Sx {
        if n <= 1 {
            return self.atom();
        }
        for _ in 0..20 {
            match self.rng.below(100) {
                0..=27 if n >= 3 => {
                    let (p, q) = self.split2(n - 1);
                    // and / or more often than their share
                    let o = if self.rng.chance(1, 4) {
                        if self.rng.chance(1, 2) { Bop::And } else { Bop::Or }
                    } else if self.rng.chance(1, 4) {
                        if self.rng.chance(1, 2) { Bop::Eq } else { Bop::Ne }
                    } else {
                        *self.rng.pick(&BOPS)
                    };
                    let a = self.expr(p);
                    return bin(o, a, self.expr(q));
                }
                28..=31 if n >= 3 => {
                    let (p, q) = self.split2(n - 1);
                    let a = self.expr(p);
                    return Sx::NotIn(bx(a), bx(self.expr(q)));
                }
                32..=40 => {
                    let u = if self.rng.chance(1, 2) { Unop::Not } else { Unop::Minus };
                    return un(u, self.expr(n - 1));
                }
                41..=49 => {
                    let t = *self.rng.pick(&["defined", "undefined", "odd", "even", "string", "number", "defined", "undefined"]);
                    return test(self.expr(n - 1), t, self.rng.chance(1, 3));
                }
                50..=58 => {
                    return match self.rng.below(6) {
                        0..=2 if n >= 3 => {
                            let (p, q) = self.split2(n - 1);
                            let e = self.expr(p);
                            Sx::Filter(bx(e), "default".into(), vec![("value".into(), self.expr(q))])
                        }
                        3 => filt(self.expr(n - 1), "upper"),
                        4 => filt(self.expr(n - 1), "abs"),
                        _ => filt(self.expr(n - 1), "length"),
                    };
                }
                59..=60 => {
                    return if self.rng.chance(2, 3) {
                        throw_call()
                    } else {
                        Sx::Call("range".into(), vec![("end".into(), cint(3))])
                    };
                }
                63..=71 if n >= 4 => {
                    let (p, rest) = self.split2(n - 1);
                    let (q, r) = self.split2(rest.max(2));
                    let c = self.expr(p);
                    let t = self.expr(q);
                    return tern(c, t, self.expr(r));
                }
                72..=85 => return self.chain(n),
                86..=89 if n >= 3 => {
                    let (p, q) = self.split2(n - 1);
                    let base = self.expr(p);
                    return item(base, self.index(q));
                }
                90..=95 => {
                    let k = 1 + self.rng.below((n - 1).min(3));
                    let mut items = Vec::new();
                    for _ in 0..k {
                        let sp = self.rng.chance(1, 4);
                        let v = self.expr(((n - 1) / k).max(1));
                        items.push((sp, v));
                    }
                    return arr(items);
                }
                96..=99 => return paren_sx(self.expr(n - 1)),
                _ => {}
            }
        }
        self.atom()
    }
}

fn random_eval_case(rng: &mut Rng, pool: &[(&'static str, Value, Option<bool>)]) -> (Sx, Vec<(String, Value)>) {
    const NAMES: [&str; 7] = ["a", "b", "c", "m", "xs", "s", "nope"];
    let k = 2 + rng.below(3);
    let mut names: Vec<&'static str> = NAMES.to_vec();
    let mut vars = Vec::new();
    for _ in 0..k {
        let i = rng.below(names.len());
        vars.push(names.remove(i));
    }
    let mut env = Vec::new();
    for v in &vars {
        if *v == "nope" || rng.chance(1, 6) {
            continue; // unbound
        }
        // a bias towards the kind the name suggests
        let want = |n: &str| -> bool {
            match *v {
                "m" => n.starts_with("map"),
                "xs" => n.starts_with("arr"),
                "s" => n.starts_with("str"),
                // small integers for the plain names, so that operators often succeed
                "a" | "b" => n.parse::<i64>().is_ok(),
                _ => true,
            }
        };
        let mut pick = rng.pick(pool);
        for _ in 0..3 {
            if want(pick.0) {
                break;
            }
            pick = rng.pick(pool);
        }
        env.push((v.to_string(), pick.1.clone()));
    }
    // 3..14 nodes, small trees more often (large random trees nearly always end in an error)
    let n = 3 + rng.below(12).min(rng.below(12));
    let mut g = EvalGen { rng, vars };
    (g.expr(n), env)
}


// ------------------------------------------------------------------ maps subscripted / probed with computed keys

fn vmap_k(es: Vec<(tera::value::Key<'static>, Value)>) -> Value {
    let mut m = tera::Map::new();
    for (k, v) in es {
        m.insert(k, v);
    }
    Value::from(m)
}

/// the maps: literals (integer / string / bool keys; folded and not folded) and context maps
/// whose integer keys are stored in every width
fn key_maps() -> Vec<(&'static str, Sx, bool)> {
    use MKey as K;
    let e = |k: MKey, v: Sx| (Some(k), v);
    vec![
        ("lit-int", Sx::Map(vec![e(K::Int(1), sstr("one")), e(K::Int(2), sstr("two")), e(K::Int(3), sstr("three")), e(K::Int(4), sstr("four"))]), false),
        ("lit-str", Sx::Map(vec![e(K::Str("ab".into()), cint(1)), e(K::Str("b".into()), cint(2)), e(K::Str("2".into()), cint(3))]), false),
        ("lit-bool", Sx::Map(vec![e(K::Bool(true), sstr("t")), e(K::Bool(false), sstr("f")), e(K::Int(1), sstr("i")), e(K::Int(0), sstr("z"))]), false),
        // not folded by the parser: a variable value and a spread
        ("lit-dyn", Sx::Map(vec![e(K::Int(1), var("w")), e(K::Int(2), sstr("two")), (None, var("ms")), e(K::Int(3), cint(3))]), false),
        ("ctx-u64", var("mu"), true),
        ("ctx-i64", var("mi"), true),
        ("ctx-128", var("mw"), true),
        ("ctx-str", var("ms"), true),
    ]
}

fn key_env() -> Vec<(String, Value)> {
    use tera::value::Key;
    let s = |x: &str| Value::from(x);
    vec![
        ("mu", vmap_k(vec![(Key::U64(1), s("un")), (Key::U64(2), s("deux")), (Key::U64(3), s("trois")), (Key::U64(4), s("quatre"))])),
        ("mi", vmap_k(vec![(Key::I64(-1), s("m1")), (Key::I64(1), s("p1")), (Key::I64(2), s("p2")), (Key::I64(4), s("p4"))])),
        ("mw", vmap_k(vec![(Key::I128(1), s("w1")), (Key::U128(2), s("w2")), (Key::I128(-1), s("wm1")), (Key::U128(9), s("w9"))])),
        ("ms", vmap(vec![("ab", vi(10)), ("b", vi(20))])),
        ("ku64", Value::from(1u64)),
        ("ki64", Value::from(1i64)),
        ("ki128", Value::from(1i128)),
        ("ku128", Value::from(2u128)),
        ("kneg", Value::from(-1i64)),
        ("n", Value::from(2i64)),
        ("zero", Value::from(0i64)),
        ("xs", varr(vec![vi(5), vi(6)])),
        ("t", Value::from(true)),
        ("sa", s("a")),
        ("w", s("wv")),
    ]
    .into_iter()
    .map(|(k, v)| (k.to_string(), v))
    .collect()
}

/// the keys: literals, variables of every integer width, arithmetic / concatenation / filter
/// results, ternaries and `or` defaults
fn key_exprs() -> Vec<(&'static str, Sx)> {
    use Bop::*;
    vec![
        ("1", cint(1)),
        ("2", cint(2)),
        ("9", cint(9)),
        ("'ab'", sstr("ab")),
        ("'zz'", sstr("zz")),
        ("true", Sx::Const(Const::Bool(true))),
        ("ku64", var("ku64")),
        ("ki64", var("ki64")),
        ("ki128", var("ki128")),
        ("ku128", var("ku128")),
        ("kneg", var("kneg")),
        ("0 + 1", bin(Plus, cint(0), cint(1))),
        ("zero + 1", bin(Plus, var("zero"), cint(1))),
        ("n * 1", bin(Mul, var("n"), cint(1))),
        ("3 - 2", bin(Minus, cint(3), cint(2))),
        ("4 // 2", bin(FloorDiv, cint(4), cint(2))),
        ("7 % 4", bin(Mod, cint(7), cint(4))),
        ("2 * n", bin(Mul, cint(2), var("n"))),
        ("0 - 1", bin(Minus, cint(0), cint(1))),
        ("-1", un(Unop::Minus, cint(1))),
        ("5 + 4", bin(Plus, cint(5), cint(4))),
        ("'a' ~ 'b'", bin(Concat, sstr("a"), sstr("b"))),
        ("sa ~ 'b'", bin(Concat, var("sa"), sstr("b"))),
        ("xs | length", filt(var("xs"), "length")),
        ("1 if t else 2", tern(var("t"), cint(1), cint(2))),
        ("zero + 1 if t else 2", tern(var("t"), bin(Plus, var("zero"), cint(1)), cint(2))),
        ("nope or 1", bin(Or, var("nope"), cint(1))),
        ("nope or 'ab'", bin(Or, var("nope"), sstr("ab"))),
        ("nope | default(value=2)", Sx::Filter(bx(var("nope")), "default".into(), vec![("value".into(), cint(2))])),
    ]
}

fn emit_key_cases(sink: &mut Sink, meta: &mut Meta, tera: &Tera, rng: &mut Rng, thorough: bool) -> usize {
    let env = key_env();
    let before = sink.count;
    let arr3 = arr(vec![(false, cint(10)), (false, cint(20)), (false, cint(30))]);
    for (kn, k) in key_exprs() {
        for (mn, m, is_var) in key_maps() {
            let mut forms: Vec<(&str, Sx)> = vec![
                ("M[K]", item(m.clone(), k.clone())),
                ("K in M", bin(Bop::In, k.clone(), m.clone())),
                ("K not in M", Sx::NotIn(bx(k.clone()), bx(m.clone()))),
            ];
            if is_var {
                forms.push(("M?[K]", item_o(m.clone(), k.clone(), true)));
            }
            if thorough {
                forms.push(("M[K] or 'd'", bin(Bop::Or, item(m.clone(), k.clone()), sstr("d"))));
                forms.push(("M[K] ~ '!' if K in M else 'no'", tern(bin(Bop::In, k.clone(), m.clone()), bin(Bop::Concat, item(m.clone(), k.clone()), sstr("!")), sstr("no"))));
            }
            for (fname, e) in forms {
                let tag = format!("K:{fname} @ {mn} @ {kn}");
                emit_eval(sink, meta, tera, &e, &env, false, &tag, rng);
            }
        }
        // arrays indexed by computed integers
        for (an, a) in [("[10,20,30]", arr3.clone()), ("xs", var("xs"))] {
            let tag = format!("K:A[K] @ {an} @ {kn}");
            emit_eval(sink, meta, tera, &item(a.clone(), k.clone()), &env, false, &tag, rng);
        }
    }
    sink.count - before
}


// ------------------------------------------------------------------ (C) list comprehensions and spreads

/// comprehension = filter + map over the target in order, loop variable scoped to the
/// comprehension, condition before element, element not evaluated for skipped items, first error
/// wins (Spec/ExprSem.v EComp); spreads of comprehension results
fn emit_comp_cases(sink: &mut Sink, meta: &mut Meta, tera: &Tera, rng: &mut Rng, thorough: bool) -> usize {
    let before = sink.count;
    let targets: Vec<(&str, Option<Value>)> = vec![
        ("[]", Some(varr(vec![]))),
        ("[1,2,3]", Some(varr(vec![vi(1), vi(2), vi(3)]))),
        ("[0,1,2,3]", Some(varr(vec![vi(0), vi(1), vi(2), vi(3)]))),
        ("['a','','b']", Some(varr(vec![Value::from("a"), Value::from(""), Value::from("b")]))),
        ("[none,true,false]", Some(varr(vec![Value::none(), Value::from(true), Value::from(false)]))),
        ("[[1],[2,3],[]]", Some(varr(vec![varr(vec![vi(1)]), varr(vec![vi(2), vi(3)]), varr(vec![])]))),
        ("[{f:1},{f:0},{}]", Some(varr(vec![vmap(vec![("f", vi(1))]), vmap(vec![("f", vi(0))]), vmap(vec![])]))),
        ("[1,'a',none]", Some(varr(vec![vi(1), Value::from("a"), Value::none()]))),
        ("int", Some(vi(3))),
        ("str", Some(Value::from("ab"))),
        ("none", Some(Value::none())),
        ("map", Some(vmap(vec![("a", vi(1))]))),
        ("emptymap", Some(vmap(vec![]))),
        ("unbound", None),
    ];
    let x = || var("x");
    let elems: Vec<(&str, Sx)> = vec![
        ("x", x()),
        ("x + 1", bin(Bop::Plus, x(), cint(1))),
        ("x * x", bin(Bop::Mul, x(), x())),
        ("x ~ '!'", bin(Bop::Concat, x(), sstr("!"))),
        ("[x, y]", arr(vec![(false, x()), (false, var("y"))])),
        ("[...x]", arr(vec![(true, x())])),
        ("{'v': x}", Sx::Map(vec![(Some(MKey::Str("v".into())), x())])),
        ("x if x else 'z'", tern(x(), x(), sstr("z"))),
        ("y", var("y")),
        ("nope", var("nope")),
        ("x.f", attr(x(), "f", false)),
        ("x?.f or 0", bin(Bop::Or, attr(x(), "f", true), cint(0))),
        ("throw()", throw_call()),
        ("1", cint(1)),
        ("not x", un(Unop::Not, x())),
        ("x is defined", test(x(), "defined", false)),
    ];
    let conds: Vec<(&str, Option<Sx>)> = vec![
        ("-", None),
        ("x", Some(x())),
        ("not x", Some(un(Unop::Not, x()))),
        ("x > 1", Some(bin(Bop::Gt, x(), cint(1)))),
        ("x is odd", Some(test(x(), "odd", false))),
        ("x is not defined", Some(test(x(), "defined", true))),
        ("nope", Some(var("nope"))),
        ("true", Some(Sx::Const(Const::Bool(true)))),
        ("false", Some(Sx::Const(Const::Bool(false)))),
        ("y", Some(var("y"))),
        ("x.f", Some(attr(x(), "f", false))),
        ("throw()", Some(throw_call())),
        ("x in [1, 'a']", Some(bin(Bop::In, x(), arr(vec![(false, cint(1)), (false, sstr("a"))])))),
    ];
    let env_of = |t: &Option<Value>| {
        // `x` is bound outside too (shadowed inside the comprehension), `y` is an outer variable
        let mut env = vec![("x".to_string(), vi(100)), ("y".to_string(), vi(7))];
        if let Some(v) = t {
            env.push(("xs".to_string(), v.clone()));
        }
        env
    };
    let comp = |e: &Sx, c: &Option<Sx>| Sx::Comp(bx(e.clone()), None, "x".into(), bx(var("xs")), c.clone().map(bx));
    let mut n = 0usize;
    for (ti, (tn, t)) in targets.iter().enumerate() {
        let env = env_of(t);
        for (ei, (en, e)) in elems.iter().enumerate() {
            for (ci, (cn, c)) in conds.iter().enumerate() {
                // quick: a slice through each face of the product; thorough: all of it
                let quick = (ci == 0 && ei % 2 == ti % 2)
                    || (ei == 0 && matches!(ti, 0 | 2 | 4 | 7 | 8 | 13))
                    || (ti == 2 && (ei + ci) % 3 == 0);
                if !(thorough || quick) {
                    continue;
                }
                let tag = format!("C:[{en} for x in xs if {cn}] @ {tn}");
                n += 1;
                emit_eval(sink, meta, tera, &comp(e, c), &env, n % 7 == 0, &tag, rng);
            }
        }
    }
    // scoping, laziness, nesting, spreads of results, key/value form
    let xs = || var("xs");
    let c1 = comp(&bin(Bop::Mul, x(), cint(2)), &Some(bin(Bop::Gt, x(), cint(1))));
    let extra: Vec<(&str, Sx)> = vec![
        ("[[x for x in xs], x]", arr(vec![(false, comp(&x(), &None)), (false, x())])),
        ("[x, [x for x in xs], x]", arr(vec![(false, x()), (false, comp(&x(), &None)), (false, x())])),
        ("[x for x in xs] | length", filt(comp(&x(), &None), "length")),
        ("[x for x in xs if x > 1] | length", filt(c1.clone(), "length")),
        ("[x for x in xs][0]", item(comp(&x(), &None), cint(0))),
        ("[x for x in xs][-1]", item(comp(&x(), &None), un(Unop::Minus, cint(1)))),
        ("[throw() for x in xs if false]", comp(&throw_call(), &Some(Sx::Const(Const::Bool(false))))),
        ("[throw() for x in []]", Sx::Comp(bx(throw_call()), None, "x".into(), bx(arr(vec![])), None)),
        ("[x for x in [] if throw()]", Sx::Comp(bx(x()), None, "x".into(), bx(arr(vec![])), Some(bx(throw_call())))),
        ("[x for x in throw()]", Sx::Comp(bx(x()), None, "x".into(), bx(throw_call()), None)),
        ("[x for x in [1, 2, y]]", Sx::Comp(bx(x()), None, "x".into(), bx(arr(vec![(false, cint(1)), (false, cint(2)), (false, var("y"))])), None)),
        ("[x for x in [...xs, ...xs]]", Sx::Comp(bx(x()), None, "x".into(), bx(arr(vec![(true, xs()), (true, xs())])), None)),
        ("[y for y in (xs if y else [])]", Sx::Comp(bx(var("y")), None, "y".into(), bx(tern(var("y"), xs(), arr(vec![]))), None)),
        ("[[x * z for z in xs] for x in xs]", Sx::Comp(bx(Sx::Comp(bx(bin(Bop::Mul, x(), var("z"))), None, "z".into(), bx(xs()), None)), None, "x".into(), bx(xs()), None)),
        ("[x for x in [z + 1 for z in xs] if x > 2]", Sx::Comp(bx(x()), None, "x".into(), bx(Sx::Comp(bx(bin(Bop::Plus, var("z"), cint(1))), None, "z".into(), bx(xs()), None)), Some(bx(bin(Bop::Gt, x(), cint(2)))))),
        ("[x for x in xs if [z for z in xs if z > x]]", Sx::Comp(bx(x()), None, "x".into(), bx(xs()), Some(bx(Sx::Comp(bx(var("z")), None, "z".into(), bx(xs()), Some(bx(bin(Bop::Gt, var("z"), x())))))))),
        ("[...[x for x in xs], 0, ...xs]", arr(vec![(true, comp(&x(), &None)), (false, cint(0)), (true, xs())])),
        ("[...xs, ...[x + 1 for x in xs if x],]", Sx::Trail(bx(arr(vec![(true, xs()), (true, comp(&bin(Bop::Plus, x(), cint(1)), &Some(x())))])))),
        ("{'k': [x for x in xs], ...{'n': xs | length}}", Sx::Map(vec![(Some(MKey::Str("k".into())), comp(&x(), &None)), (None, Sx::Map(vec![(Some(MKey::Str("n".into())), filt(xs(), "length"))]))])),
        ("[...x] (outer x)", arr(vec![(true, x())])),
        ("[v for k, v in xs]", Sx::Comp(bx(var("v")), Some("k".into()), "v".into(), bx(xs()), None)),
        ("[k for k, v in xs if v]", Sx::Comp(bx(var("k")), Some("k".into()), "v".into(), bx(xs()), Some(bx(var("v"))))),
        ("[x for x in xs] == xs", bin(Bop::Eq, comp(&x(), &None), xs())),
        ("1 in [x for x in xs]", bin(Bop::In, cint(1), comp(&x(), &None))),
        ("[x for x in xs] if xs else 'none'", tern(xs(), comp(&x(), &None), sstr("none"))),
        ("[x for x in xs or [9]]", Sx::Comp(bx(x()), None, "x".into(), bx(bin(Bop::Or, xs(), arr(vec![(false, cint(9))]))), None)),
        ("[x for x in xs if x or y]", comp(&x(), &Some(bin(Bop::Or, x(), var("y"))))),
    ];
    for (ti, (tn, t)) in targets.iter().enumerate() {
        if !thorough && !matches!(ti, 0 | 2 | 7 | 8 | 13) {
            continue;
        }
        let env = env_of(t);
        for (fname, e) in &extra {
            let tag = format!("C:{fname} @ {tn}");
            emit_eval(sink, meta, tera, e, &env, false, &tag, rng);
        }
    }
    sink.count - before
}

// ------------------------------------------------------------------ (J) and/or nested inside a non-logical wrapper

/// Implementation-side oracle for the statement forms (their jump patching differs from `{{ }}`):
/// `{% if e %}` / `{% elif e %}` take the branch exactly when the value e evaluates to is truthy,
/// and fail exactly when e fails.
fn if_form_oracle(meta: &mut Meta, tera: &Tera, text: &str, env: &[(String, Value)], probed: &Outcome<Value>, shape: &str) {
    let ctx = context_of(env);
    let forms = [
        format!("{{% if {text} %}}1{{% else %}}0{{% endif %}}"),
        format!("{{% if false %}}x{{% elif {text} %}}1{{% else %}}0{{% endif %}}"),
        format!("{{% if {text} %}}{{% if true %}}1{{% endif %}}{{% elif true %}}0{{% endif %}}"),
    ];
    for src in forms {
        let got = guarded(|| tera.render_str(&src, &ctx, false));
        meta.oracle_checks += 1;
        let ok = match (probed, &got) {
            (Outcome::Panic(_), _) => true,
            (Outcome::Ok(v), Outcome::Ok(t)) => t == if v.is_truthy() { "1" } else { "0" },
            (Outcome::Err(..), Outcome::Err(..)) => true,
            _ => false,
        };
        if !ok {
            let g = match &got {
                Outcome::Ok(t) => json!({"ok": t}),
                Outcome::Err(c, m) => json!({"err": c, "msg": m}),
                Outcome::Panic(m) => json!({"panic": m}),
            };
            meta.oracle_fail(
                "`{% if e %}` / `{% elif e %}` does not branch on the truth of the value e evaluates to",
                None,
                json!({"template": src, "ctx": json_env(env), "shape": shape, "rendered": g, "value_of_e": probed.json(json_value)}),
            );
        }
    }
}

fn truth_pool(thorough: bool) -> Vec<(&'static str, Option<Value>)> {
    let all: Vec<(&'static str, Option<Value>)> = vec![
        ("false", Some(Value::from(false))),
        ("true", Some(Value::from(true))),
        ("0", Some(vi(0))),
        ("'s'", Some(Value::from("s"))),
        ("undef", None),
        ("1", Some(vi(1))),
        ("''", Some(Value::from(""))),
        ("none", Some(Value::none())),
        ("[]", Some(varr(vec![]))),
        ("[0]", Some(varr(vec![vi(0)]))),
    ];
    if thorough { all } else { all.into_iter().take(5).collect() }
}

type Wrapper = (&'static str, Box<dyn Fn(Sx) -> Sx>);
fn wrappers() -> Vec<Wrapper> {
    fn w(n: &'static str, f: impl Fn(Sx) -> Sx + 'static) -> Wrapper {
        (n, Box::new(f))
    }
    vec![
        w("not (.)", |e| un(Unop::Not, e)),
        w("(.) == 1", |e| bin(Bop::Eq, e, cint(1))),
        w("(.) != 's'", |e| bin(Bop::Ne, e, sstr("s"))),
        w("(.) | default(value=5)", |e| Sx::Filter(bx(e), "default".into(), vec![("value".into(), cint(5))])),
        w("(.) is defined", |e| test(e, "defined", false)),
        w("(.) is string", |e| test(e, "string", false)),
        w("(.) ~ 's'", |e| bin(Bop::Concat, e, sstr("s"))),
        w("[.][0]", |e| item(arr(vec![(false, e)]), cint(0))),
        w("(. if t else 'u')", |e| tern(var("t"), e, sstr("u"))),
        w("-(.)", |e| un(Unop::Minus, e)),
    ]
}

/// same-operator and/or inside a wrapper, in the LEFT and in the RIGHT operand of an outer and/or,
/// over all assignments of the operands
fn emit_jump_cases(sink: &mut Sink, meta: &mut Meta, tera: &Tera, rng: &mut Rng, thorough: bool) -> usize {
    let before = sink.count;
    let pool = truth_pool(thorough);
    let rs: Vec<(&'static str, Option<Value>)> = if thorough {
        vec![("false", Some(Value::from(false))), ("'yes'", Some(Value::from("yes"))), ("true", Some(Value::from(true))), ("undef", None)]
    } else {
        vec![("false", Some(Value::from(false))), ("'yes'", Some(Value::from("yes")))]
    };
    let zs: Vec<(&'static str, Option<Value>)> = vec![("false", Some(Value::from(false))), ("'z'", Some(Value::from("z")))];
    let ws = wrappers();
    let mk_env = |vals: &[(&str, &Option<Value>)]| -> Vec<(String, Value)> {
        let mut env = vec![("t".to_string(), Value::from(true))];
        for (n, v) in vals {
            if let Some(v) = v {
                env.push((n.to_string(), v.clone()));
            }
        }
        env
    };
    let run = |e: Sx, env: &[(String, Value)], tag: String, sink: &mut Sink, meta: &mut Meta, rng: &mut Rng| {
        let text = expr_text(&e, rng);
        let probed = run_eval(tera, &text, env, false);
        if_form_oracle(meta, tera, &text, env, &probed, &tag);
        emit_eval(sink, meta, tera, &e, env, false, &tag, rng);
    };
    for (opn, op) in [("and", Bop::And), ("or", Bop::Or)] {
        for (xn, xv) in &pool {
            for (yn, yv) in &pool {
                for (rn, rv) in &rs {
                    let env = mk_env(&[("x", xv), ("y", yv), ("r", rv)]);
                    let inner = bin(op, var("x"), var("y"));
                    for (wn, w) in &ws {
                        let tag = format!("J:W(X {opn} Y) {opn} R @ {wn} @ x={xn} y={yn} r={rn}");
                        run(bin(op, w(inner.clone()), var("r")), &env, tag, sink, meta, rng);
                        let tag = format!("J:R {opn} W(X {opn} Y) @ {wn} @ x={xn} y={yn} r={rn}");
                        run(bin(op, var("r"), w(inner.clone())), &env, tag, sink, meta, rng);
                    }
                    // the ternary-condition form
                    let tag = format!("J:'a' if not (X {opn} Y) {opn} R else 'b' @ x={xn} y={yn} r={rn}");
                    run(tern(bin(op, un(Unop::Not, inner.clone()), var("r")), sstr("a"), sstr("b")), &env, tag, sink, meta, rng);
                }
            }
        }
        // three-operand inner chains
        let rs3 = &rs[..2];
        for (xn, xv) in &pool {
            for (yn, yv) in &pool {
                for (zn, zv) in &zs {
                    for (rn, rv) in rs3 {
                        let env = mk_env(&[("x", xv), ("y", yv), ("z", zv), ("r", rv)]);
                        let inner = bin(op, bin(op, var("x"), var("y")), var("z"));
                        for (wi, (wn, w)) in ws.iter().enumerate() {
                            if !thorough && wi != 0 {
                                continue;
                            }
                            let tag = format!("J:W(X {opn} Y {opn} Z) {opn} R @ {wn} @ x={xn} y={yn} z={zn} r={rn}");
                            run(bin(op, w(inner.clone()), var("r")), &env, tag, sink, meta, rng);
                        }
                    }
                }
            }
        }
    }
    sink.count - before
}

// ------------------------------------------------------------------ (F) float x integer comparisons at every integer boundary

fn int_value(z: i128, big: Option<u128>) -> Value {
    if let Some(u) = big {
        return if let Ok(x) = u64::try_from(u) { Value::from(x) } else { Value::from(u) };
    }
    if let Ok(x) = i64::try_from(z) { Value::from(x) } else { Value::from(z) }
}

fn emit_float_int_cases(sink: &mut Sink, meta: &mut Meta, tera: &Tera, rng: &mut Rng) -> usize {
    let before = sink.count;
    // (integers around the boundary, the float at the boundary)
    let mut bounds: Vec<(Vec<Value>, f64)> = Vec::new();
    for n in -3i128..=3 {
        bounds.push((vec![int_value(n - 1, None), int_value(n, None), int_value(n + 1, None)], n as f64));
    }
    for n in [1i128 << 53, -(1i128 << 53), i64::MAX as i128, i64::MIN as i128, i128::MAX, i128::MIN] {
        let mut is = vec![int_value(n, None)];
        if n > i128::MIN { is.push(int_value(n - 1, None)); }
        if n < i128::MAX { is.push(int_value(n + 1, None)); }
        bounds.push((is, n as f64));
    }
    bounds.push((vec![int_value(0, Some(u64::MAX as u128)), int_value(0, Some(u64::MAX as u128 + 1)), int_value(0, Some(u64::MAX as u128 - 1))], u64::MAX as f64));
    bounds.push((vec![int_value(0, Some(u128::MAX)), int_value(0, Some(u128::MAX - 1)), int_value(0, Some(i128::MAX as u128 + 1))], u128::MAX as f64));
    let ops = [Bop::Lt, Bop::Le, Bop::Gt, Bop::Ge, Bop::Eq, Bop::Ne];
    let mut items = Vec::new();
    for o in ops {
        items.push((false, bin(o, var("f"), var("i"))));
        items.push((false, bin(o, var("i"), var("f"))));
    }
    let e = arr(items);
    for (ints, fb) in bounds {
        let up = f64::from_bits(if fb > 0.0 { fb.to_bits() + 1 } else if fb < 0.0 { fb.to_bits() - 1 } else { 1 });
        let down = if fb > 0.0 { f64::from_bits(fb.to_bits() - 1) } else if fb < 0.0 { f64::from_bits(fb.to_bits() + 1) } else { -f64::from_bits(1) };
        let mut fs = vec![fb, up, down, fb + 0.5, fb - 0.5, fb + 0.25, fb - 0.75];
        if fb == 0.0 {
            fs.push(-0.0);
        }
        for f in fs {
            for i in &ints {
                let env = vec![("f".to_string(), Value::from(f)), ("i".to_string(), i.clone())];
                let tag = format!("F:[f op i, i op f | 6 ops] @ f={f:?} @ i={i}");
                emit_eval(sink, meta, tera, &e, &env, false, &tag, rng);
            }
        }
    }
    // infinities and the single comparisons through a ternary / and-or (the value is used as a condition)
    for f in [f64::INFINITY, f64::NEG_INFINITY] {
        for i in [int_value(0, None), int_value(i128::MAX, None), int_value(i128::MIN, None), int_value(0, Some(u128::MAX))] {
            let env = vec![("f".to_string(), Value::from(f)), ("i".to_string(), i.clone())];
            emit_eval(sink, meta, tera, &e, &env, false, &format!("F:[..] @ f={f:?} @ i={i}"), rng);
        }
    }
    for (f, i) in [(-2.5f64, -2i64), (-0.5, 0), (2.5, 2), (-2.5, -3), (0.5, 0), (-1.0e-300, 0)] {
        let env = vec![("f".to_string(), Value::from(f)), ("i".to_string(), Value::from(i))];
        let e2 = tern(bin(Bop::Lt, var("f"), var("i")), sstr("lt"), tern(bin(Bop::Gt, var("f"), var("i")), sstr("gt"), sstr("eq")));
        emit_eval(sink, meta, tera, &e2, &env, false, &format!("F:three-way @ f={f:?} @ i={i}"), rng);
    }
    sink.count - before
}


// ------------------------------------------------------------------ (O) ordering operators on containers and mixed kinds

/// `x op y` for the four ordering operators over every ordered pair of a pool of arrays (equal
/// prefixes followed by comparable / incomparable elements, nested, empty, different lengths),
/// maps, strings, numbers, bools and none: a pair the documentation does not order is an error,
/// never a coerced result.
fn emit_ordering_cases(sink: &mut Sink, meta: &mut Meta, tera: &Tera, rng: &mut Rng, thorough: bool) -> usize {
    let before = sink.count;
    let u = |z: u64| Value::from(z);
    let a = |v: Vec<Value>| Value::from(v);
    let mut m1 = tera::Map::new();
    m1.insert("a".into(), u(1));
    let mut m2 = tera::Map::new();
    m2.insert("a".into(), u(2));
    let pool: Vec<Value> = vec![
        a(vec![u(1), Value::from("a")]), a(vec![u(1), u(2)]), a(vec![u(1), Value::none()]), a(vec![u(2), Value::from("x")]), a(vec![u(1), u(5)]),
        a(vec![u(1), Value::from(true)]), a(vec![a(vec![u(1)]), a(vec![Value::from("a")])]), a(vec![a(vec![u(1)]), a(vec![u(2)])]), a(vec![]), a(vec![u(1)]),
        a(vec![u(1), u(2), u(3)]), a(vec![Value::from("a"), Value::from("b")]), a(vec![Value::from("a"), u(1)]), a(vec![Value::from(1.5f64), u(1)]),
        a(vec![Value::from(m1.clone())]), a(vec![Value::from(m2.clone())]),
        Value::from(m1), Value::from(m2), Value::from("a"), Value::from("1"), u(1), Value::from(1.0f64), Value::from(true), Value::none(),
    ];
    let ops = [Bop::Lt, Bop::Le, Bop::Gt, Bop::Ge];
    for (i, x) in pool.iter().enumerate() {
        for (j, y) in pool.iter().enumerate() {
            if !thorough && (i + 2 * j) % 3 == 2 && i >= 16 && j >= 16 {
                continue;
            }
            let env = vec![("x".to_string(), x.clone()), ("y".to_string(), y.clone())];
            // one operator per case: an error of one must not hide the value of another
            let o = ops[(i + j) % 4];
            emit_eval(sink, meta, tera, &bin(o, var("x"), var("y")), &env, false, &format!("O:x {o:?} y @ x=#{i} y=#{j}"), rng);
            if thorough || i < 16 && j < 16 {
                let o2 = ops[(i + j + 1) % 4];
                emit_eval(sink, meta, tera, &bin(o2, var("x"), var("y")), &env, false, &format!("O:x {o2:?} y @ x=#{i} y=#{j}"), rng);
            }
        }
    }
    sink.count - before
}

/// oracles on the engine alone: short-circuit of and / or / ternary, one level of undefined
fn eval_oracles(tera: &Tera, meta: &mut Meta) {
    let check = |meta: &mut Meta, what: &str, text: &str, env: &[(String, Value)], print: bool, ok: &dyn Fn(&Outcome<Value>) -> bool| {
        let r = run_eval(tera, text, env, print);
        meta.oracle_checks += 1;
        if r.is_panic() || !ok(&r) {
            meta.oracle_fail(what, None, json!({"text": text, "ctx": json_env(env), "print": print, "result": r.json(json_value)}));
        }
    };
    let is_val = |want: &Value| {
        let w = gal_value(want);
        move |r: &Outcome<Value>| matches!(r, Outcome::Ok(v) if gal_value(v) == w)
    };
    let is_err = |r: &Outcome<Value>| matches!(r, Outcome::Err(..));
    let mut operands: Vec<(Vec<(String, Value)>, Value, bool)> = value_pool()
        .into_iter()
        .filter_map(|(_, v, t)| t.map(|t| (vec![("v".to_string(), v.clone())], v, t)))
        .collect();
    operands.push((vec![], Value::undefined(), false));
    for (env, v, truthy) in &operands {
        if *truthy {
            check(meta, "`T or throw()` must yield T without evaluating the right operand", "v or throw(message=\"b\")", env, false, &is_val(v));
            check(meta, "`1 if T else throw()` must yield 1", "1 if v else throw(message=\"b\")", env, false, &is_val(&vi(1)));
            check(meta, "`T and throw()` must evaluate the right operand (error)", "v and throw(message=\"b\")", env, false, &is_err);
            check(meta, "`throw() if T else 2` must evaluate the taken branch (error)", "throw(message=\"b\") if v else 2", env, false, &is_err);
        } else {
            check(meta, "`F and throw()` must yield F without evaluating the right operand", "v and throw(message=\"b\")", env, false, &is_val(v));
            check(meta, "`throw() if F else 2` must yield 2", "throw(message=\"b\") if v else 2", env, false, &is_val(&vi(2)));
            check(meta, "`F or throw()` must evaluate the right operand (error)", "v or throw(message=\"b\")", env, false, &is_err);
            check(meta, "`1 if F else throw()` must evaluate the taken branch (error)", "1 if v else throw(message=\"b\")", env, false, &is_err);
        }
    }
    // printing / one level of undefined
    let m = vec![("m".to_string(), vmap(vec![("a", vi(1))])), ("n".to_string(), Value::none())];
    let printed = |tera: &Tera, text: &str, env: &[(String, Value)]| -> Outcome<String> {
        let ctx = context_of(env);
        guarded(|| tera.render_str(&format!("{{{{ {text} }}}}"), &ctx, false))
    };
    let check_print = |meta: &mut Meta, what: &str, text: &str, want: Option<&str>| {
        let r = printed(tera, text, &m);
        meta.oracle_checks += 1;
        let ok = match (&r, want) {
            (Outcome::Ok(s), Some(w)) => s == w,
            (Outcome::Err(..), None) => true,
            _ => false,
        };
        if !ok {
            meta.oracle_fail(what, None, json!({"text": text, "ctx": json_env(&m), "print": true, "result": r.json(|s| json!(s))}));
        }
    };
    check_print(meta, "`{{ nope }}` must be an error", "nope", None);
    check_print(meta, "`{{ nope or 1 }}` must print 1", "nope or 1", Some("1"));
    check_print(meta, "`{{ nope.x or 1 }}` must be an error (one level of undefined)", "nope.x or 1", None);
    check_print(meta, "`{{ m.missing or 1 }}` must print 1", "m.missing or 1", Some("1"));
    check_print(meta, "`{{ m.missing.x or 1 }}` must be an error (one level of undefined)", "m.missing.x or 1", None);
    check_print(meta, "`{{ nope?.a?.b or \"d\" }}` must print d", "nope?.a?.b or \"d\"", Some("d"));
    check_print(meta, "`{{ m?.missing?.x or \"d\" }}` must print d", "m?.missing?.x or \"d\"", Some("d"));
    // `none?.a` is not parseable (`?.` only continues an identifier chain): a variable bound to none
    check(meta, "`n?.a` with n = none must be undefined", "n?.a", &m, false, &is_val(&Value::undefined()));
    check(meta, "`nope?.a` must be undefined", "nope?.a", &m, false, &is_val(&Value::undefined()));
    check(meta, "`nope?[0]` must be undefined", "nope?[0]", &m, false, &is_val(&Value::undefined()));
}

// ------------------------------------------------------------------ main

fn replay(path: &std::path::Path) {
    let txt = std::fs::read_to_string(path).expect("read replay file");
    let first = txt.lines().next().unwrap_or("");
    let j: serde_json::Value = serde_json::from_str(&txt)
        .or_else(|_| serde_json::from_str(first))
        .expect("replay file is not JSON");
    let case = j.get("case").unwrap_or(&j);
    let text = case
        .get("text")
        .and_then(|t| t.as_str())
        .or_else(|| case.get("texts").and_then(|t| t.get(0)).and_then(|t| t.as_str()))
        .expect("no `text` in the case");
    println!("family: {}", j.get("family").and_then(|f| f.as_str()).unwrap_or("?"));
    println!("text: {text}");
    if let Some(ctx) = case.get("ctx").and_then(|c| c.as_object()) {
        // an eval case: the expression text + the context
        fn rebuild(j: &serde_json::Value) -> Value {
            if let Some(m) = j.get("map").and_then(|m| m.as_array()) {
                let mut out = tera::Map::new();
                for e in m {
                    let k = e[0].as_str().expect("key");
                    let (a, b) = (k.find('"').expect("string key"), k.rfind('"').expect("string key"));
                    out.insert(k[a + 1..b].to_string().into(), rebuild(&e[1]));
                }
                return Value::from(out);
            }
            if let Some(a) = j.get("arr").and_then(|a| a.as_array()) {
                return Value::from(a.iter().map(rebuild).collect::<Vec<_>>());
            }
            value_from_json(j)
        }
        let env: Vec<(String, Value)> = ctx.iter().map(|(k, v)| (k.clone(), rebuild(v))).collect();
        let print = case.get("print").and_then(|p| p.as_bool()).unwrap_or(false);
        let mut tera = Tera::default();
        register_probe(&mut tera);
        let r = run_eval(&tera, text, &env, print);
        println!("mode: {}", if print { "print ({{ e }})" } else { "probe ({{ (e) | probe }})" });
        println!("impl: {}", r.json(json_value));
        println!("gallina: {}", r.gal(gal_value));
        return;
    }
    match lex_text(text) {
        Lexed::Toks(t) => println!("tokens: {}", gal_toks(&t)),
        Lexed::Reject(m) => println!("lexer rejects: {m}"),
        Lexed::Odd(m) => println!("lexer: {m}"),
        Lexed::Panic(m) => println!("lexer PANIC: {m}"),
    }
    match parse_text(text) {
        Parsed::Accept(d) => println!("impl: Some {d}"),
        Parsed::Reject(m) => println!("impl: None (syntax error: {})", m.lines().next().unwrap_or("")),
        Parsed::Odd(m) => println!("impl: unexpected: {m}"),
        Parsed::Panic(m) => println!("impl: PANIC {m}"),
    }
}

fn main() {
    let args = parse_args();
    silence_panics();
    if let Some(p) = &args.replay {
        replay(p);
        return;
    }
    let thorough = args.tier == "thorough";
    let mut rng = Rng::new(args.seed);
    let hdr = "From TeraV Require Import Model.Value Model.Pratt Corr.CorrC02.\nOpen Scope nat_scope.";
    let n_random = if thorough { 12_000 } else { 500 };
    let n_mut = if thorough { 10_000 } else { 500 };
    let mut run = Run {
        ptree: Sink::new(&args.out, "ptree", hdr, "check_ptree"),
        praw: Sink::new(&args.out, "praw", hdr, "check_praw"),
        meta: Meta::default(),
        seeds: Vec::new(),
        seed_cap: n_mut.min(4_000),
    };

    // (E) exhaustive shapes, both tiers: minimal and fully parenthesised
    let shapes = exhaustive_shapes();
    let n_shapes = shapes.len();
    for (i, (tag, s)) in shapes.iter().enumerate() {
        // the layout cycles so that every shape is seen with the same layouts on every seed
        run.emit_decorated(s, tag, false, Some((i % 3) as u8), &mut rng);
    }
    let exhaustive_cases = run.ptree.count;
    // the mutation seeds should mostly be random trees
    run.seeds.truncate(300);

    // (L) limits
    let limits = limit_shapes();
    let n_limits = limits.len();
    for (tag, s) in &limits {
        run.emit_decorated(s, tag, false, None, &mut rng);
    }
    run.seeds.truncate(350);

    // (R) random trees in three decorations
    for _ in 0..n_random {
        let s = random_tree(&mut rng);
        run.emit_decorated(&s, "R:random", true, None, &mut rng);
    }

    // praw: hand-written first, then mutations of printed trees
    for t in HANDWRITTEN.iter().chain(HANDWRITTEN2.iter()).chain(HANDWRITTEN3.iter()) {
        run.emit_raw_text(&format!("{{{{ {t} }}}}"), "hand:written");
        run.emit_raw_text(&format!("{{{{ x + ({t}) }}}}"), "hand:nested");
    }
    let pool = mutation_pool();
    let seeds = std::mem::take(&mut run.seeds);
    for _ in 0..n_mut {
        let mut ts = rng.pick(&seeds).clone();
        let k = 1 + rng.below(2);
        let mut what = Vec::new();
        for _ in 0..k {
            what.push(mutate(&mut ts, &pool, &mut rng));
        }
        // single spaces between all tokens; the token stream sent to Coq is the lexer's
        let text = render(&ts, 0, &mut rng);
        run.emit_raw_text(&text, &format!("mut:{}", what.join("+")));
    }

    let Run { ptree, praw, mut meta, .. } = run;

    // ---- family eval: the reference evaluator vs the engine
    let ehdr = "From TeraV Require Import Model.Value Model.Pratt Spec.ExprSem Corr.CorrC02Eval.\nOpen Scope Z_scope.";
    let mut eval = Sink::new(&args.out, "eval", ehdr, "check_eval");
    let mut tera = Tera::default();
    register_probe(&mut tera);
    eval_oracles(&tera, &mut meta);
    // (S) systematic: every operand x every shape
    let shapes = eval_shapes();
    let operands = eval_operands(if thorough { 1 } else { 2 });
    for (xn, x, env0) in &operands {
        // `u` and `w` are bound in every systematic context (used by the path-branch shapes)
        let mut env = env0.clone();
        env.push(("u".to_string(), vmap(vec![("name", Value::from("alice"))])));
        env.push(("w".to_string(), Value::from("wv")));
        let env = &env;
        for (i, (sn, f)) in shapes.iter().enumerate() {
            let e = f(x);
            let tag = format!("{sn} @ {xn}");
            emit_eval(&mut eval, &mut meta, &tera, &e, env, false, &tag, &mut rng);
            if i < N_PRINT_SHAPES {
                emit_eval(&mut eval, &mut meta, &tera, &e, env, true, &tag, &mut rng);
            }
        }
    }
    // (K) maps / arrays subscripted and probed with computed keys
    let eval_key_cases = emit_key_cases(&mut eval, &mut meta, &tera, &mut rng, thorough);
    meta.extra.insert("eval_key_cases".into(), json!(eval_key_cases));
    // (C) list comprehensions and spreads of their results
    let eval_comp_cases = emit_comp_cases(&mut eval, &mut meta, &tera, &mut rng, thorough);
    meta.extra.insert("eval_comp_cases".into(), json!(eval_comp_cases));
    // (J) same-operator and/or inside non-logical wrappers; (F) float x integer comparisons
    let eval_jump_cases = emit_jump_cases(&mut eval, &mut meta, &tera, &mut rng, thorough);
    meta.extra.insert("eval_jump_cases".into(), json!(eval_jump_cases));
    let eval_float_int_cases = emit_float_int_cases(&mut eval, &mut meta, &tera, &mut rng);
    meta.extra.insert("eval_float_int_cases".into(), json!(eval_float_int_cases));
    let eval_ordering_cases = emit_ordering_cases(&mut eval, &mut meta, &tera, &mut rng, thorough);
    meta.extra.insert("eval_ordering_cases".into(), json!(eval_ordering_cases));
    let eval_systematic = eval.count;
    // (R) random
    let vpool = value_pool();
    let n_eval_random = if thorough { 15_000 } else { 800 };
    for _ in 0..n_eval_random {
        let (e, env) = random_eval_case(&mut rng, &vpool);
        let print = rng.chance(1, 5);
        emit_eval(&mut eval, &mut meta, &tera, &e, &env, print, "R:random", &mut rng);
    }
    meta.extra.insert("eval_systematic_cases".into(), json!(eval_systematic));
    meta.extra.insert("eval_operands".into(), json!(operands.len()));
    meta.extra.insert("eval_shapes".into(), json!(shapes.len()));
    meta.extra.insert("eval_random".into(), json!(n_eval_random));
    meta.extra.insert("exhaustive_shapes".into(), json!(true));
    meta.extra.insert("exhaustive_shape_count".into(), json!(n_shapes));
    meta.extra.insert("exhaustive_cases".into(), json!(exhaustive_cases));
    meta.extra.insert(
        "exhaustive_space".into(),
        json!("all pairs of the 17 infix operators + `not in` in both groupings; each of them against not/-, a filter, is / is not, the ternary (5 positions); ternary / unary / filter / test against each other; subscripts and slices on 24 kinds of base; each in the minimal and the fully parenthesised decoration"),
    );
    meta.extra.insert("limit_shapes".into(), json!(n_limits));
    meta.extra.insert("random_trees".into(), json!(n_random));
    meta.extra.insert("mutations".into(), json!(n_mut));
    meta.families.push(ptree.finish());
    meta.families.push(praw.finish());
    meta.families.push(eval.finish());
    meta.write(&args.out);
}
