//! Stand-alone runner of family `vm1` (Model/VM.v in the full world Model/World1.v vs the real
//! render). `tools/check C03` runs the same generator from c03.rs.
use tvh::*;

#[path = "../vm1_gen.rs"]
mod vm1;

fn main() {
    let args = parse_args();
    silence_panics();
    let mut rng = Rng::new(args.seed ^ 0x5eed_0001);
    let mut meta = Meta::default();
    vm1::run(&args, &mut rng, &mut meta);
    meta.write(&args.out);
}
