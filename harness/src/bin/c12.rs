//! C12 — errors name the right template and position and always display.
//!
//! Coq families (Corr/CorrC12.v):
//!   tokens : raw token stream of a source (hook `verif::lex`): every span well-formed, and the
//!            model's replay of the lexer bookkeeping (advance!/make_span!) reproduces each span
//!   spans  : spans attached to instructions (hook `verif::chunk_listings`, before and after
//!            fusion), to top-level expressions (hook `verif::parse_expr_display`) and the
//!            filtered token stream: span_wf against the source
//!   report : every syntax/rendering error: span (and the spans of the expected notes)
//!            well-formed, `Display` == Model.Report.generate_report
//!   eoi    : "Unexpected end of input" span == eoi(span of the last token)
//!   hull   : span of a binary-operator error == expand_span(combine_spans(operands))
//!
//! Implementation-side oracle on every error obtained from a planted fault:
//!   (a) filename = the template the fault was planted in
//!   (b) span range inside that template's source, start <= end, both on character boundaries
//!   (c) (start_line,start_col) / (end_line,end_col) = reference line/column (1 + '\n' bytes
//!       before the offset; characters since the last '\n') of range.start / range.end
//!   (d) the span touches the planted token (intersects it; an empty span must lie within
//!       [token.start, token.end]) and does not leave the planted statement
//!   (e) `format!("{err}")` does not panic and contains "<line no> | <text of the line the span
//!       starts on>"
//!   (f) faults inside includes/components: one "note: called from <caller>:<l>:<c>" per call
//!       site, innermost first, each position inside the call-site tag of that caller
use serde_json::json;
use std::ops::Range;
use tera::verif::{chunk_listings, lex, parse_expr_display};
use tera::{Context, Delimiters, ErrorKind, Map, Span, Tera, Value};
use tvh::*;

// ------------------------------------------------------------------ printing

fn hexlit(b: &[u8]) -> String {
    fn one(b: &[u8]) -> String {
        if b.is_empty() {
            return "(B 0 0)".to_string();
        }
        let mut s = String::with_capacity(b.len() * 2 + 16);
        s.push_str(&format!("(B {} 0x", b.len()));
        for x in b {
            s.push_str(&format!("{x:02x}"));
        }
        s.push(')');
        s
    }
    if b.len() <= 1024 {
        return one(b);
    }
    format!("(BS [{}])", b.chunks(1024).map(one).collect::<Vec<_>>().join("; "))
}

fn gal_span(sp: &Span) -> String {
    format!(
        "(SP {} {} {} {} {} {})",
        sp.start_line, sp.start_col, sp.end_line, sp.end_col, sp.range.start, sp.range.end
    )
}

/// a list of spans as one packed literal (12 bytes per span); None if a field needs > 16 bits
fn spans_lit(sps: &[Span]) -> Option<String> {
    let mut b = Vec::with_capacity(sps.len() * 12);
    for sp in sps {
        for v in [sp.start_line, sp.start_col, sp.end_line, sp.end_col, sp.range.start, sp.range.end] {
            if v > 0xffff {
                return None;
            }
            b.push((v >> 8) as u8);
            b.push((v & 0xff) as u8);
        }
    }
    Some(hexlit(&b))
}

fn json_span(sp: &Span) -> serde_json::Value {
    json!(format!(
        "{}:{}-{}:{} ({}..{})",
        sp.start_line, sp.start_col, sp.end_line, sp.end_col, sp.range.start, sp.range.end
    ))
}

// ------------------------------------------------------------------ reference line/column

fn ref_linecol(src: &str, off: usize) -> Option<(usize, usize)> {
    if off > src.len() || !src.is_char_boundary(off) {
        return None;
    }
    let pre = &src.as_bytes()[..off];
    let line = 1 + pre.iter().filter(|&&b| b == b'\n').count();
    let ls = pre.iter().rposition(|&b| b == b'\n').map_or(0, |p| p + 1);
    let col = src[ls..off].chars().count();
    Some((line, col))
}

/// oracles (b) and (c)
fn span_problem(src: &str, sp: &Span) -> Option<String> {
    if sp.range.start > sp.range.end {
        return Some(format!("range reversed: {}..{}", sp.range.start, sp.range.end));
    }
    if sp.range.end > src.len() {
        return Some(format!("range end {} past the source ({} bytes)", sp.range.end, src.len()));
    }
    let Some(s) = ref_linecol(src, sp.range.start) else {
        return Some(format!("range.start {} not on a character boundary", sp.range.start));
    };
    let Some(e) = ref_linecol(src, sp.range.end) else {
        return Some(format!("range.end {} not on a character boundary", sp.range.end));
    };
    if s != (sp.start_line, sp.start_col) {
        return Some(format!(
            "start {}:{} but byte {} is {}:{}",
            sp.start_line, sp.start_col, sp.range.start, s.0, s.1
        ));
    }
    if e != (sp.end_line, sp.end_col) {
        return Some(format!(
            "end {}:{} but byte {} is {}:{}",
            sp.end_line, sp.end_col, sp.range.end, e.0, e.1
        ));
    }
    None
}

fn line_text(src: &str, off: usize) -> &str {
    let b = src.as_bytes();
    let ls = b[..off].iter().rposition(|&c| c == b'\n').map_or(0, |p| p + 1);
    let le = b[off..].iter().position(|&c| c == b'\n').map_or(b.len(), |p| off + p);
    &src[ls..le]
}

/// byte offset of (1-based line, 0-based column in characters); None if there is no such place
fn offset_of(src: &str, line: usize, col: usize) -> Option<usize> {
    if line == 0 {
        return None;
    }
    let mut ls = 0usize;
    for _ in 1..line {
        let p = src.as_bytes()[ls..].iter().position(|&c| c == b'\n')?;
        ls += p + 1;
    }
    let le = src.as_bytes()[ls..].iter().position(|&c| c == b'\n').map_or(src.len(), |p| ls + p);
    let text = &src[ls..le];
    let n = text.chars().count();
    if col > n {
        return None;
    }
    Some(ls + text.char_indices().nth(col).map_or(text.len(), |(i, _)| i))
}

// ------------------------------------------------------------------ errors

struct ErrInfo {
    class: String,
    message: String,
    filename: String,
    span: Option<Span>,
    /// Err = panic message while formatting
    display: Result<String, String>,
}

fn inspect(e: &tera::Error) -> ErrInfo {
    let (class, message, filename, span) = match e.kind() {
        ErrorKind::SyntaxError(r) => ("syntax", r.message().to_string(), r.filename().to_string(), Some(r.span().clone())),
        ErrorKind::RenderingError(r) => ("render", r.message().to_string(), r.filename().to_string(), Some(r.span().clone())),
        ErrorKind::Msg(m) => ("msg", m.clone(), String::new(), None),
        _ => ("other", String::new(), String::new(), None),
    };
    let display = match std::panic::catch_unwind(std::panic::AssertUnwindSafe(|| format!("{e}"))) {
        Ok(s) => Ok(s),
        Err(p) => Err(p
            .downcast_ref::<String>()
            .cloned()
            .or_else(|| p.downcast_ref::<&str>().map(|s| s.to_string()))
            .unwrap_or_else(|| "panic".into())),
    };
    ErrInfo { class: class.into(), message, filename, span, display }
}

/// "note: <label> <file>:<line>:<col>" lines of a Display text
fn parse_notes(display: &str) -> Vec<(String, String, usize, usize)> {
    let mut out = Vec::new();
    for part in display.split("\n\nnote: ").skip(1) {
        let first = part.lines().next().unwrap_or("");
        // label may contain spaces; locus is the last space-separated word
        if let Some(p) = first.rfind(' ') {
            let label = first[..p].to_string();
            let locus = &first[p + 1..];
            let mut it = locus.rsplitn(3, ':');
            let col = it.next().and_then(|x| x.parse::<usize>().ok());
            let line = it.next().and_then(|x| x.parse::<usize>().ok());
            let file = it.next().map(|x| x.to_string());
            if let (Some(c), Some(l), Some(f)) = (col, line, file) {
                out.push((label, f, l, c));
            }
        }
    }
    out
}

/// " --> <file>:<line>:<col>" lines (registration-time reports are only available as text)
fn parse_loci(display: &str) -> Vec<(String, usize, usize)> {
    let mut out = Vec::new();
    for l in display.lines() {
        let t = l.trim_start();
        if let Some(rest) = t.strip_prefix("--> ") {
            let mut it = rest.rsplitn(3, ':');
            let col = it.next().and_then(|x| x.parse::<usize>().ok());
            let line = it.next().and_then(|x| x.parse::<usize>().ok());
            let file = it.next().map(|x| x.to_string());
            if let (Some(c), Some(l), Some(f)) = (col, line, file) {
                out.push((f, l, c));
            }
        }
    }
    out
}

// ------------------------------------------------------------------ planted faults

#[derive(Clone)]
struct Fault {
    label: &'static str,
    snippet: &'static str,
    /// the offending token: (substring, which occurrence)
    token: (&'static str, usize),
    /// "render" | "syntax" | "ref"
    class: &'static str,
}

fn f(label: &'static str, snippet: &'static str, token: &'static str, class: &'static str) -> Fault {
    Fault { label, snippet, token: (token, 0), class }
}
fn f2(label: &'static str, snippet: &'static str, token: &'static str, occ: usize, class: &'static str) -> Fault {
    Fault { label, snippet, token: (token, occ), class }
}

fn token_range(fault: &Fault) -> Range<usize> {
    let (tok, occ) = fault.token;
    let mut from = 0;
    let mut found = None;
    for _ in 0..=occ {
        let p = fault.snippet[from..].find(tok).unwrap_or_else(|| panic!("token {tok:?} not in {:?}", fault.snippet));
        found = Some(from + p);
        from = from + p + tok.len().max(1);
    }
    let s = found.unwrap();
    s..s + tok.len()
}

fn render_faults() -> Vec<Fault> {
    vec![
        f("undef-var", "{{ nope }}", "nope", "render"),
        f("undef-var-path", "{{ nope.a.b }}", "nope", "render"),
        f("field-of-undefined", "{{ m.q.x }}", "q", "render"),
        f("field-of-undefined-deep", "{{ obj.f.q.r.s }}", "q", "render"),
        f("field-of-undefined-last", "{{ obj.f.g.r.s }}", "r", "render"),
        f("field-of-undefined-nofuse", "{{ strs[0].q.x }}", "q", "render"),
        f("undef-in-plus", "{{ 1 + nope }}", "nope", "render"),
        f("math-on-string", "{{ s * 2 }}", "s", "render"),
        f("math-on-string-rhs", "{{ 2 - s }}", "s", "render"),
        f("plus-string", "{{ s + 1 }}", "s + 1", "render"),
        f("div-zero", "{{ n / z }}", "z", "render"),
        f("mod-zero", "{{ n % 0 }}", "0", "render"),
        f("pow-overflow", "{{ big ** 9 }}", "big ** 9", "render"),
        f("filter-invalid-arg", "{{ n | upper }}", "n", "render"),
        f("filter-invalid-arg-chain", "{{ arr | first | upper }}", "arr | first", "render"),
        f("filter-bad-kwarg", "{{ s | truncate(length=s) }}", "truncate(length=s)", "render"),
        f("filter-bad-kwarg-join", "{{ arr | join(sep=1) }}", "join(sep=1)", "render"),
        f("test-bad-kwarg", "{{ n is divisible_by(divisor=s) }}", "divisible_by(divisor=s)", "render"),
        f("filter-missing-kwarg", "{{ s | replace(from=s) }}", "replace(from=s)", "render"),
        f("filter-on-undef", "{{ nope | upper }}", "nope", "render"),
        f("cmp-incomparable", "{{ s < n }}", "s < n", "render"),
        f("cmp-array", "{{ arr >= n }}", "arr >= n", "render"),
        f("cmp-paths", "{{ m.a < obj.f }}", "m.a < obj", "render"),
        f2("iter-non-iterable", "{% for x in n %}a{% endfor %}", "n", 1, "render"),
        f("iter-undefined", "{% for x in nope %}a{% endfor %}", "nope", "render"),
        f("kv-iter-array", "{% for k, v in arr %}a{% endfor %}", "arr", "render"),
        f("subscript-undef", "{{ arr[nope] }}", "nope", "render"),
        f("index-into-undef", "{{ nope[0] }}", "nope", "render"),
        f("bad-index-kind", "{{ arr[s] }}", "s", "render"),
        f("slice-start-undef", "{{ arr[nope:] }}", "nope", "render"),
        f("slice-end-str", "{{ arr[:s] }}", "s", "render"),
        f("slice-step-str", "{{ arr[::s] }}", "s", "render"),
        f("slice-non-container", "{{ n[1:] }}", "n", "render"),
        f("slice-step-zero", "{{ arr[::0] }}", "arr", "render"),
        f("neg-string", "{{ -s }}", "s", "render"),
        f2("in-non-container", "{{ 1 in n }}", "n", 1, "render"),
        f("spread-non-array", "{{ [1, ...n] }}", "n", "render"),
        f("spread-non-map", "{{ {\"a\": 1, ...n} }}", "n", "render"),
        f("fn-bad-arg", "{{ range(end=s) }}", "range(end=s)", "render"),
        f("test-bad-arg", "{{ s is divisible_by(divisor=2) }}", "s", "render"),
                f("set-block-filter", "{% set x | int %}abc{% endset %}", "int", "render"),
        f("filter-section", "{% filter int %}abc{% endfilter %}", "int", "render"),
        f("ternary-branch", "{{ s * 2 if t else 0 }}", "s", "render"),
        f("ternary-cond", "{{ 1 if s * 2 else 0 }}", "s", "render"),
        f("and-rhs", "{{ t and s * 2 }}", "s", "render"),
        f("or-rhs", "{{ f or -s }}", "s", "render"),
        f("not-operand", "{{ not (s < n) }}", "s < n", "render"),
        f2("comprehension-iter", "{{ [x for x in n] }}", "n", 1, "render"),
        f("comprehension-body", "{{ [x * 2 for x in strs] }}", "x", "render"),
        f("set-value", "{% set y = s * 2 %}", "s * 2", "render"),
        f("if-cond", "{% if s * 2 %}a{% endif %}", "s", "render"),
        f("elif-cond", "{% if f %}a{% elif s < n %}b{% endif %}", "s < n", "render"),
        f("kwarg-value", "{{ s | default(value=nope.x) }}", "nope", "render"),
        f("map-literal-value", "{{ {\"k\": s * 2} }}", "s", "render"),
        f("array-literal-value", "{{ [1, s * 2] }}", "s", "render"),
        f("concat-operand", "{{ s ~ (n / z) }}", "z", "render"),
        f("component-missing-arg", "{{ <card/> }}", "<card/>", "render"),
        f("component-wrong-type", "{{ <card title={1}/> }}", "<card title={1}/>", "render"),
        f("component-unknown-arg", "{{ <box q={1}/> }}", "<box q={1}/>", "render"),
        f("component-arg-expr", "{{ <card title={s * 2}/> }}", "s", "render"),
        f("ml-undef", "{{ 1 +\n   nope * 2 }}", "nope", "render"),
        f("ml-crlf-undef", "{{ n\r\n  *\r\n  s }}", "s", "render"),
        f("ml-string-operand", "{{ \"é\nx\" * 2 }}", "\"é\nx\"", "render"),
        f("ml-string-before", "{{ \"日\n本\" ~ nope.x }}", "nope", "render"),
        f2("ml-for", "{% for x\n in\n n %}a{% endfor %}", "n", 1, "render"),
        f("ml-cmp", "{{ s\n<\nn }}", "s\n<\nn", "render"),
        f("mb-string-before", "{{ \"日本😀é\" ~ nope.x }}", "nope", "render"),
        f("mb-string-cmp", "{{ \"é\" < 1 }}", "\"é\" < 1", "render"),
        f("opt-chain", "{{ m?.q.x.y }}", "q", "render"),
        f("ws-control", "{{- nope -}}", "nope", "render"),
        f("cr-in-tag", "{{ n\r*\rs }}", "s", "render"),
        f("cr-before-token", "{{ 1 +\rnope }}", "nope", "render"),
        f("crcrlf-in-tag", "{{ 1 +\r\r\n nope }}", "nope", "render"),
        f("lfcr-in-tag", "{{ 1 +\n\r nope }}", "nope", "render"),
        f("ff-in-tag", "{{ 1 +\x0c nope }}", "nope", "render"),
        f("cr-string-operand", "{{ \"a\rb\" * 2 }}", "\"a\rb\"", "render"),
        f("cr-string-before", "{{ \"a\rb\r\" ~ nope.x }}", "nope", "render"),
        f("ls-string-before", "{{ \"a\u{2028}b\" ~ nope.x }}", "nope", "render"),
        f("nel-string-operand", "{{ '\u{85}' * 2 }}", "'\u{85}'", "render"),
        f("vt-ff-string-before", "{{ `\x0b\x0c` ~ nope.x }}", "nope", "render"),
        f("cr-for", "{% for x\rin\rz %}a{% endfor %}", "z", "render"),
        f("tab-before", "\t{{\tnope\t}}", "nope", "render"),
    ]
}

fn syntax_faults() -> Vec<Fault> {
    vec![
        f("missing-tag-end", "{% if t }}x{% endif %}", "}}", "syntax"),
        f("missing-var-end", "{{ n %}", "%}", "syntax"),
        f("unexpected-token", "{{ 1 + }}", "}}", "syntax"),
        f2("two-exprs", "{{ n n }}", "n", 1, "syntax"),
        f("leading-comma", "{{ , }}", ",", "syntax"),
        f("missing-expr", "{{ }}", "}}", "syntax"),
        f("unterminated-string", "{{ \"abc }}", "\"", "syntax"),
        f("unterminated-string-mb", "{{ 'é日 }}", "'", "syntax"),
        f("bad-int", "{{ 99999999999999999999 }}", "99999999999999999999", "syntax"),
        f("bad-float-chain", "{{ 1.2.3 }}", ".3", "syntax"),
        f("endfor-without-for", "{% endfor %}", "endfor", "syntax"),
        f("stray-elif", "{% elif t %}", "elif", "syntax"),
        f("stray-else", "{% else %}", "else", "syntax"),
        f("unknown-tag", "{% foo %}", "foo", "syntax"),
        f("break-outside", "{% break %}", "break", "syntax"),
        f("unexpected-char", "{{ n # }}", "#", "syntax"),
        f("non-ascii-in-tag", "{{ é }}", "é", "syntax"),
        f("non-ascii-after-ident", "{{ n日 }}", "日", "syntax"),
        f("emoji-in-tag", "{% if 😀 %}a{% endif %}", "😀", "syntax"),
        f("unclosed-comment", "{# abc", "{#", "syntax"),
        f("unclosed-raw", "{% raw %}abc", "{% raw %}", "syntax"),
        f("bad-escape", "{{ \"a\\qb\" }}", "\"a\\qb\"", "syntax"),
        f2("dup-block", "{% block a %}{% endblock %}{% block a %}{% endblock %}", "a", 1, "syntax"),
        f("reserved-set", "{% set loop = 1 %}", "loop", "syntax"),
        f2("end-name-mismatch", "{% block a %}{% endblock b %}", "b", 2, "syntax"),
        f("positional-arg", "{{ n | round(1) }}", "1", "syntax"),
        f2("consecutive-unary", "{{ - - 1 }}", "-", 1, "syntax"),
        f("assign-in-expr", "{{ a = 1 }}", "=", "syntax"),
        f("for-missing-in", "{% for x arr %}{% endfor %}", "arr", "syntax"),
        f("set-missing-eq", "{% set x 1 %}", "x 1", "syntax"),
        f("include-non-string", "{% include nope %}", "nope", "syntax"),
        f("ml-unexpected", "{{ 1 +\n  é }}", "é", "syntax"),
        f("ml-string-then-bad", "{{ \"a\nb\" # }}", "#", "syntax"),
        f("ml-crlf-bad", "{% if t\r\n  ## %}", "#", "syntax"),
        f("comment-then-bad", "{# é\n日 #}{{ n ! }}", "!", "syntax"),
        f("cr-comment-then-bad", "{# a\rb\r #}{{ n ! }}", "!", "syntax"),
        f("cr-then-bad", "{{ 1 +\r # }}", "#", "syntax"),
        f("cr-string-then-bad", "{{ \"a\rb\" # }}", "#", "syntax"),
        f("vt-in-tag", "{{ 1 +\x0b 2 }}", "\x0b", "syntax"),
        f("ls-in-tag", "{{ 1\u{2028}+ 2 }}", "\u{2028}", "syntax"),
        f("nel-in-tag", "{% if t\u{85}%}a{% endif %}", "\u{85}", "syntax"),
        f("cr-unterminated-string", "{{ 1 +\r\"abc }}", "\"", "syntax"),
        f("cr-raw-then-bad", "{% raw %}\r{% endraw %}{{ , }}", ",", "syntax"),
        f("nested-brackets", "{{ a[[[[1]]]] }}", "[[[[", "syntax"),
    ]
}

fn ref_faults() -> Vec<Fault> {
    vec![
        f("unknown-filter", "{{ s | nofilter }}", "nofilter", "ref"),
        f("unknown-filter-section", "{% filter nofilter %}a{% endfilter %}", "nofilter", "ref"),
        f("unknown-test", "{{ s is notest }}", "notest", "ref"),
        f("unknown-fn", "{{ nofn() }}", "nofn", "ref"),
        f("unknown-component", "{{ <nocomp/> }}", "<nocomp/>", "ref"),
        f("unknown-include", "{% include \"missing\" %}", "\"missing\"", "ref"),
        f("cr-unknown-filter", "{{ s\r| nofilter }}", "nofilter", "ref"),
        f("cr-unknown-fn", "a\r{{ nofn() }}", "nofn", "ref"),
        f("crcrlf-unknown-test", "{{ s\r\r\nis notest }}", "notest", "ref"),
        f("ml-unknown-filter", "{{ s ~ \"é\n日\"\n  | nofilter }}", "nofilter", "ref"),
    ]
}

/// every line-ending flavour: only `\n` breaks a line for the lexer and for the report printer;
/// `\r`, VT, FF, U+0085, U+2028 are ordinary characters (one column each)
const EOLS: [(&str, &str); 9] = [
    ("lf", "\n"),
    ("crlf", "\r\n"),
    ("cr", "\r"),
    ("lfcr", "\n\r"),
    ("crcrlf", "\r\r\n"),
    ("ls-2028", "\u{2028}"),
    ("nel-85", "\u{85}"),
    ("vt", "\x0b"),
    ("ff", "\x0c"),
];

const PREFIXES: [(&str, &str); 27] = [
    ("none", ""),
    ("ascii", "abc "),
    ("2byte", "é "),
    ("3byte", "日本 "),
    ("4byte", "😀 "),
    ("line2", "line1\n"),
    ("line3-mb", "l1\nl2 é日😀 "),
    ("crlf", "l1\r\nl2 é\r\n"),
    ("blank-tab", "\n\n\t"),
    ("comment-nl", "{# é\n #}"),
    ("raw-nl", "{% raw %}{{ é\n{% endraw %}"),
    ("string-nl", "{{ \"é\n\" }}x "),
    ("combining", "e\u{301}\u{200d} "),
    ("lone-cr", "l1\rl2 é "),
    ("cr-first-byte", "\rx "),
    ("lf-first-byte", "\nx "),
    ("lfcr", "l1\n\rl2 "),
    ("crcrlf", "l1\r\r\nl2 é "),
    ("ls-2028", "l1\u{2028}l2 "),
    ("nel-85", "l1\u{85}l2 "),
    ("vt-ff", "l1\x0bl2\x0cl3 "),
    ("cr-only-lines", "a\rb\rc\r"),
    ("cr-in-comment", "{# a\rb\r\r\n #}"),
    ("cr-in-raw", "{% raw %}a\r{{ b\n\r{% endraw %}"),
    ("cr-in-string", "{{ \"a\rb\u{2028}c\" }} "),
    ("cr-in-tag", "{{\rn\r}}\r"),
    ("ff-in-tag", "{%\x0cset q = 1\x0c%}"),
];

const SUFFIXES: [(&str, &str); 11] = [
    ("none", ""),
    ("tail", " tail"),
    ("next-line", "\nnext é"),
    ("crlf", "\r\n"),
    ("more-code", " {{ n }}"),
    ("cr-last-byte", "\r"),
    ("cr-then-text", "\rnext é"),
    ("lfcr", "\n\r"),
    ("ls-2028", "\u{2028}x"),
    ("ff-last-byte", "\x0c"),
    ("crcrlf", "\r\r\n"),
];

const WRAPS: [(&str, &str, &str); 7] = [
    ("plain", "", ""),
    ("if", "{% if t %}", "{% endif %}"),
    ("for", "{% for i in arr %}", "{% endfor %}"),
    ("set-block", "{% set cap %}", "{% endset %}"),
    ("filter-section", "{% filter upper %}", "{% endfilter %}"),
    ("else", "{% if f %}{% else %}", "{% endif %}"),
    ("component-body", "{% <box> %}", "{% </box> %}"),
];

const PLACEMENTS: [&str; 16] = [
    "top",
    "ancestor-block",
    "include",
    "component",
    "child-block-super",
    "parent-via-super",
    "include-in-include",
    "component-from-include",
    "include-in-ancestor-block",
    "grandparent-block",
    "component-in-component",
    "include-from-component-body",
    // call chains longer than any fixed small number: every call site must be named, outermost last
    "include-chain-9",
    "include-chain-17",
    "component-chain-12",
    "mixed-chain-15",
];

const ARGS_DEF: &str = "s, n, z, big, t, f, arr, strs, m, obj";
const ARGS_PASS: &str = "s={s} n={n} z={z} big={big} t={t} f={f} arr={arr} strs={strs} m={m} obj={obj}";

const LIB: &str = "{% component card(title: string) %}<b>{{ title }}</b>{% endcomponent card %}\n{% component box() %}[{{ body }}]{% endcomponent box %}\n";

struct Plant {
    templates: Vec<(String, String)>,
    entry: String,
    fault_tpl: String,
    token: Range<usize>,
    stmt: Range<usize>,
    /// innermost first: (caller template, byte range of the call tag, callee kind+name)
    calls: Vec<(String, Range<usize>, String)>,
    /// the statement with its wrapper tags
    region: Range<usize>,
    /// message of the same fault planted alone at top level (None: no expectation)
    expect_msg: Option<String>,
    /// not a planted fault (corpus set, truncation): no expectation on which template, which
    /// token, which notes
    generic: bool,
    desc: serde_json::Value,
}

fn norm_msg(m: &str) -> String {
    match m.find(" Available ") {
        Some(p) => m[..p].to_string(),
        None => m.to_string(),
    }
}

/// text = pre ++ wrap.0 ++ snippet ++ wrap.1 ++ suf, with the ranges of snippet and token in it
fn body_with_fault(fault: &Fault, pre: &str, wrap: (&str, &str, &str), suf: &str) -> (String, Range<usize>, Range<usize>, Range<usize>) {
    let mut s = String::new();
    s.push_str(pre);
    s.push_str(wrap.1);
    let at = s.len();
    s.push_str(fault.snippet);
    s.push_str(wrap.2);
    s.push_str(suf);
    let tr = token_range(fault);
    let region = at - wrap.1.len()..at + fault.snippet.len() + wrap.2.len();
    (s, at..at + fault.snippet.len(), at + tr.start..at + tr.end, region)
}

/// caller text with one call tag; returns (text, range of the tag)
fn caller(cpre: &str, tag: &str, csuf: &str) -> (String, Range<usize>) {
    let s = format!("{cpre}{tag}{csuf}");
    (s, cpre.len()..cpre.len() + tag.len())
}

fn shift(r: &Range<usize>, by: usize) -> Range<usize> {
    r.start + by..r.end + by
}

fn plant(fault: &Fault, placement: &str, pre: (&str, &str), suf: (&str, &str), wrap: (&str, &str, &str), cpre: (&str, &str)) -> Plant {
    let (body, stmt, token, region) = body_with_fault(fault, pre.1, wrap, suf.1);
    let mut region = region;
    let mut t: Vec<(String, String)> = vec![("lib.html".into(), LIB.into())];
    let mut calls = Vec::new();
    let entry;
    let fault_tpl;
    let mut stmt = stmt;
    let mut token = token;
    let mut place = |name: &str, head: &str, tail: &str, t: &mut Vec<(String, String)>, stmt: &mut Range<usize>, token: &mut Range<usize>| {
        t.push((name.to_string(), format!("{head}{body}{tail}")));
        *stmt = shift(stmt, head.len());
        *token = shift(token, head.len());
        region = shift(&region, head.len());
    };
    match placement {
        "top" => {
            place("entry.html", "", "", &mut t, &mut stmt, &mut token);
            entry = "entry.html";
            fault_tpl = "entry.html";
        }
        "ancestor-block" => {
            place("base.html", "B0 é\n{% block content %}", "{% endblock %} B1{% block side %}s{% endblock %}", &mut t, &mut stmt, &mut token);
            t.push(("child.html".into(), "{% extends \"base.html\" %}\n{% block side %}child side{% endblock %}".into()));
            entry = "child.html";
            fault_tpl = "base.html";
        }
        "include" => {
            place("inc.html", "", "", &mut t, &mut stmt, &mut token);
            let (c, r) = caller(cpre.1, "{% include \"inc.html\" %}", " after");
            t.push(("entry.html".into(), c));
            calls.push(("entry.html".to_string(), r, "include:inc.html".to_string()));
            entry = "entry.html";
            fault_tpl = "inc.html";
        }
        "component" => {
            place("comps.html", &format!("x é\n{{% component widget({ARGS_DEF}) %}}"), "{% endcomponent widget %}", &mut t, &mut stmt, &mut token);
            let (c, r) = caller(cpre.1, &format!("{{{{ <widget {ARGS_PASS}/> }}}}"), " after");
            t.push(("entry.html".into(), c));
            calls.push(("entry.html".to_string(), r, "component:widget".to_string()));
            entry = "entry.html";
            fault_tpl = "comps.html";
        }
        "child-block-super" => {
            t.push(("base.html".into(), "B0\n{% block content %}base content{% endblock %} B1".into()));
            place("child.html", "{% extends \"base.html\" %}\n{% block content %}{{ super() }} ", "{% endblock %}", &mut t, &mut stmt, &mut token);
            entry = "child.html";
            fault_tpl = "child.html";
        }
        "parent-via-super" => {
            place("base.html", "B0\n{% block content %}p ", "{% endblock %} B1", &mut t, &mut stmt, &mut token);
            t.push(("child.html".into(), "{% extends \"base.html\" %}\n{% block content %}c é {{ super() }} c2{% endblock %}".into()));
            entry = "child.html";
            fault_tpl = "base.html";
        }
        "include-in-include" => {
            place("inc.html", "", "", &mut t, &mut stmt, &mut token);
            let (m, rm) = caller(cpre.1, "{% include \"inc.html\" %}", "");
            t.push(("mid.html".into(), m));
            let (c, r) = caller("é日\n  ", "{% include \"mid.html\" %}", "\nafter");
            t.push(("entry.html".into(), c));
            calls.push(("mid.html".to_string(), rm, "include:inc.html".to_string()));
            calls.push(("entry.html".to_string(), r, "include:mid.html".to_string()));
            entry = "entry.html";
            fault_tpl = "inc.html";
        }
        "component-from-include" => {
            place("comps.html", &format!("{{% component widget({ARGS_DEF}) %}}"), "{% endcomponent widget %}", &mut t, &mut stmt, &mut token);
            let (m, rm) = caller(cpre.1, &format!("{{% <widget {ARGS_PASS}> %}}in body{{% </widget> %}}"), "");
            t.push(("mid.html".into(), m));
            let (c, r) = caller("top\r\n😀 ", "{% include \"mid.html\" %}", "");
            t.push(("entry.html".into(), c));
            calls.push(("mid.html".to_string(), rm, "component:widget".to_string()));
            calls.push(("entry.html".to_string(), r, "include:mid.html".to_string()));
            entry = "entry.html";
            fault_tpl = "comps.html";
        }
        "include-in-ancestor-block" => {
            place("inc.html", "", "", &mut t, &mut stmt, &mut token);
            let (b, r) = caller(&format!("B0\n{{% block content %}}{}", cpre.1), "{% include \"inc.html\" %}", "{% endblock %}");
            t.push(("base.html".into(), b));
            t.push(("child.html".into(), "{% extends \"base.html\" %}".into()));
            calls.push(("base.html".to_string(), r, "include:inc.html".to_string()));
            entry = "child.html";
            fault_tpl = "inc.html";
        }
        "grandparent-block" => {
            place("root.html", "R é\n{% block content %}", "{% endblock %}{% block side %}{% endblock %}", &mut t, &mut stmt, &mut token);
            t.push(("base.html".into(), "{% extends \"root.html\" %}{% block side %}mid side{% endblock %}".into()));
            t.push(("child.html".into(), "{% extends \"base.html\" %}{% block side %}{{ super() }} leaf{% endblock %}".into()));
            entry = "child.html";
            fault_tpl = "root.html";
        }
        "component-in-component" => {
            place("comps.html", &format!("{{% component inner({ARGS_DEF}) %}}"), "{% endcomponent inner %}", &mut t, &mut stmt, &mut token);
            let (m, rm) = caller(&format!("{{% component outer({ARGS_DEF}) %}}{}", cpre.1), &format!("{{{{ <inner {ARGS_PASS}/> }}}}"), "{% endcomponent outer %}");
            t.push(("comps2.html".into(), m));
            let (c, r) = caller("a\nb ", &format!("{{{{ <outer {ARGS_PASS}/> }}}}"), "");
            t.push(("entry.html".into(), c));
            calls.push(("comps2.html".to_string(), rm, "component:inner".to_string()));
            calls.push(("entry.html".to_string(), r, "component:outer".to_string()));
            entry = "entry.html";
            fault_tpl = "comps.html";
        }
        "include-from-component-body" => {
            // the body passed to a component is rendered by the caller's chunk
            place("inc.html", "", "", &mut t, &mut stmt, &mut token);
            let (c, r) = caller(&format!("{}{{% <box> %}}", cpre.1), "{% include \"inc.html\" %}", "{% </box> %}");
            t.push(("entry.html".into(), c));
            calls.push(("entry.html".to_string(), r, "include:inc.html".to_string()));
            entry = "entry.html";
            fault_tpl = "inc.html";
        }
        pl if pl.starts_with("include-chain-") || pl.starts_with("component-chain-") || pl.starts_with("mixed-chain-") => {
            // entry -> c1 -> c2 -> ... -> c(n-1) -> fault template; link i is an include, a component
            // call, or alternates. Each caller has its call on a different line/column.
            let n: usize = pl.rsplit('-').next().unwrap().parse().unwrap();
            let kind = |i: usize| -> bool {
                // true: link i (from caller i to callee i+1) is a component call
                if pl.starts_with("include") { false } else if pl.starts_with("component") { true } else { i % 2 == 1 }
            };
            // innermost callee holds the fault: template inc.html (include) or component w<n>
            let last_is_comp = kind(n - 1);
            if last_is_comp {
                place("comps.html", &format!("x é\n{{% component w{n}({ARGS_DEF}) %}}"), &format!("{{% endcomponent w{n} %}}"), &mut t, &mut stmt, &mut token);
                fault_tpl = "comps.html";
            } else {
                place("inc.html", "", "", &mut t, &mut stmt, &mut token);
                fault_tpl = "inc.html";
            }
            // callers from the innermost (i = n-1) to the outermost (i = 0)
            for i in (0..n).rev() {
                let callee_comp = kind(i);
                let tag = if callee_comp {
                    format!("{{{{ <w{} {ARGS_PASS}/> }}}}", i + 1)
                } else if i == n - 1 {
                    "{% include \"inc.html\" %}".to_string()
                } else {
                    format!("{{% include \"c{}.html\" %}}", i + 1)
                };
                let pad = format!("{}{}", "\n".repeat(i % 4), " ".repeat(i % 5));
                // is caller i itself a component body (reached by a component link) or a template (reached by an include)?
                let caller_is_comp = i > 0 && kind(i - 1);
                let what = if callee_comp { format!("component:w{}", i + 1) } else if i == n - 1 { "include:inc.html".to_string() } else { format!("include:c{}.html", i + 1) };
                if caller_is_comp {
                    let head = format!("{{% component w{i}({ARGS_DEF}) %}}{pad}{}", if i == n - 1 { cpre.1 } else { "" });
                    let (c, r) = caller(&head, &tag, &format!("{{% endcomponent w{i} %}}"));
                    let name = format!("k{i}.html");
                    t.push((name.clone(), c));
                    calls.push((name, r, what));
                } else {
                    let name = if i == 0 { "entry.html".to_string() } else { format!("c{i}.html") };
                    let head = format!("{pad}{}", if i == n - 1 { cpre.1 } else { "é " });
                    let (c, r) = caller(&head, &tag, " after");
                    t.push((name.clone(), c));
                    calls.push((name, r, what));
                }
            }
            entry = "entry.html";
        }
        other => panic!("placement {other}"),
    }
    let desc = json!({"fault": fault.label, "snippet": fault.snippet, "placement": placement, "prefix": pre.0,
        "suffix": suf.0, "wrap": wrap.0, "caller_prefix": cpre.0, "entry": entry, "fault_template": fault_tpl,
        "templates": t.iter().map(|(n, s)| json!([n, s])).collect::<Vec<_>>()});
    Plant { templates: t, entry: entry.into(), fault_tpl: fault_tpl.into(), token, stmt, calls, region, expect_msg: None, generic: false, desc }
}

/// message of the error a plant gives (registration or render), if any
fn tera_err_message(p: &Plant, ctx: &Context) -> Option<String> {
    let mut tera = Tera::default();
    let tpls: Vec<(&str, &str)> = p.templates.iter().map(|(n, s)| (n.as_str(), s.as_str())).collect();
    let r = std::panic::catch_unwind(std::panic::AssertUnwindSafe(|| tera.add_raw_templates(tpls).and_then(|_| tera.render(&p.entry, ctx))));
    match r {
        Ok(Err(e)) => Some(inspect(&e).message),
        _ => None,
    }
}

fn context() -> Context {
    let mut c = Context::new();
    c.insert_value("s", Value::from("str"));
    c.insert_value("n", Value::from(3u64));
    c.insert_value("z", Value::from(0u64));
    c.insert_value("big", Value::from(i64::MAX));
    c.insert_value("t", Value::from(true));
    c.insert_value("f", Value::from(false));
    c.insert_value("arr", Value::from(vec![Value::from(1u64), Value::from(2u64), Value::from(3u64)]));
    c.insert_value("strs", Value::from(vec![Value::from("a"), Value::from("b")]));
    let mut k = Map::new();
    k.insert("z".into(), Value::from(1u64));
    let mut m = Map::new();
    m.insert("a".into(), Value::from(1u64));
    m.insert("k".into(), Value::from(k));
    c.insert_value("m", Value::from(m));
    let mut g = Map::new();
    g.insert("g".into(), Value::from(1u64));
    let mut o = Map::new();
    o.insert("f".into(), Value::from(g));
    c.insert_value("obj", Value::from(o));
    c
}

/// span of the instruction that performs the call `what` ("include:<name>" / "component:<name>")
/// in template (name, src)
fn call_span(name: &str, src: &str, what: &str) -> Option<Span> {
    let ls = chunk_listings(name, src, Delimiters::default()).ok()?;
    let (kind, target) = what.split_once(':')?;
    for cl in &ls {
        for (ins, spans) in &cl.after {
            let hit = match kind {
                "include" => ins.op == "Include" && ins.strs.first().map(|s| s.as_str()) == Some(target),
                _ => (ins.op == "RenderInlineComponent" || ins.op == "RenderBodyComponent") && ins.strs.first().map(|s| s.as_str()) == Some(target),
            };
            if hit {
                return spans.first().cloned();
            }
        }
    }
    None
}

struct Run<'a> {
    tokens: &'a mut Sink,
    spans: &'a mut Sink,
    report: &'a mut Sink,
    eoi: &'a mut Sink,
    meta: &'a mut Meta,
    /// errors by class for the evidence file
    seen: std::collections::BTreeMap<String, usize>,
    oracle_nontrivial: usize,
    to_coq: bool,
    n_token_spans: usize,
    n_other_spans: usize,
    alt_counter: usize,
    acc_tokens: usize,
    acc_spans: usize,
    acc_report: usize,
}

/// keep shards small in bytes as well as in cases (coqc's cost is proportional to the text)
fn push_capped(sink: &mut Sink, acc: &mut usize, g: String, desc: serde_json::Value, nontrivial: bool, kf: Option<&str>, tags: &[&str]) {
    if *acc + g.len() > 300_000 {
        sink.flush();
        *acc = 0;
    }
    *acc += g.len();
    sink.push(g, desc, nontrivial, kf, tags);
}

const KF_EOI: &str = "eoi:range-start-not-collapsed";
const KF_KWARG: &str = "kwarg-type-error:span-on-receiver";
const KWARG_FAULTS: [&str; 3] = ["filter-bad-kwarg", "filter-bad-kwarg-join", "test-bad-kwarg"];

impl<'a> Run<'a> {
    fn count(&mut self, k: &str) {
        *self.seen.entry(k.to_string()).or_default() += 1;
    }

    fn fail(&mut self, what: &str, kf: Option<&str>, p: &Plant, info: Option<&ErrInfo>) {
        // keep a few replays per known-finding key; count all of them
        if let Some(k) = kf {
            let key = format!("failures-of-known-class:{k}");
            self.count(&key);
            if self.seen[&key] > 6 {
                return;
            }
        }
        let mut d = p.desc.clone();
        if let Some(i) = info {
            d["error"] = json!({"class": i.class, "message": i.message, "filename": i.filename,
                "span": i.span.as_ref().map(json_span), "display": i.display.clone().unwrap_or_else(|e| format!("PANIC: {e}"))});
        }
        d["planted_token"] = json!([p.token.start, p.token.end]);
        self.meta.oracle_fail(what, kf, d);
    }

    /// oracles (a)-(f) on a SyntaxError / RenderingError of a planted fault; Coq `report` case
    fn check_report_error(&mut self, p: &Plant, fault: &Fault, info: &ErrInfo) {
        let span = info.span.as_ref().expect("report error");
        let is_eoi = info.message == "Unexpected end of input";
        self.meta.oracle_checks += 1;
        self.oracle_nontrivial += 1;
        // (a)
        if !p.generic && info.filename != p.fault_tpl {
            self.fail(&format!("(a) error names template `{}`, the fault is in `{}`", info.filename, p.fault_tpl), None, p, Some(info));
        }
        let Some(src) = p.templates.iter().find(|(n, _)| *n == info.filename).map(|(_, s)| s.as_str()) else {
            self.fail("(a) error names a template that is not in the set", None, p, Some(info));
            return;
        };
        // (b), (c)
        let bad_span = span_problem(src, span);
        if let Some(why) = &bad_span {
            let kf = if is_eoi { Some(KF_EOI) } else { None };
            self.fail(&format!("(b/c) span not consistent with the source: {why}"), kf, p, Some(info));
        }
        // (d)
        if !p.generic && info.filename == p.fault_tpl && bad_span.is_none() {
            let (s, e) = (span.range.start, span.range.end);
            let touches = if s == e { p.token.start <= s && s <= p.token.end } else { s < p.token.end && p.token.start < e };
            let touches = touches || (p.token.start == p.token.end && s <= p.token.start && p.token.start <= e);
            let inside = p.stmt.start <= s && e <= p.stmt.end;
            let same_fault = p.expect_msg.as_ref().map_or(true, |m| *m == norm_msg(&info.message));
            if is_eoi {
                // the end of input: nothing to cover, the position must be the end of the last token
            } else if !same_fault {
                // the surrounding construct changed which error fires first: the planted token
                // is not the offending one; the span must still lie in the planted statement or
                // its wrapper tags
                self.count("d:other-error-than-planted");
                if !(p.region.start <= s && e <= p.region.end) {
                    self.fail(&format!("(d) span {s}..{e} outside the planted statement and its wrapper {}..{}", p.region.start, p.region.end), None, p, Some(info));
                }
            } else if (!touches || !inside) && ((p.region.start <= s && e <= p.stmt.start) || (p.stmt.end <= s && e <= p.region.end)) && p.region != p.stmt {
                // the planted statement made one of its wrapper tags the offending token
                // (`{% endfor %}` planted inside a for loop closes that loop)
                self.count("d:wrapper-tag-is-the-offending-token");
            } else if !touches || !inside {
                let kf = if KWARG_FAULTS.contains(&fault.label) && info.message.starts_with("Invalid type for the value") { Some(KF_KWARG) } else { None };
                self.fail(
                    &format!("(d) span {s}..{e} does not cover the planted token {}..{} (statement {}..{})", p.token.start, p.token.end, p.stmt.start, p.stmt.end),
                    kf, p, Some(info));
            }
        }
        // (e)
        let display = match &info.display {
            Err(m) => {
                self.fail(&format!("(e) Display panicked: {m}"), None, p, Some(info));
                return;
            }
            Ok(d) => d.clone(),
        };
        if span.range.start <= src.len() && src.is_char_boundary(span.range.start.min(src.len())) {
            let want_line = ref_linecol(src, span.range.start).map(|x| x.0).unwrap_or(0);
            let quoted = format!("\n{} | {}\n", want_line, line_text(src, span.range.start));
            if !display.contains(&quoted) {
                let kf = if is_eoi && bad_span.is_some() { Some(KF_EOI) } else { None };
                self.fail("(e) Display does not quote the line the span starts on", kf, p, Some(info));
            }
        }
        // (f)
        let notes = parse_notes(&display);
        let called: Vec<_> = notes.iter().filter(|n| n.0 == "called from").collect();
        let expect_notes = info.class == "render" && !p.generic;
        let mut notes_ok = true;
        if expect_notes {
            if called.len() != p.calls.len() {
                notes_ok = false;
                self.fail(&format!("(f) {} `called from` notes, {} call sites", called.len(), p.calls.len()), None, p, Some(info));
            } else {
                for (k, (caller, tag, _)) in p.calls.iter().enumerate() {
                    let (_, file, line, col1) = called[k];
                    let csrc = &p.templates.iter().find(|(n, _)| n == caller).unwrap().1;
                    let pos = if *col1 == 0 { None } else { offset_of(csrc, *line, col1 - 1) };
                    let ok = file == caller && pos.map_or(false, |o| tag.start <= o && o < tag.end);
                    if !ok {
                        notes_ok = false;
                        self.fail(&format!("(f) note {k} is `{file}:{line}:{col1}`, the call site is in `{caller}` bytes {}..{}", tag.start, tag.end), None, p, Some(info));
                    }
                }
            }
        }
        // Coq case: span + expected notes well-formed, Display == model
        if !self.to_coq {
            return;
        }
        let mut note_lits = Vec::new();
        let mut exact = notes_ok;
        if expect_notes {
            for (caller, _, what) in &p.calls {
                let csrc = &p.templates.iter().find(|(n, _)| n == caller).unwrap().1;
                match call_span(caller, csrc, what) {
                    Some(sp) => note_lits.push(format!(
                        "(NT {} {} {} {})",
                        hexlit(b"called from"), hexlit(caller.as_bytes()), hexlit(csrc.as_bytes()), gal_span(&sp)
                    )),
                    None => exact = false,
                }
            }
        } else if !notes.is_empty() {
            // notes the harness cannot reconstruct (parser notes, corpus sets): compare the head only
            exact = false;
        }
        if !exact {
            note_lits.clear();
        }
        let expected: &str = if exact { &display } else { display.find("\n\nnote: ").map_or(&display[..], |p| &display[..p]) };
        let mut h: u64 = 0xcbf29ce484222325;
        for b in expected.bytes() {
            h = (h ^ b as u64).wrapping_mul(0x100000001b3);
        }
        let g = format!(
            "{{| rp_msg := {}; rp_file := {}; rp_src := {}; rp_span := {}; rp_notes := [{}]; rp_exact := {}; rp_len := {}; rp_hash := {} |}}",
            hexlit(info.message.as_bytes()), hexlit(info.filename.as_bytes()), hexlit(src.as_bytes()), gal_span(span),
            note_lits.join("; "), gal_bool(exact), expected.len(), h
        );
        let mut d = p.desc.clone();
        d["error"] = json!({"class": info.class, "message": info.message, "filename": info.filename, "span": json_span(span), "display": display});
        let multi = src.contains('\n') || !src.is_ascii();
        let kf = if is_eoi { Some(KF_EOI) } else { None };
        let tag_cls = format!("class:{}", info.class);
        let tag_pl = format!("placement:{}", p.desc["placement"].as_str().unwrap_or("?"));
        let tag_f = format!("fault:{}", fault.label);
        push_capped(self.report, &mut self.acc_report, g, d, multi && (span.start_line > 1 || span.start_col != span.range.start || !p.calls.is_empty()), kf,
            &[&tag_cls, &tag_pl, &tag_f, if exact { "display:exact" } else { "display:head-only" }]);
    }

    /// registration-time reference errors are `Msg` errors whose text is a list of reports
    fn check_ref_error(&mut self, p: &Plant, info: &ErrInfo) {
        self.meta.oracle_checks += 1;
        self.oracle_nontrivial += 1;
        let display = match &info.display {
            Err(m) => {
                self.fail(&format!("(e) Display panicked: {m}"), None, p, Some(info));
                return;
            }
            Ok(d) => d.clone(),
        };
        let loci = parse_loci(&display);
        if loci.len() != 1 {
            self.fail(&format!("expected one report in the registration error, found {}", loci.len()), None, p, Some(info));
            return;
        }
        let (file, line, col1) = &loci[0];
        if *file != p.fault_tpl {
            self.fail(&format!("(a) report names `{file}`, the fault is in `{}`", p.fault_tpl), None, p, Some(info));
            return;
        }
        let src = &p.templates.iter().find(|(n, _)| n == file).unwrap().1;
        let pos = if *col1 == 0 { None } else { offset_of(src, *line, col1 - 1) };
        match pos {
            None => self.fail(&format!("(c) {line}:{col1} is not a position of `{file}`"), None, p, Some(info)),
            Some(o) => {
                if !(p.token.start <= o && o <= p.token.end) {
                    self.fail(&format!("(d) report points at byte {o}, planted token {}..{}", p.token.start, p.token.end), None, p, Some(info));
                }
                let quoted = format!("\n{} | {}\n", line, line_text(src, o));
                if !display.contains(&quoted) {
                    self.fail("(e) report does not quote the line it points at", None, p, Some(info));
                }
            }
        }
    }

    /// the same fault reached through render_block / render_component
    fn other_entry_points(&mut self, tera: &Tera, p: &Plant, fault: &Fault, ctx: &Context) {
        let placement = p.desc["placement"].as_str().unwrap_or("").to_string();
        // the entry template rendered as a one-off string: it is then called `__tera_one_off`
        if matches!(placement.as_str(), "top" | "include" | "component" | "include-from-component-body") {
            const ONE_OFF: &str = "__tera_one_off";
            let src = p.templates.iter().find(|(n, _)| *n == p.entry).unwrap().1.clone();
            let r = std::panic::catch_unwind(std::panic::AssertUnwindSafe(|| tera.render_str(&src, ctx, false)));
            let mut templates = p.templates.clone();
            templates.push((ONE_OFF.to_string(), src));
            let rename = |n: &String| if *n == p.entry { ONE_OFF.to_string() } else { n.clone() };
            let mut q = Plant {
                templates, entry: ONE_OFF.into(), fault_tpl: rename(&p.fault_tpl), token: p.token.clone(), stmt: p.stmt.clone(),
                calls: p.calls.iter().map(|(c, r, w)| (rename(c), r.clone(), w.clone())).collect(),
                region: p.region.clone(), expect_msg: p.expect_msg.clone(), generic: false, desc: p.desc.clone(),
            };
            q.desc["via"] = json!("render_str");
            match r {
                Err(_) => {
                    self.meta.oracle_checks += 1;
                    self.fail("panic during render_str", None, &q, None);
                }
                Ok(Ok(_)) => self.count(&format!("no-error-via-render_str:{}", fault.label)),
                Ok(Err(e)) => {
                    let info = inspect(&e);
                    self.count(&format!("render_str:{}", info.class));
                    if info.span.is_some() {
                        self.check_report_error(&q, fault, &info);
                    }
                }
            }
        }
        let (r, calls, via) = match placement.as_str() {
            "ancestor-block" | "child-block-super" | "parent-via-super" | "grandparent-block" | "include-in-ancestor-block" => (
                std::panic::catch_unwind(std::panic::AssertUnwindSafe(|| tera.render_block(&p.entry, "content", ctx))),
                p.calls.clone(),
                "render_block",
            ),
            "component" => (
                std::panic::catch_unwind(std::panic::AssertUnwindSafe(|| tera.render_component("widget", ctx, None, false))),
                vec![],
                "render_component",
            ),
            "component-in-component" => (
                std::panic::catch_unwind(std::panic::AssertUnwindSafe(|| tera.render_component("outer", ctx, Some("b"), true))),
                p.calls[..1].to_vec(),
                "render_component",
            ),
            _ => return,
        };
        let mut q = Plant {
            templates: p.templates.clone(), entry: p.entry.clone(), fault_tpl: p.fault_tpl.clone(), token: p.token.clone(),
            stmt: p.stmt.clone(), calls, region: p.region.clone(), expect_msg: p.expect_msg.clone(), generic: false, desc: p.desc.clone(),
        };
        q.desc["via"] = json!(via);
        match r {
            Err(_) => {
                self.meta.oracle_checks += 1;
                self.fail(&format!("panic during {via}"), None, &q, None);
            }
            Ok(Ok(_)) => self.count(&format!("no-error-via-{via}:{}", fault.label)),
            Ok(Err(e)) => {
                let info = inspect(&e);
                self.count(&format!("{via}:{}", info.class));
                if info.span.is_some() {
                    self.check_report_error(&q, fault, &info);
                }
            }
        }
    }

    fn run_plant(&mut self, p: &Plant, fault: &Fault, ctx: &Context) {
        let mut tera = Tera::default();
        let tpls: Vec<(&str, &str)> = p.templates.iter().map(|(n, s)| (n.as_str(), s.as_str())).collect();
        let reg = std::panic::catch_unwind(std::panic::AssertUnwindSafe(|| tera.add_raw_templates(tpls)));
        let reg = match reg {
            Err(_) => {
                self.meta.oracle_checks += 1;
                self.fail("panic during registration", None, p, None);
                return;
            }
            Ok(r) => r,
        };
        match reg {
            Err(e) => {
                let info = inspect(&e);
                self.count(&format!("registration:{}", info.class));
                match (fault.class, info.class.as_str()) {
                    ("syntax", "syntax") | ("render", "syntax") | ("ref", "syntax") => self.check_report_error(p, fault, &info),
                    (_, "msg") => {
                        if fault.class == "ref" {
                            self.check_ref_error(p, &info)
                        } else {
                            self.count(&format!("unexpected-msg:{}", fault.label));
                        }
                    }
                    _ => self.count(&format!("unexpected-registration-error:{}:{}", fault.label, info.class)),
                }
            }
            Ok(()) => {
                if fault.class != "render" {
                    self.count(&format!("no-error:{}", fault.label));
                    return;
                }
                // every second plant whose fault lives in another template than the entry: a later
                // batch that moves the faulty code to other lines and is REJECTED at reference
                // validation must leave no trace - the error still points into the registered source
                if p.fault_tpl != p.entry && self.alt_counter % 2 == 1 {
                    if let Some((n, src)) = p.templates.iter().find(|(n, _)| *n == p.fault_tpl) {
                        let moved = format!("{{# moved #}}\n\n\n   {src}{{{{ 1 | no_such_filter_xyz }}}}");
                        let r = std::panic::catch_unwind(std::panic::AssertUnwindSafe(|| tera.add_raw_templates(vec![(n.as_str(), moved.as_str())])));
                        self.meta.oracle_checks += 1;
                        match r {
                            Ok(Err(_)) => {}
                            Ok(Ok(())) => {
                                self.fail("a template that uses an unknown filter was accepted", None, p, None);
                                return;
                            }
                            Err(_) => {
                                self.fail("panic during a rejected registration", None, p, None);
                                return;
                            }
                        }
                    }
                }
                // oracle on all of them; every third one also goes to Coq
                let keep = self.to_coq;
                self.alt_counter += 1;
                self.to_coq = keep && self.alt_counter % 3 == 0;
                self.other_entry_points(&tera, p, fault, ctx);
                self.to_coq = keep;
                let r = std::panic::catch_unwind(std::panic::AssertUnwindSafe(|| tera.render(&p.entry, ctx)));
                match r {
                    Err(_) => {
                        self.meta.oracle_checks += 1;
                        self.fail("panic during render", None, p, None);
                    }
                    Ok(Ok(_)) => self.count(&format!("no-error:{}", fault.label)),
                    Ok(Err(e)) => {
                        let info = inspect(&e);
                        self.count(&format!("render:{}", info.class));
                        if info.span.is_some() {
                            self.check_report_error(p, fault, &info);
                        } else {
                            self.count(&format!("non-report-error:{}", fault.label));
                        }
                    }
                }
            }
        }
    }

    /// lexer / compiler spans of one source
    fn push_source_spans(&mut self, label: &str, src: &str) {
        // raw tokens
        match lex(src, Delimiters::default(), false) {
            Ok(toks) => {
                let Some(spans) = spans_lit(&toks.iter().map(|(_, sp)| sp.clone()).collect::<Vec<_>>()) else { return };
                self.n_token_spans += toks.len();
                for (_, sp) in &toks {
                    self.meta.oracle_checks += 1;
                    if let Some(why) = span_problem(src, sp) {
                        self.meta.oracle_fail(&format!("token span: {why}"), None, json!({"source": src, "label": label, "span": json_span(sp)}));
                    }
                }
                let g = format!("{{| sc_src := {}; sc_spans_lit := {} |}}", hexlit(src.as_bytes()), spans);
                let multi = src.contains('\n') && !src.is_ascii();
                push_capped(self.tokens, &mut self.acc_tokens, g, json!({"label": label, "source": src, "tokens": toks.len()}), multi && toks.len() >= 3, None,
                    &[if src.is_ascii() { "ascii" } else { "non-ascii" }, if src.contains('\n') { "multi-line" } else { "one-line" }]);
            }
            Err(e) => {
                // a lexer error is a syntax error with a span: same oracle, no template set
                let info = inspect(&e);
                if let Some(sp) = &info.span {
                    self.meta.oracle_checks += 1;
                    if let Some(why) = span_problem(src, sp) {
                        self.meta.oracle_fail(&format!("lexer error span: {why}"), None, json!({"source": src, "label": label, "span": json_span(sp), "message": info.message}));
                    }
                    let g = format!("{{| sc_src := {}; sc_spans_lit := {} |}}", hexlit(src.as_bytes()), spans_lit(std::slice::from_ref(sp)).unwrap_or_else(|| "(B 0 0)".into()));
                    push_capped(self.spans, &mut self.acc_spans, g, json!({"label": label, "source": src, "what": "lexer-error", "message": info.message}), !src.is_ascii(), None, &["lexer-error"]);
                }
            }
        }
        // instruction spans (before and after fusion), expression spans
        let mut all: Vec<Span> = Vec::new();
        let mut what = "none";
        if let Ok(ls) = chunk_listings("t", src, Delimiters::default()) {
            what = "instructions";
            // instructions whose error paths `expect` a span must carry one (LoadPath/WritePath:
            // one per path element)
            for cl in &ls {
                for (k, (ins, spans)) in cl.after.iter().enumerate().chain(cl.before.iter().enumerate()) {
                    let need = match ins.op {
                        "LoadPath" | "WritePath" => ins.strs.len(),
                        "LoadName" | "LoadAttr" | "LoadAttrOpt" | "CallFunction" | "ApplyFilter" | "RunTest" | "RenderInlineComponent"
                        | "RenderBodyComponent" | "BinarySubscript" | "BinarySubscriptOpt" | "Slice" | "SliceOpt" | "Not" | "Negative"
                        | "In" | "BuildList" | "BuildListWithSpreads" | "Include" => 1,
                        _ => 0,
                    };
                    // fused paths: element k reports the span of the k-th identifier of the path:
                    // disjoint and in source order
                    if matches!(ins.op, "LoadPath" | "WritePath") {
                        self.meta.oracle_checks += 1;
                        let ordered = spans.windows(2).all(|w| w[0].range.end <= w[1].range.start);
                        if !ordered {
                            self.meta.oracle_fail(&format!("spans of fused instruction {k} ({}) of chunk {} are not in path order", ins.op, cl.id),
                                None, json!({"source": src, "label": label, "spans": spans.iter().map(json_span).collect::<Vec<_>>()}));
                        }
                    }
                    self.meta.oracle_checks += 1;
                    if spans.len() < need {
                        self.meta.oracle_fail(&format!("instruction {k} ({}) of chunk {} carries {} spans, its error paths need {need}", ins.op, cl.id, spans.len()),
                            None, json!({"source": src, "label": label}));
                    }
                }
            }
            for cl in &ls {
                for (_, spans) in cl.before.iter().chain(cl.after.iter()) {
                    for sp in spans {
                        if !all.contains(sp) {
                            all.push(sp.clone());
                        }
                    }
                }
            }
            if let Ok(es) = parse_expr_display(src, Delimiters::default()) {
                for (_, sp) in es {
                    if !all.contains(&sp) {
                        all.push(sp);
                    }
                }
            }
        } else if let Ok(toks) = lex(src, Delimiters::default(), true) {
            what = "filtered-tokens";
            for (_, sp) in toks {
                if !all.contains(&sp) {
                    all.push(sp);
                }
            }
        }
        if all.is_empty() {
            return;
        }
        self.n_other_spans += all.len();
        for sp in &all {
            self.meta.oracle_checks += 1;
            if let Some(why) = span_problem(src, sp) {
                self.meta.oracle_fail(&format!("{what} span: {why}"), None, json!({"source": src, "label": label, "span": json_span(sp)}));
            }
        }
        let Some(lit) = spans_lit(&all) else { return };
        let g = format!("{{| sc_src := {}; sc_spans_lit := {} |}}", hexlit(src.as_bytes()), lit);
        let multi = src.contains('\n') && !src.is_ascii();
        push_capped(self.spans, &mut self.acc_spans, g, json!({"label": label, "source": src, "what": what, "spans": all.len()}), multi && all.len() >= 3, None, &[what]);
    }

    /// raw tokens under a second delimiter set (same bookkeeping, other markers)
    fn push_custom_delims(&mut self, label: &str, src: &str) {
        let alt = src.replace("{{", "<<").replace("}}", ">>").replace("{%", "<%").replace("%}", "%>").replace("{#", "<#").replace("#}", "#>");
        let d = Delimiters {
            block_start: "<%".into(), block_end: "%>".into(), variable_start: "<<".into(), variable_end: ">>".into(),
            comment_start: "<#".into(), comment_end: "#>".into(),
        };
        let Ok(toks) = std::panic::catch_unwind(std::panic::AssertUnwindSafe(|| lex(&alt, d, false))) else {
            self.meta.oracle_checks += 1;
            self.meta.oracle_fail("panic in the lexer", None, json!({"source": alt, "label": label}));
            return;
        };
        let Ok(toks) = toks else { return };
        for (_, sp) in &toks {
            self.meta.oracle_checks += 1;
            if let Some(why) = span_problem(&alt, sp) {
                self.meta.oracle_fail(&format!("token span (custom delimiters): {why}"), None, json!({"source": alt, "label": label, "span": json_span(sp)}));
            }
        }
        let Some(spans) = spans_lit(&toks.iter().map(|(_, sp)| sp.clone()).collect::<Vec<_>>()) else { return };
        let g = format!("{{| sc_src := {}; sc_spans_lit := {} |}}", hexlit(alt.as_bytes()), spans);
        let multi = alt.contains('\n') && !alt.is_ascii();
        push_capped(self.tokens, &mut self.acc_tokens, g, json!({"label": label, "source": alt, "tokens": toks.len(), "delimiters": "<% %> << >> <# #>"}), multi && toks.len() >= 3, None, &["custom-delimiters"]);
    }

    /// a multi-template set of the snapshot corpus: whatever error registration or any render
    /// gives is checked (no expectation about which one)
    fn corpus_set(&mut self, label: &str, set: &[(String, String)], ctx: &Context) {
        let mut tera = Tera::default();
        let tpls: Vec<(&str, &str)> = set.iter().map(|(n, s)| (n.as_str(), s.as_str())).collect();
        let reg = std::panic::catch_unwind(std::panic::AssertUnwindSafe(|| tera.add_raw_templates(tpls)));
        let mut errs = Vec::new();
        match reg {
            Err(_) => {
                self.meta.oracle_checks += 1;
                self.meta.oracle_fail("panic during registration", None, json!({"label": label}));
                return;
            }
            Ok(Err(e)) => errs.push(e),
            Ok(Ok(())) => {
                for (n, _) in set {
                    match std::panic::catch_unwind(std::panic::AssertUnwindSafe(|| tera.render(n, ctx))) {
                        Err(_) => {
                            self.meta.oracle_checks += 1;
                            self.meta.oracle_fail("panic during render", None, json!({"label": label, "template": n}));
                        }
                        Ok(Err(e)) => errs.push(e),
                        Ok(Ok(_)) => {}
                    }
                }
            }
        }
        for e in errs {
            let info = inspect(&e);
            if info.span.is_none() {
                if let Err(m) = &info.display {
                    self.meta.oracle_checks += 1;
                    self.meta.oracle_fail(&format!("(e) Display panicked: {m}"), None, json!({"label": label}));
                }
                continue;
            }
            self.count(&format!("corpus-set:{}", info.class));
            let fake = Fault { label: "corpus", snippet: "", token: ("", 0), class: "any" };
            let p = Plant {
                templates: set.to_vec(),
                entry: String::new(),
                fault_tpl: String::new(),
                token: 0..0,
                stmt: 0..0,
                calls: vec![],
                region: 0..0,
                expect_msg: None,
                generic: true,
                desc: json!({"fault": "corpus", "label": label, "placement": "corpus",
                    "templates": set.iter().map(|(n, s)| json!([n, s])).collect::<Vec<_>>()}),
            };
            self.check_report_error(&p, &fake, &info);
        }
    }

    /// every prefix of `src`: whatever error registration gives is checked; "Unexpected end of
    /// input" additionally against eoi(last token)
    fn prefix_sweep(&mut self, label: &str, src: &str) {
        for cut in 0..src.len() {
            if !src.is_char_boundary(cut) {
                continue;
            }
            let pre = &src[..cut];
            let mut tera = Tera::default();
            let r = std::panic::catch_unwind(std::panic::AssertUnwindSafe(|| tera.add_raw_templates(vec![("p.html", pre)])));
            let e = match r {
                Err(_) => {
                    self.meta.oracle_checks += 1;
                    self.meta.oracle_fail("panic during registration of a prefix", None, json!({"label": label, "source": pre}));
                    continue;
                }
                Ok(Ok(())) => continue,
                Ok(Err(e)) => e,
            };
            let info = inspect(&e);
            let Some(sp) = info.span.clone() else { continue };
            let is_eoi = info.message == "Unexpected end of input";
            self.count(if is_eoi { "prefix:eoi" } else { "prefix:other-syntax" });
            let fake = Fault { label: "prefix", snippet: "", token: ("", 0), class: "syntax" };
            let end = pre.len();
            let p = Plant {
                templates: vec![("p.html".into(), pre.to_string())],
                entry: "p.html".into(),
                fault_tpl: "p.html".into(),
                // the fault is the missing rest: anything from the last tag start to the end
                token: if is_eoi { pre.rfind("{").unwrap_or(0)..end } else { 0..end },
                stmt: 0..end,
                calls: vec![],
                region: 0..end,
                expect_msg: None,
                generic: false,
                desc: json!({"fault": "truncated", "label": label, "source": pre, "cut": cut, "placement": "prefix"}),
            };
            self.check_report_error(&p, &fake, &info);
            if is_eoi {
                if let Ok(toks) = lex(pre, Delimiters::default(), true) {
                    if let Some((_, last)) = toks.last() {
                        let g = format!("{{| eo_cur := {}; eo_impl := {} |}}", gal_span(last), gal_span(&sp));
                        self.eoi.push(g, json!({"label": label, "source": pre, "last_token": json_span(last), "impl": json_span(&sp)}),
                            last.range.end > last.range.start, Some(KF_EOI), &[if pre.is_ascii() { "ascii" } else { "non-ascii" }]);
                    }
                }
            }
        }
    }
}

// ------------------------------------------------------------------ generated lexer sources

fn lex_source(rng: &mut Rng) -> String {
    const TEXT: [&str; 26] = ["abc", "é", "日本語", "😀", "\n", "\r\n", "a\nb", " ", "\t", "} ", "{ ", "% ", "ß", "e\u{301}", "\n\n", "x y",
        "\r", "a\rb", "\n\r", "\r\r\n", "\u{2028}", "\u{85}", "\x0b", "\x0c", "\r\r", "x\u{2028}\ry"];
    const IDENT: [&str; 8] = ["a", "b_c", "loop", "x1", "not", "in", "true", "_"];
    const OPS: [&str; 24] = ["+", "-", "*", "/", "//", "%", "**", "==", "!=", "<", "<=", ">", ">=", "~", "|", ".", "?.", "(", ")", "[", "]", ",", ":", "..."];
    const STRS: [&str; 14] = ["\"s\"", "'é'", "\"日\n本\"", "`x\r\ny`", "\"a\\nb\"", "'😀'", "\"\"", "\"a\\\\\"",
        "\"a\rb\"", "'\r'", "`x\u{2028}y\u{85}`", "\"\x0b\x0c\"", "'\r\r\n'", "\"\n\r\""];
    const WS: [&str; 12] = [" ", "", "\n", "  ", "\r\n\t", " \n ", "\r", " \r ", "\n\r", "\r\r\n", "\x0c", "\r\r"];
    // not whitespace for the lexer: an "Unexpected character" error whose span is checked too
    const BADWS: [&str; 3] = ["\x0b", "\u{2028}", "\u{85}"];
    let mut s = String::new();
    // a line-ending flavour as the very first byte(s)
    if rng.chance(1, 4) {
        s.push_str(rng.pick(&EOLS[..]).1);
    }
    let n = 1 + rng.below(8);
    for _ in 0..n {
        match rng.below(10) {
            0..=2 => {
                for _ in 0..1 + rng.below(3) {
                    s.push_str(*rng.pick(&TEXT[..]));
                }
            }
            3..=5 => {
                let (o, c) = if rng.chance(1, 2) { ("{{", "}}") } else { ("{%", "%}") };
                s.push_str(o);
                if rng.chance(1, 5) {
                    s.push('-');
                }
                for _ in 0..rng.below(7) {
                    s.push_str(*rng.pick(&WS[..]));
                    if rng.chance(1, 40) {
                        s.push_str(*rng.pick(&BADWS[..]));
                    }
                    match rng.below(5) {
                        0 => s.push_str(*rng.pick(&IDENT[..])),
                        1 => s.push_str(*rng.pick(&OPS[..])),
                        2 => s.push_str(*rng.pick(&STRS[..])),
                        3 => s.push_str(&format!("{}", rng.range(0, 3000))),
                        _ => s.push_str(&format!("{}.{}", rng.range(0, 30), rng.range(0, 99))),
                    }
                }
                s.push_str(*rng.pick(&WS[..]));
                if rng.chance(1, 5) {
                    s.push('-');
                }
                if !rng.chance(1, 12) {
                    s.push_str(c);
                }
            }
            6 => {
                s.push_str("{#");
                if rng.chance(1, 4) {
                    s.push('-');
                }
                for _ in 0..rng.below(4) {
                    s.push_str(*rng.pick(&TEXT[..]));
                }
                if !rng.chance(1, 12) {
                    s.push_str(if rng.chance(1, 4) { "-#}" } else { "#}" });
                }
            }
            7 => {
                s.push_str(if rng.chance(1, 3) { "{%- raw -%}" } else { "{% raw %}" });
                for _ in 0..rng.below(4) {
                    s.push_str(*rng.pick(&TEXT[..]));
                    if rng.chance(1, 3) {
                        s.push_str("{{ é }}");
                    }
                }
                if !rng.chance(1, 12) {
                    s.push_str(if rng.chance(1, 3) { "{%- endraw -%}" } else { "{% endraw %}" });
                }
            }
            _ => {
                // a character that is not allowed inside a tag
                s.push_str("{{ a ");
                s.push_str(*rng.pick(&["é", "#", "日", "😀", "$", "\u{301}"][..]));
                s.push_str(" }}");
            }
        }
    }
    // ... and as the very last byte(s) (otherwise the last line has no terminator)
    if rng.chance(1, 4) {
        s.push_str(rng.pick(&EOLS[..]).1);
    }
    s
}

/// the same template with every `\n` replaced by another line-ending flavour
fn with_eol(src: &str, eol: &str) -> String {
    src.replace("\r\n", "\n").replace('\n', eol)
}

/// put non-ASCII text and line breaks into a template that parses: content gets a multi-byte
/// prefix, every "{{ " / "{% " gets a line break after the delimiter
fn decorate(rng: &mut Rng, src: &str) -> String {
    const PRE: [&str; 12] = ["é\n", "日本 ", "😀\r\n", "\n\t", "ß ", "\r", "x\ry ", "\u{2028}", "\x0c\x0b", "\n\r", "\r\r\n", "a\u{85}\r"];
    let mut out = String::new();
    out.push_str(*rng.pick(&PRE[..]));
    let mut rest = src;
    while let Some(p) = rest.find("{{ ").into_iter().chain(rest.find("{% ")).min() {
        out.push_str(&rest[..p + 2]);
        out.push_str(*rng.pick(&["\n ", " ", "\r\n", "\n\n  ", "\r", "\r ", "\r\r\n", "\n\r", "\x0c"][..]));
        rest = &rest[p + 3..];
        if rng.chance(1, 3) {
            // and some text with a multi-byte character after the closing delimiter of this tag
            if let Some(q) = rest.find("}}").into_iter().chain(rest.find("%}")).min() {
                out.push_str(&rest[..q + 2]);
                out.push_str(*rng.pick(&["é", "日\n", "😀", "\r", "x\r", "\u{2028}", "\u{85}\r\n", "\x0b"][..]));
                rest = &rest[q + 2..];
            }
        }
    }
    out.push_str(rest);
    out
}

// ------------------------------------------------------------------ hull cases

/// `{{ <a> OP <b> }}` where both operands are single instructions after fusion: the error span
/// must be expand_span(combine_spans((i,i),(j,j))) over the real span table
fn hull_cases(hull: &mut Sink, meta: &mut Meta, ctx: &Context, thorough: bool) {
    let operands = ["s", "n", "arr", "m.a", "obj.f.g", "m.k", "\"é日\"", "3", "strs", "obj.f", "nope", "none"];
    let ops = ["<", ">=", "+", "*", "-", "/", "%", "**", "//", "<=", ">"];
    let prefixes: Vec<&str> = if thorough { vec!["", "é日 ", "l1\nl2 😀 ", "\r\n\t", "a\rb ", "\r\r\n\u{2028}"] } else { vec!["", "l1\nl2 😀 ", "a\rb "] };
    let brks: Vec<&str> = if thorough { vec![" ", "\n  ", "\r"] } else { vec![" ", "\r"] };
    for pre in prefixes {
        for a in operands {
            for b in operands {
                for op in ops {
                    for brk in brks.iter().copied() {
                        let src = format!("{pre}{{{{ {a}{brk}{op} {b} }}}}");
                        let tera = Tera::default();
                        // (tvh::guarded formats the error outside its catch_unwind: not used here)
                        let r = std::panic::catch_unwind(std::panic::AssertUnwindSafe(|| tera.render_str(&src, ctx, false)));
                        let e = match r {
                            Err(_) => {
                                meta.oracle_checks += 1;
                                meta.oracle_fail("panic during render_str", None, json!({"source": src}));
                                continue;
                            }
                            Ok(Ok(_)) => continue,
                            Ok(Err(e)) => e,
                        };
                        let info = inspect(&e);
                        if info.class != "render" {
                            continue;
                        }
                        if let Err(m) = &info.display {
                            meta.oracle_checks += 1;
                            meta.oracle_fail(&format!("(e) Display panicked: {m}"), None,
                                json!({"source": src, "message": info.message, "span": info.span.as_ref().map(json_span)}));
                        }
                        let Some(sp) = info.span else { continue };
                        let Ok(ls) = chunk_listings("__tera_one_off", &src, Delimiters::default()) else { continue };
                        let Some(main) = ls.iter().find(|c| c.id == "main") else { continue };
                        // main = [WriteText?] A B OP WriteTop
                        let Some(k) = main.after.iter().position(|(i, _)| {
                            matches!(i.op, "LessThan" | "GreaterThanOrEqual" | "Plus" | "Mul" | "Minus" | "Div" | "Mod" | "Power" | "FloorDiv" | "LessThanOrEqual" | "GreaterThan")
                        }) else { continue };
                        if k < 2 {
                            continue;
                        }
                        // which operand range the engine reports: both (comparison, +, overflow),
                        // or one operand (non-number operand, division by zero)
                        let msg = info.message.as_str();
                        let (ra, rb) = if msg.starts_with("Math operations can only") {
                            // first non-number operand
                            let a_is_num = matches!(a, "n" | "3" | "m.a" | "obj.f.g");
                            if a_is_num { ((k - 1, k - 1), (k - 1, k - 1)) } else { ((k - 2, k - 2), (k - 2, k - 2)) }
                        } else if msg.contains("divide by 0") {
                            ((k - 1, k - 1), (k - 1, k - 1))
                        } else if msg.starts_with("Variable `") || msg.starts_with("Field `") {
                            continue;
                        } else {
                            ((k - 2, k - 2), (k - 1, k - 1))
                        };
                        let tbl: Vec<String> = main
                            .after
                            .iter()
                            .map(|(_, spans)| spans_lit(spans).unwrap_or_else(|| "(B 0 0)".into()))
                            .collect();
                        let g = format!(
                            "{{| h_tbl_lit := [{}]; h_a := R {} {}; h_b := R {} {}; h_impl := {} |}}",
                            tbl.join("; "), ra.0, ra.1, rb.0, rb.1, gal_span(&sp)
                        );
                        meta.oracle_checks += 1;
                        if let Some(why) = span_problem(&src, &sp) {
                            meta.oracle_fail(&format!("binary operator error span: {why}"), None, json!({"source": src, "span": json_span(&sp)}));
                        }
                        hull.push(g, json!({"source": src, "message": info.message, "span": json_span(&sp), "op_index": k}),
                            ra != rb, None, &[if ra != rb { "both-operands" } else { "one-operand" }]);
                    }
                }
            }
        }
    }
}

fn main() {
    let args = parse_args();
    if std::env::var("C12_SHOW_PANICS").is_err() {
        silence_panics();
    }
    let thorough = args.tier == "thorough";
    let mut rng = Rng::new(args.seed);
    let mut meta = Meta::default();
    let hdr = "From TeraV Require Import Model.Value Model.Report Corr.CorrC12.";
    let mut tokens = Sink::new(&args.out, "tokens", hdr, "check_tokens");
    let mut spans = Sink::new(&args.out, "spans", hdr, "check_spans");
    let mut report = Sink::new(&args.out, "report", hdr, "check_report");
    let mut eoi = Sink::new(&args.out, "eoi", hdr, "check_eoi");
    let mut hull = Sink::new(&args.out, "hull", hdr, "check_hull");
    let ctx = context();

    if let Some(rp) = &args.replay {
        // re-run the template set of a replay file and print what the engine reports now
        let j: serde_json::Value = serde_json::from_str(&std::fs::read_to_string(rp).expect("replay")).expect("json");
        let case = j.get("case").or_else(|| j.get("input")).unwrap_or(&j);
        if let Some(ts) = case.get("templates").and_then(|t| t.as_array()) {
            let mut tera = Tera::default();
            let tpls: Vec<(String, String)> = ts.iter().map(|p| (p[0].as_str().unwrap().to_string(), p[1].as_str().unwrap().to_string())).collect();
            let r = tera.add_raw_templates(tpls.iter().map(|(a, b)| (a.as_str(), b.as_str())).collect::<Vec<_>>());
            let r = r.and_then(|_| tera.render(case["entry"].as_str().unwrap_or("entry.html"), &ctx));
            match r {
                Ok(s) => println!("renders: {s:?}"),
                Err(e) => {
                    let i = inspect(&e);
                    println!("{} error in `{}` span {:?}\n{}", i.class, i.filename, i.span.as_ref().map(json_span), i.display.unwrap_or_else(|m| format!("PANIC {m}")));
                }
            }
        } else if let Some(src) = case.get("source").and_then(|s| s.as_str()) {
            let mut tera = Tera::default();
            match tera.add_raw_templates(vec![("p.html", src)]).and_then(|_| tera.render("p.html", &ctx)) {
                Ok(s) => println!("renders: {s:?}"),
                Err(e) => {
                    let i = inspect(&e);
                    println!("{} error in `{}` span {:?}\n{}", i.class, i.filename, i.span.as_ref().map(json_span), i.display.unwrap_or_else(|m| format!("PANIC {m}")));
                }
            }
        }
        return;
    }

    let mut run = Run { tokens: &mut tokens, spans: &mut spans, report: &mut report, eoi: &mut eoi, meta: &mut meta,
        seen: Default::default(), oracle_nontrivial: 0, to_coq: true, n_token_spans: 0, n_other_spans: 0, alt_counter: 0, acc_tokens: 0, acc_spans: 0, acc_report: 0 };

    // ---- A. planted faults
    let rf = render_faults();
    let sf = syntax_faults();
    let ff = ref_faults();
    let all_faults: Vec<Fault> = rf.iter().chain(sf.iter()).chain(ff.iter()).cloned().collect();
    // the message each fault gives when planted alone
    let mut baseline: std::collections::HashMap<&'static str, String> = Default::default();
    for fault in &all_faults {
        let p = plant(fault, "top", PREFIXES[0], SUFFIXES[0], WRAPS[0], PREFIXES[0]);
        match tera_err_message(&p, &ctx) {
            Some(m) => {
                baseline.insert(fault.label, norm_msg(&m));
            }
            None => {
                run.count(&format!("baseline-no-error:{}", fault.label));
            }
        }
    }
    let plant_b = |fault: &Fault, pl: &str, pre: (&'static str, &'static str), suf: (&'static str, &'static str), w: (&'static str, &'static str, &'static str), cpre: (&'static str, &'static str)| {
        let mut p = plant(fault, pl, pre, suf, w, cpre);
        p.expect_msg = baseline.get(fault.label).cloned();
        p
    };
    // A1: every fault at every placement, one non-trivial layout (to Coq)
    for fault in &all_faults {
        for pl in PLACEMENTS {
            let p = plant_b(fault, pl, PREFIXES[6], SUFFIXES[2], WRAPS[0], PREFIXES[7]);
            run.run_plant(&p, fault, &ctx);
        }
    }
    // A1b: every fault in a template whose line breaks are lone CRs / other flavours
    for (k, fault) in all_faults.iter().enumerate() {
        for (j, pl) in ["top", "include", "component"].iter().enumerate() {
            if !thorough && j == 2 {
                continue;
            }
            let pre = PREFIXES[13 + (k + j) % 14];
            let suf = SUFFIXES[5 + (k + j) % 6];
            let p = plant_b(fault, pl, pre, suf, WRAPS[0], PREFIXES[13 + (k + j + 5) % 14]);
            run.run_plant(&p, fault, &ctx);
        }
    }
    // A2: every layout x wrap on a few faults and placements (to Coq)
    let few = ["undef-var", "cmp-incomparable", "field-of-undefined", "unexpected-token", "non-ascii-in-tag", "unknown-filter", "filter-invalid-arg", "ml-undef", "cr-before-token"];
    let few_quick = ["undef-var", "cmp-incomparable", "unexpected-token", "unknown-filter", "cr-before-token"];
    for fault in all_faults.iter().filter(|x| if thorough { few.contains(&x.label) } else { few_quick.contains(&x.label) }) {
        for pl in if thorough { vec!["top", "include", "component", "ancestor-block"] } else { vec!["top", "include", "component"] } {
            for pre in PREFIXES {
                for suf in if thorough { vec![SUFFIXES[0], SUFFIXES[3]] } else { vec![SUFFIXES[3]] } {
                    let p = plant_b(fault, pl, pre, suf, WRAPS[0], pre);
                    run.run_plant(&p, fault, &ctx);
                }
            }
            for w in WRAPS {
                let p = plant_b(fault, pl, PREFIXES[3], SUFFIXES[1], w, PREFIXES[5]);
                run.run_plant(&p, fault, &ctx);
            }
        }
    }
    // A3: random combinations (to Coq: a bounded number; oracle only: the rest)
    let n_coq = if thorough { 12000 } else { 300 };
    let n_oracle = if thorough { 150000 } else { 12000 };
    for k in 0..(n_coq + n_oracle) {
        run.to_coq = k < n_coq;
        let fault = rng.pick(&all_faults[..]).clone();
        let pl = *rng.pick(&PLACEMENTS[..]);
        let pre = *rng.pick(&PREFIXES[..]);
        let suf = *rng.pick(&SUFFIXES[..]);
        let w = *rng.pick(&WRAPS[..]);
        let cpre = *rng.pick(&PREFIXES[..]);
        let p = plant_b(&fault, pl, pre, suf, w, cpre);
        run.run_plant(&p, &fault, &ctx);
    }
    run.to_coq = true;

    // ---- A4. large chunks and large offsets (oracle only: the sources are too big for coqc).
    // The VM keeps, per stack value, a range of instruction indices; a Span keeps line, column
    // and byte offsets: both must survive chunks of more than 2^16 / 2^17 instructions and
    // sources of more than 2^16 lines, 2^16 columns and 2^20 bytes.
    run.to_coq = false;
    {
        let big_faults = ["div-zero", "math-on-string", "cmp-incomparable", "undef-var", "filter-invalid-arg", "iter-non-iterable",
            "field-of-undefined", "bad-index-kind", "neg-string", "component-wrong-type", "unexpected-token", "unknown-filter"];
        let faults: Vec<&Fault> = all_faults.iter().filter(|x| big_faults.contains(&x.label)).collect();
        // (a) the first instruction of the planted statement has index t in its chunk:
        // "{{ 1 }}" is 2 instructions, "{{ 1 }}\n" is 3
        let targets: Vec<usize> = if thorough { vec![65534, 65535, 65536, 65537, 65538, 131071, 131072, 131073, 196609] } else { vec![65535, 65536, 131073] };
        let placements = ["top", "ancestor-block", "component", "include", "child-block-super", "include-in-include"];
        let mut n_big = 0usize;
        for (ti, t) in targets.iter().enumerate() {
            let m = match t % 3 { 0 => 0, 2 => 1, _ => 2 };
            let n = (t - 2 * m) / 3;
            let filler = format!("{}{}", "{{ 1 }}".repeat(m), "{{ 1 }}\n".repeat(n));
            let recipe = format!("\"{{{{ 1 }}}}\" x {m} ++ \"{{{{ 1 }}}}\\n\" x {n} (= {t} instructions)");
            for (fi, fault) in faults.iter().enumerate() {
                for (pi, pl) in placements.iter().enumerate() {
                    if !thorough && (pi >= 4 || (fi + pi + ti) % 2 == 1) {
                        continue;
                    }
                    let mut p = plant(fault, pl, ("big-chunk", &filler), SUFFIXES[(fi + pi) % SUFFIXES.len()], WRAPS[0], PREFIXES[5]);
                    p.expect_msg = baseline.get(fault.label).cloned();
                    p.desc["templates"] = json!(p.templates.iter().map(|(n, t)| json!([n, t.replace(&filler, &format!("⟪{recipe}⟫"))])).collect::<Vec<_>>());
                    p.desc["instructions_before_the_fault"] = json!(t);
                    run.run_plant(&p, fault, &ctx);
                    n_big += 1;
                }
            }
        }
        // (b) large line numbers, columns and byte offsets
        let layouts: Vec<(&str, String)> = vec![
            ("70000-lines", "\n".repeat(70000)),
            ("70000-columns", "x".repeat(70000)),
            ("70000-columns-2-byte", format!("l1\n{}", "é".repeat(70000))),
            ("70000-lines-3-byte", "日\n".repeat(70000)),
            ("1.2MB-120000-lines", "日本語\r\n".repeat(110000)),
            ("2^16-boundary", format!("{}\n{}", "a\n".repeat(65534), "b".repeat(65535))),
        ];
        for (li, (name, pre)) in layouts.iter().enumerate() {
            if !thorough && li == 4 {
                continue;
            }
            for (fi, fault) in faults.iter().enumerate() {
                for (pi, pl) in ["top", "include", "component"].iter().enumerate() {
                    if !thorough && (fi + pi + li) % 3 != 0 {
                        continue;
                    }
                    let mut p = plant(fault, pl, (name, pre), SUFFIXES[(fi + li) % SUFFIXES.len()], WRAPS[0], PREFIXES[6]);
                    p.expect_msg = baseline.get(fault.label).cloned();
                    p.desc["templates"] = json!(p.templates.iter().map(|(n, t)| json!([n, t.replace(pre.as_str(), &format!("⟪layout {name}: {} bytes⟫", pre.len()))])).collect::<Vec<_>>());
                    run.run_plant(&p, fault, &ctx);
                    n_big += 1;
                }
            }
            // the token stream of such a source: the last tokens carry the large numbers
            let src = format!("{pre}{{{{ a.b }}}} é {{% if x %}}");
            if let Ok(toks) = lex(&src, Delimiters::default(), false) {
                for (_, sp) in toks.iter().rev().take(8) {
                    run.meta.oracle_checks += 1;
                    if let Some(why) = span_problem(&src, sp) {
                        run.meta.oracle_fail(&format!("token span: {why}"), None, json!({"source": format!("layout `{name}` ++ \"{{{{ a.b }}}} é {{% if x %}}\""), "span": json_span(sp)}));
                    }
                }
            }
        }
        run.count(&format!("large-plants:{n_big}"));
    }
    run.to_coq = true;

    // ---- B. truncation sweeps: every prefix of small templates
    let sweep = [
        "{{ 1 + 2 }}",
        "a{% if x %}b{{ y | upper }}{% else %}c{% endif %}d",
        "é{{ \"日\n本\" ~ x.y[0] }}😀{% for k, v in m %}{{ k }}{% endfor %}",
        "l1\r\n{% set a = [1, 2, {\"k\": v}] %}\r\n{{ a[1:] | length }}",
        "{% block b %}{{ super() }}{% endblock b %}{# c #}{% raw %}r{% endraw %}",
        "{{ <card title=\"x\"/> }}{% <box> %}é{% </box> %}",
        "{% component c(a: string = \"d\") %}{{ a }}{% endcomponent c %}",
        "{% include \"x\" %}{% extends \"y\" %}",
        "{{ a is defined and not b or c in d }}\n{{ x ? . y ?[ 0 ] }}",
        "{%- filter upper -%}\n\té{{- 1.5 // 2 ** 3 -}}\n{%- endfilter -%}",
        "a\r{{ 1 | upper }}\r{% if x\r%}\rb{% endif %}\r",
        "\r\r\n{{ \"x\ry\" }}\u{2028}{# c\r #}\x0c{% raw %}\r{% endraw %}\n\r{{ a\x0c+\rb }}",
    ];
    for (i, s) in sweep.iter().enumerate() {
        if !thorough && (6..10).contains(&i) {
            // the remaining sweeps: oracle only in the quick tier
            run.to_coq = false;
        }
        run.prefix_sweep(&format!("sweep#{i}"), s);
    }
    run.to_coq = true;

    // ---- C. token / instruction spans: corpus, decorated corpus, generated
    let corpus = corpus::corpus_templates();
    let corpus_budget = if thorough { corpus.len() } else { 110 };
    let step = (corpus.len() / corpus_budget.max(1)).max(1);
    for (i, (label, src)) in corpus.iter().enumerate() {
        if src.len() > (if thorough { 1500 } else { 500 }) {
            continue;
        }
        if thorough || i % step == 0 {
            run.push_source_spans(label, src);
        }
        if thorough || i % (step * 2) == 0 {
            let d = decorate(&mut rng, src);
            run.push_source_spans(&format!("{label}+decorated"), &d);
        }
        if src.contains('\n') && (thorough || i % (step * 2) == step) {
            let (en, e) = EOLS[1 + (i / step) % (EOLS.len() - 1)];
            run.push_source_spans(&format!("{label}+eol:{en}"), &with_eol(src, e));
        }
    }
    let n_lex = if thorough { 8000 } else { 320 };
    for k in 0..n_lex {
        let s = lex_source(&mut rng);
        run.push_source_spans(&format!("lexgen#{k}"), &s);
        if k % 5 == 0 {
            run.push_custom_delims(&format!("lexgen#{k}+delims"), &s);
        }
    }
    // ---- C2. the corpus as template sets and as single templates: every error they give
    for (label, set) in corpus::corpus_sets() {
        run.corpus_set(&label, &set, &ctx);
    }
    for (i, (label, src)) in corpus.iter().enumerate() {
        if src.len() <= 1500 && (thorough || i % 2 == 0) {
            run.corpus_set(label, &[("t.html".to_string(), src.clone())], &ctx);
        }
        if src.len() <= 1500 && src.contains('\n') && (thorough || i % 4 == 1) {
            let (en, e) = EOLS[1 + i % (EOLS.len() - 1)];
            run.corpus_set(&format!("{label}+eol:{en}"), &[("t.html".to_string(), with_eol(src, e))], &ctx);
        }
    }
    let n_tpl = if thorough { 3000 } else { 160 };
    for k in 0..n_tpl {
        let t = gen_tpl::template(&mut rng, 1 + (k % 3) as u32);
        let d = decorate(&mut rng, &t);
        run.push_source_spans(&format!("gen#{k}+decorated"), &d);
    }
    // the plant templates themselves (multi-byte, multi-line, components, blocks)
    for (k, fault) in rf.iter().enumerate() {
        let p = plant(fault, PLACEMENTS[k % PLACEMENTS.len()], PREFIXES[k % PREFIXES.len()], SUFFIXES[k % SUFFIXES.len()], WRAPS[k % WRAPS.len()], PREFIXES[(k + 3) % PREFIXES.len()]);
        for (n, s) in &p.templates {
            run.push_source_spans(&format!("plant#{k}:{n}"), s);
        }
    }

    let seen = run.seen.clone();
    let oracle_nontrivial = run.oracle_nontrivial;
    let (n_token_spans, n_other_spans) = (run.n_token_spans, run.n_other_spans);
    drop(run);

    // ---- D. binary operators: expand_span / combine_spans against the real span table
    hull_cases(&mut hull, &mut meta, &ctx, thorough);

    let oracle_only = meta.oracle_checks;
    meta.extra.insert("errors_by_stage_and_class".into(), json!(seen));
    meta.extra.insert("oracle_only_evaluations".into(), json!(oracle_only));
    meta.extra.insert("oracle_only_nontrivial".into(), json!(oracle_nontrivial));
    meta.extra.insert("token_spans_checked".into(), json!(n_token_spans));
    meta.extra.insert("instruction_and_expression_spans_checked".into(), json!(n_other_spans));
    meta.extra.insert("fault_kinds".into(), json!({"render": rf.len(), "syntax": sf.len(), "reference": ff.len()}));
    meta.extra.insert("placements".into(), json!(PLACEMENTS));
    meta.extra.insert("line_ending_flavours".into(), json!(EOLS.iter().map(|p| p.0).collect::<Vec<_>>()));
    meta.extra.insert("layouts".into(), json!({"prefixes": PREFIXES.iter().map(|p| p.0).collect::<Vec<_>>(),
        "suffixes": SUFFIXES.iter().map(|p| p.0).collect::<Vec<_>>(), "wraps": WRAPS.iter().map(|p| p.0).collect::<Vec<_>>()}));
    meta.families.push(tokens.finish());
    meta.families.push(spans.finish());
    meta.families.push(report.finish());
    meta.families.push(eoi.finish());
    meta.families.push(hull.finish());
    meta.write(&args.out);
}
