//! C11 — cyclic or dangling template graphs are rejected; accepted graphs render finitely.
//! Families:
//!   graph : a set of real template sources built from a digraph of extends/include edges
//!           (include edges placed in the body, in a block, in a component body), with or
//!           without fallback prefixes: accept/reject + ErrorKind  vs  Model.Registry.add_batch
//!   render: every template of every accepted set rendered in a CHILD PROCESS (bounded stack,
//!           time limit): text / error value / abort  vs  Model.Registry.render
//! Oracle (regardless of the model): no render of an accepted set aborts or times out.
#[path = "../regdesc.rs"]
mod regdesc;

use regdesc::*;
use serde_json::json;
use std::time::Duration;
use tvh::*;

#[derive(Clone, Debug, Default)]
struct Node {
    name: String,
    extends: Option<String>,
    inc_body: Vec<String>,
    inc_block: Vec<String>,
    inc_comp: Vec<String>,
    /// block y calls super()
    sup: bool,
    /// the includes of the block sit in a block z nested in y
    nested: bool,
    /// no block at all (plain template)
    plain: bool,
}

fn build(idx: usize, n: &Node) -> Tpl {
    let base = (idx as u32) * 10;
    let mut body = vec![Item::Text(base)];
    for t in &n.inc_body {
        body.push(Item::Include(t.clone()));
    }
    if !n.plain {
        let mut blk = vec![Item::Text(base + 1)];
        if n.sup {
            blk.push(Item::Super);
        }
        let incs: Vec<Item> = n.inc_block.iter().map(|t| Item::Include(t.clone())).collect();
        if n.nested {
            let mut inner = vec![Item::Text(base + 3)];
            inner.extend(incs);
            blk.push(Item::Block("z".into(), inner));
        } else {
            blk.extend(incs);
        }
        body.push(Item::Block("y".into(), blk));
    }
    let mut t = Tpl::new(n.extends.as_deref(), body);
    if !n.inc_comp.is_empty() {
        let cname = format!("c{idx}");
        t.body.push(Item::Call(cname.clone()));
        let mut cb = vec![Item::Text(base + 2)];
        for x in &n.inc_comp {
            cb.push(Item::Include(x.clone()));
        }
        t = t.with_comp(&cname, cb);
    }
    t.body.push(Item::Text(base + 9));
    t
}

struct Run {
    graph: Sink,
    render: Sink,
    hist: Sink,
    hrender: Sink,
    histories: usize,
    short_name_checks: usize,
    meta: Meta,
    limit: Duration,
    accepted: usize,
    rejected: usize,
    renders: usize,
    aborted: usize,
}

impl Run {
    fn case(&mut self, prefixes: &[String], set: &[(String, Tpl)], tags: &[&str], kf: Option<&str>) {
        self.case_more(prefixes, set, &[], tags, kf)
    }

    /// `more`: further names handed to render() (short names that resolve through a prefix)
    /// Registration itself is first tried in a child process when fallback prefixes are in play
    /// (resolution is then part of both walks): a registration that does not return is reported
    /// with its input instead of taking the harness down.  true = it returned.
    fn preflight(&mut self, prefixes: &[String], batches: &[Vec<(String, String)>], input: serde_json::Value) -> bool {
        // the parent walk is the one place where resolution decides whether a recursion ends
        if prefixes.is_empty() || !batches.iter().flatten().any(|(_, s)| s.contains("{% extends")) {
            return true;
        }
        let job = json!({"prefixes": prefixes, "strict": false, "names": [], "start": 0,
            "calls": batches.iter().map(|b| json!(b.iter().map(|(n, s)| json!([n, s])).collect::<Vec<_>>())).collect::<Vec<_>>()});
        let (_, bad) = run_child_with("render-child", &job, self.limit);
        self.meta.oracle_checks += 1;
        match bad {
            None => true,
            Some(how) => {
                self.aborted += 1;
                self.meta.oracle_fail(&format!("add_raw_templates did not return ({how}): registration must end with Ok or an error value"), None, input);
                false
            }
        }
    }

    fn case_more(&mut self, prefixes: &[String], set: &[(String, Tpl)], more: &[String], tags: &[&str], kf: Option<&str>) {
        let srcs: Vec<(String, String)> = set.iter().map(|(n, t)| (n.clone(), source_of(t))).collect();
        if !self.preflight(prefixes, &[srcs.clone()], json!({"prefixes": prefixes, "templates": json_set(set)})) {
            return;
        }
        let mut tera = new_tera(prefixes);
        let r = add_all(&mut tera, &srcs);
        let impl_g = match &r {
            Ok(()) => "(Ok tt)".to_string(),
            Err(c) => format!("(Err {})", gal_ekind(c)),
        };
        let pre_g = gal_names(prefixes);
        let set_g = gal_set(set);
        let g = format!("{{| g_pre := {pre_g}; g_set := {set_g}; g_impl := {impl_g} |}}");
        let edges = srcs.iter().filter(|(_, s)| s.contains("include") || s.contains("extends")).count();
        let desc = json!({"prefixes": prefixes, "templates": json_set(set),
            "impl": match &r { Ok(()) => json!("accepted"), Err(c) => json!({"rejected": c}) }});
        let cls = match &r {
            Ok(()) => "impl:accepted".to_string(),
            Err(c) => format!("impl:{c}"),
        };
        let mut tg: Vec<&str> = tags.to_vec();
        tg.push(&cls);
        self.meta.oracle_checks += 1;
        if let Err(c) = &r {
            if c == "panic" {
                self.meta.oracle_fail("registration panicked", None, desc.clone());
            }
        }
        let before = self.graph.count;
        self.graph.push(g, desc.clone(), set.len() >= 2 && edges >= 1, kf, &tg);
        if self.graph.count == before {
            return; // duplicate set
        }
        if r.is_ok() {
            self.accepted += 1;
            // entries: every registered name, every extra short name, then for each short name s
            // and the name r the documented rule resolves it to (exact, then the prefixes in
            // order): render_block(s, y), render_block(r, y)
            let reg: Vec<String> = srcs.iter().map(|(n, _)| n.clone()).collect();
            let mut entries: Vec<String> = reg.clone();
            entries.extend(more.iter().cloned());
            let n_model = entries.len();
            let resolved: Vec<Option<String>> = more.iter().map(|m| spec_resolve(prefixes, &reg, m)).collect();
            for (m, r) in more.iter().zip(resolved.iter()) {
                if let Some(r) = r {
                    entries.push(format!("{m}#y"));
                    entries.push(format!("{r}#y"));
                }
            }
            let all = render_entries_in_child(prefixes, &[srcs.clone()], true, &entries, self.limit);
            // implementation-side oracle for the documented resolution rule
            {
                let mut k = n_model;
                for (i, (m, r)) in more.iter().zip(resolved.iter()).enumerate() {
                    if let Some(r) = r {
                        self.short_name_checks += 1;
                        self.meta.oracle_checks += 1;
                        let by_short = &all[reg.len() + i];
                        let by_full = &all[reg.iter().position(|x| x == r).unwrap()];
                        if by_short != by_full || all[k] != all[k + 1] {
                            self.meta.oracle_fail(
                                &format!("render/render_block of the short name \"{m}\" is not that of \"{r}\" (exact name first, then the prefixes {prefixes:?} in order): render {:?} vs {:?}; render_block y {:?} vs {:?}", by_short, by_full, all[k], all[k + 1]),
                                kf,
                                json!({"prefixes": prefixes, "templates": json_set(set)}),
                            );
                        }
                        k += 2;
                    }
                }
            }
            let outs: Vec<ROut> = all[..n_model].to_vec();
            self.renders += all.len();
            let og: Vec<String> = outs.iter().map(|o| o.gal()).collect();
            let rg = format!("{{| r_pre := {pre_g}; r_set := {set_g}; r_more := {}; r_impl := [{}] |}}", gal_names(more), og.join("; "));
            let rdesc = json!({"prefixes": prefixes, "templates": json_set(set),
                "renders": outs.iter().zip(entries.iter()).map(|(o, n)| json!([n, o.json()])).collect::<Vec<_>>()});
            for (o, n) in all.iter().zip(entries.iter()) {
                self.meta.oracle_checks += 1;
                if o.is_bad() {
                    self.aborted += 1;
                    self.meta.oracle_fail(
                        &format!("render(\"{n}\") of an ACCEPTED set did not end with text or an error value: {:?}", o),
                        kf,
                        rdesc.clone(),
                    );
                }
            }
            let any_err = outs.iter().any(|o| matches!(o, ROut::Err(_)));
            let rt = if outs.iter().any(|o| o.is_bad()) { "render:abort" } else if any_err { "render:error-value" } else { "render:text" };
            let mut tg2: Vec<&str> = tags.to_vec();
            tg2.push(rt);
            self.render.push(rg, rdesc, set.len() >= 2 && edges >= 1, kf, &tg2);
        } else {
            self.rejected += 1;
        }
    }
}

impl Run {
    /// A multi-call history on ONE long-lived instance: `pool` holds the (name, template)
    /// descriptors, `calls` the batches as indices into it.  After every call accept/reject +
    /// ErrorKind is recorded (vs Model.Registry.run); after every ACCEPTED call every current
    /// template is rendered on a replayed instance in a child process (termination oracle), and
    /// the renders after the last call are compared with the model.
    fn history(&mut self, prefixes: &[String], pool: &[(String, Tpl)], calls: &[Vec<usize>], tags: &[&str]) {
        let srcs: Vec<(String, String)> = pool.iter().map(|(n, t)| (n.clone(), source_of(t))).collect();
        {
            let all: Vec<Vec<(String, String)>> = calls.iter().map(|idx| idx.iter().map(|i| srcs[*i].clone()).collect()).collect();
            let input = json!({"prefixes": prefixes, "calls": all.iter().map(|b| json!({"add": b.iter().map(|(n, s)| json!([n, s])).collect::<Vec<_>>()})).collect::<Vec<_>>()});
            if !self.preflight(prefixes, &all, input) {
                return;
            }
        }
        let mut tera = new_tera(prefixes);
        let mut results: Vec<String> = vec![];
        let mut jcalls = vec![];
        let mut batches: Vec<Vec<(String, String)>> = vec![];
        let mut names: std::collections::BTreeSet<String> = Default::default();
        let mut last_outs: Vec<ROut> = vec![];
        let mut any_ok = false;
        let mut any_err = false;
        let mut stale = false;
        self.histories += 1;
        for (ci, idx) in calls.iter().enumerate() {
            let batch: Vec<(String, String)> = idx.iter().map(|i| srcs[*i].clone()).collect();
            let r = add_all(&mut tera, &batch);
            batches.push(batch.clone());
            jcalls.push(json!({"add": batch.iter().map(|(n, s)| json!([n, s])).collect::<Vec<_>>(),
                "impl": match &r { Ok(()) => json!("ok"), Err(c) => json!({"err": c}) }}));
            self.meta.oracle_checks += 1;
            match &r {
                Ok(()) => {
                    any_ok = true;
                    results.push("(Ok tt)".into());
                    for (n, _) in &batch {
                        names.insert(n.clone());
                    }
                    // the first call is a plain one-batch registration (covered by the `graph`
                    // family): render after every later accepted call, and after the last one
                    if ci == 0 && calls.len() > 1 {
                        stale = true;
                        continue;
                    }
                    stale = false;
                    let entries: Vec<String> = names.iter().cloned().collect();
                    let outs = render_entries_in_child(prefixes, &batches, false, &entries, self.limit);
                    self.renders += outs.len();
                    for (o, n) in outs.iter().zip(entries.iter()) {
                        self.meta.oracle_checks += 1;
                        if o.is_bad() {
                            self.aborted += 1;
                            self.meta.oracle_fail(
                                &format!("after the ACCEPTED call {ci} render(\"{n}\") did not end with text or an error value: {:?}", o),
                                None,
                                json!({"prefixes": prefixes, "calls": jcalls}),
                            );
                        }
                    }
                    last_outs = outs;
                }
                Err(c) => {
                    any_err = true;
                    if c == "panic" {
                        self.meta.oracle_fail("registration panicked", None, json!({"prefixes": prefixes, "calls": jcalls}));
                    }
                    results.push(format!("(Err {})", gal_ekind(c)));
                }
            }
        }
        if stale {
            // only the first call was accepted: the state to render is still that one
            let entries: Vec<String> = names.iter().cloned().collect();
            let outs = render_entries_in_child(prefixes, &batches, false, &entries, self.limit);
            self.renders += outs.len();
            for (o, n) in outs.iter().zip(entries.iter()) {
                self.meta.oracle_checks += 1;
                if o.is_bad() {
                    self.aborted += 1;
                    self.meta.oracle_fail(
                        &format!("at the end of the history render(\"{n}\") did not end with text or an error value: {:?}", o),
                        None,
                        json!({"prefixes": prefixes, "calls": jcalls}),
                    );
                }
            }
            last_outs = outs;
        }
        let pool_g: Vec<String> = pool.iter().map(|(n, t)| format!("({}, {})", gal_name(n), gal_source(t))).collect();
        let calls_g: Vec<String> = calls
            .iter()
            .map(|idx| format!("HAdd [{}]%nat", idx.iter().map(|i| i.to_string()).collect::<Vec<_>>().join(";")))
            .collect();
        let hg = format!(
            "{{| h_pre := {}; h_known := []; h_sufs := []; h_pool := [{}]; h_calls := [{}]; h_impl := [{}] |}}",
            gal_names(prefixes),
            pool_g.join("; "),
            calls_g.join("; "),
            results.join("; ")
        );
        let desc = json!({"prefixes": prefixes, "calls": jcalls});
        let t2 = if any_err && any_ok { "mixed ok/err" } else if any_err { "only err" } else { "only ok" };
        let mut tg: Vec<&str> = tags.to_vec();
        tg.push(t2);
        let before = self.hist.count;
        self.hist.push(hg.clone(), desc.clone(), calls.len() >= 2 && any_ok, None, &tg);
        if self.hist.count == before || !any_ok {
            return;
        }
        // renders after the last call (the state is that of the last accepted call)
        let entries: Vec<String> = names.iter().cloned().collect();
        let og: Vec<String> = last_outs.iter().map(|o| o.gal()).collect();
        let rg = format!("{{| hr_hist := {hg}; hr_names := {}; hr_impl := [{}] |}}", gal_names(&entries), og.join("; "));
        let rdesc = json!({"prefixes": prefixes, "calls": jcalls,
            "renders": last_outs.iter().zip(entries.iter()).map(|(o, n)| json!([n, o.json()])).collect::<Vec<_>>()});
        self.hrender.push(rg, rdesc, calls.len() >= 2, None, tags);
    }

    /// Registers `set` in stages: the templates in `later` come in a second call; with
    /// `placeholder` they are first registered as plain text leaves (so the second call REPLACES
    /// them), otherwise they are simply absent from the first call.
    fn staged(&mut self, prefixes: &[String], set: &[(String, Tpl)], later: &[usize], placeholder: bool, tags: &[&str]) {
        let n = set.len();
        let mut pool: Vec<(String, Tpl)> = set.to_vec();
        for (i, (name, _)) in set.iter().enumerate() {
            pool.push((name.clone(), Tpl::new(None, vec![Item::Text(900 + i as u32)])));
        }
        let mut first: Vec<usize> = vec![];
        for i in 0..n {
            if later.contains(&i) {
                if placeholder {
                    first.push(n + i);
                }
            } else {
                first.push(i);
            }
        }
        let mut calls = vec![];
        if !first.is_empty() {
            calls.push(first);
        }
        calls.push(later.to_vec());
        self.history(prefixes, &pool, &calls, tags);
    }
}

/// the documented rule: the exact name, then each prefix in order
fn spec_resolve(prefixes: &[String], names: &[String], n: &str) -> Option<String> {
    if names.iter().any(|x| x == n) {
        return Some(n.to_string());
    }
    for p in prefixes {
        let c = format!("{p}{n}");
        if names.iter().any(|x| *x == c) {
            return Some(c);
        }
    }
    None
}

fn has_include(t: &Tpl) -> bool {
    source_of(t).contains("{% include")
}

/// Short names living under several prefixes and/or exactly.  `m` refers to "a" in the way
/// `kind` says (0 extends, 1 include in body, 2 in block, 3 in a component body); the copies of
/// "a" present are the bits of `copies` over [a, p/a, q/a]; digit i of `beh` (base 3) says what
/// copy i does: 0 leaf, 1 includes m, 2 extends m.
fn shadow_set(copies: u8, beh: u32, kind: u8) -> Vec<(String, Tpl)> {
    let mut set = vec![];
    let mut m = Node { name: "m".into(), ..Default::default() };
    match kind {
        0 => {
            m.extends = Some("a".into());
            m.sup = true;
        }
        1 => m.inc_body.push("a".into()),
        2 => m.inc_block.push("a".into()),
        _ => m.inc_comp.push("a".into()),
    }
    set.push(("m".to_string(), build(0, &m)));
    let mut b = beh;
    for (i, nm) in ["a", "p/a", "q/a"].iter().enumerate() {
        if copies >> i & 1 == 0 {
            continue;
        }
        let d = b % 3;
        b /= 3;
        let mut node = Node { name: nm.to_string(), ..Default::default() };
        match d {
            1 => node.inc_body.push("m".into()),
            2 => {
                node.extends = Some("m".into());
                node.sup = true;
            }
            _ => {}
        }
        set.push((nm.to_string(), build(i + 1, &node)));
    }
    set
}

/// 2-3 fallback prefixes, short names a/b/c present under several prefixes and/or exactly,
/// referenced by their short names through extends and every include placement
fn multi_prefix_set(rng: &mut Rng) -> (Vec<String>, Vec<(String, Tpl)>, Vec<String>) {
    let configs: [&[&str]; 6] = [&["p/", "q/"], &["q/", "p/"], &["p/", "q/", "r/"], &["r/", "q/", "p/"], &["q/", "r/"], &["p/", "p/q/"]];
    let prefixes: Vec<String> = rng.pick(&configs).iter().map(|s| s.to_string()).collect();
    let shorts = ["a", "b", "c"];
    let locs = ["", "p/", "q/", "r/", "p/q/"];
    let mut names: Vec<String> = vec![];
    for sh in shorts {
        // mostly several prefixed copies and no exact one
        for (li, l) in locs.iter().enumerate() {
            let p = if li == 0 { (1, 4) } else if li <= 2 { (3, 5) } else { (1, 4) };
            if rng.chance(p.0, p.1) {
                names.push(format!("{l}{sh}"));
            }
        }
    }
    if names.is_empty() {
        names.push("p/a".into());
    }
    let mut set = vec![];
    for (i, nm) in names.iter().enumerate() {
        let mut node = Node { name: nm.clone(), ..Default::default() };
        if rng.chance(1, 4) {
            node.extends = Some(rng.pick(&shorts).to_string());
            node.sup = rng.chance(1, 2);
        }
        if rng.chance(1, 2) {
            let tgt = rng.pick(&shorts).to_string();
            match rng.below(3) {
                0 => node.inc_body.push(tgt),
                1 => node.inc_block.push(tgt),
                _ => node.inc_comp.push(tgt),
            }
        }
        set.push((nm.clone(), build(i, &node)));
    }
    let more: Vec<String> = shorts.iter().map(|s| s.to_string()).filter(|s| !names.contains(s) && spec_resolve(&prefixes, &names, s).is_some()).collect();
    (prefixes, set, more)
}

const NAMES: [&str; 4] = ["a", "b", "c", "d"];

/// every edge of the digraph `mask` (bit i*n+j = edge i -> j) has kind `kind`:
/// 0 extends, 1 include in body, 2 include in block, 3 include in component body
fn uniform_set(n: usize, mask: u32, kind: u8, sup: bool) -> Option<Vec<(String, Tpl)>> {
    let mut set = vec![];
    for i in 0..n {
        let mut node = Node { name: NAMES[i].to_string(), ..Default::default() };
        let targets: Vec<String> = (0..n).filter(|j| mask >> (i * n + j) & 1 == 1).map(|j| NAMES[j].to_string()).collect();
        match kind {
            0 => {
                if targets.len() > 1 {
                    return None;
                }
                node.extends = targets.first().cloned();
                node.sup = sup && node.extends.is_some();
            }
            1 => node.inc_body = targets,
            2 => node.inc_block = targets,
            _ => node.inc_comp = targets,
        }
        set.push((node.name.clone(), build(i, &node)));
    }
    Some(set)
}

/// extends function (digit i of `ext` in base n+2: 0 none, 1..=n target, n+1 a missing name)
/// + include digraph `mask` of uniform kind 1..=3; children call super() in y
fn mixed_set(n: usize, ext: u32, mask: u32, kind: u8, nested: bool) -> Vec<(String, Tpl)> {
    let mut set = vec![];
    let mut e = ext;
    for i in 0..n {
        let d = (e % (n as u32 + 2)) as usize;
        e /= n as u32 + 2;
        let mut node = Node { name: NAMES[i].to_string(), ..Default::default() };
        node.extends = match d {
            0 => None,
            x if x <= n => Some(NAMES[x - 1].to_string()),
            _ => Some("nope".to_string()),
        };
        node.sup = node.extends.is_some();
        node.nested = nested;
        let targets: Vec<String> = (0..n).filter(|j| mask >> (i * n + j) & 1 == 1).map(|j| NAMES[j].to_string()).collect();
        match kind {
            1 => node.inc_body = targets,
            2 => node.inc_block = targets,
            _ => node.inc_comp = targets,
        }
        set.push((node.name.clone(), build(i, &node)));
    }
    set
}

fn random_set(rng: &mut Rng, n: usize) -> Vec<(String, Tpl)> {
    let names: Vec<String> = (0..n).map(|i| format!("t{i:02}")).collect();
    let mut set = vec![];
    let noisy = rng.chance(1, 3);
    for i in 0..n {
        let mut node = Node { name: names[i].clone(), ..Default::default() };
        // mostly a forest towards smaller indices, sometimes anything
        if i > 0 && rng.chance(1, 2) {
            node.extends = Some(names[rng.below(i)].clone());
        } else if noisy && rng.chance(1, 8) {
            node.extends = Some(if rng.chance(1, 4) { "missing".to_string() } else { names[rng.below(n)].clone() });
        }
        node.sup = node.extends.is_some() && rng.chance(3, 4);
        node.nested = rng.chance(1, 4);
        node.plain = node.extends.is_none() && rng.chance(1, 6);
        // includes mostly towards larger indices (a DAG), sometimes anything
        let k = rng.below(3);
        for _ in 0..k {
            let tgt = if i + 1 < n && !(noisy && rng.chance(1, 6)) {
                names[i + 1 + rng.below(n - i - 1)].clone()
            } else if noisy {
                if rng.chance(1, 6) { "missing".to_string() } else { names[rng.below(n)].clone() }
            } else {
                continue;
            };
            match rng.below(3) {
                0 => node.inc_body.push(tgt),
                1 if !node.plain => node.inc_block.push(tgt),
                _ => node.inc_comp.push(tgt),
            }
        }
        set.push((node.name.clone(), build(i, &node)));
    }
    // registration order must not matter: shuffle
    for i in (1..set.len()).rev() {
        let j = rng.below(i + 1);
        set.swap(i, j);
    }
    set
}

fn prefix_set(rng: &mut Rng) -> (Vec<String>, Vec<(String, Tpl)>) {
    let configs: [&[&str]; 5] = [&["p/"], &["p/", "q/"], &["q/", "p/"], &["p/", "p/q/"], &[]];
    let prefixes: Vec<String> = rng.pick(&configs).iter().map(|s| s.to_string()).collect();
    let pool = ["a", "b", "c", "p/a", "q/a", "p/b", "q/b", "p/q/a", "p/c", "q/c"];
    let refs = ["a", "b", "c", "p/a", "q/a", "q/b", "x"];
    let n = 2 + rng.below(4);
    let mut chosen: Vec<&str> = vec![];
    while chosen.len() < n {
        let c = *rng.pick(&pool);
        if !chosen.contains(&c) {
            chosen.push(c);
        }
    }
    let mut set = vec![];
    for (i, nm) in chosen.iter().enumerate() {
        let mut node = Node { name: nm.to_string(), ..Default::default() };
        if rng.chance(1, 2) {
            node.extends = Some(rng.pick(&refs).to_string());
            node.sup = rng.chance(1, 2);
        }
        if rng.chance(1, 2) {
            let tgt = rng.pick(&refs).to_string();
            match rng.below(3) {
                0 => node.inc_body.push(tgt),
                1 => node.inc_block.push(tgt),
                _ => node.inc_comp.push(tgt),
            }
        }
        set.push((node.name.clone(), build(i, &node)));
    }
    (prefixes, set)
}

/// D13 shapes: chains of 2..3 templates over blocks a, b with every nesting orientation and
/// super() placement; no include at all
fn nest_sets() -> Vec<(Vec<(String, Tpl)>, bool)> {
    // orientation: 0 a{b}, 1 b{a}, 2 a b, 3 a, 4 b
    fn level(idx: usize, ext: Option<&str>, orient: u8, sa: bool, sb: bool) -> Tpl {
        let base = idx as u32 * 10;
        let sup = |on: bool| if on { vec![Item::Super] } else { vec![] };
        let a_in = |extra: Vec<Item>| {
            let mut v = vec![Item::Text(base + 1)];
            v.extend(sup(sa));
            v.extend(extra);
            Item::Block("a".into(), v)
        };
        let b_in = |extra: Vec<Item>| {
            let mut v = vec![Item::Text(base + 2)];
            v.extend(sup(sb));
            v.extend(extra);
            Item::Block("b".into(), v)
        };
        let body = match orient {
            0 => vec![a_in(vec![b_in(vec![])])],
            1 => vec![b_in(vec![a_in(vec![])])],
            2 => vec![a_in(vec![]), b_in(vec![])],
            3 => vec![a_in(vec![])],
            _ => vec![b_in(vec![])],
        };
        Tpl::new(ext, body)
    }
    let mut out = vec![];
    for o0 in 0..3u8 {
        for o1 in 0..5u8 {
            for s in 0..4u8 {
                let set = vec![
                    ("base".to_string(), level(0, None, o0, false, false)),
                    ("kid".to_string(), level(1, Some("base"), o1, s & 1 == 1, s & 2 == 2)),
                ];
                out.push((set, false));
                for o2 in 0..5u8 {
                    for s2 in 0..4u8 {
                        let set = vec![
                            ("base".to_string(), level(0, None, o0, false, false)),
                            ("kid".to_string(), level(1, Some("base"), o1, s & 1 == 1, s & 2 == 2)),
                            ("leaf".to_string(), level(2, Some("kid"), o2, s2 & 1 == 1, s2 & 2 == 2)),
                        ];
                        out.push((set, true));
                    }
                }
            }
        }
    }
    out
}

/// Long rings and chains (the walks must not give up with depth): `shape`
///   0 include ring (body)      1 include chain (body)       2 include ring with a tail of 5
///   3 include ring (in block)  4 ring alternating include / extends
///   5 chain alternating include / extends                   6 extends chain with super()
///   7 extends ring             8 include ring (component body)
fn long_set(n: usize, shape: u8) -> Vec<(String, Tpl)> {
    let total = if shape == 2 { n + 5 } else { n };
    let names: Vec<String> = (0..total).map(|i| format!("t{i:03}")).collect();
    let mut set = vec![];
    for i in 0..total {
        let mut node = Node { name: names[i].clone(), ..Default::default() };
        let ring = matches!(shape, 0 | 2 | 3 | 4 | 7 | 8);
        let next = if shape == 2 {
            // nodes 0..5 are the tail, 5..n+5 the ring
            if i + 1 < total { Some(i + 1) } else { Some(5) }
        } else if i + 1 < total {
            Some(i + 1)
        } else if ring {
            Some(0)
        } else {
            None
        };
        if let Some(j) = next {
            let tgt = names[j].clone();
            match shape {
                0 | 1 | 2 => node.inc_body.push(tgt),
                3 => node.inc_block.push(tgt),
                8 => node.inc_comp.push(tgt),
                4 | 5 => {
                    if i % 2 == 0 {
                        node.inc_body.push(tgt)
                    } else {
                        node.extends = Some(tgt);
                        node.sup = true;
                    }
                }
                _ => {
                    node.extends = Some(tgt);
                    node.sup = true;
                }
            }
        }
        set.push((node.name.clone(), build(i, &node)));
    }
    set
}

fn main() {
    if std::env::args().nth(1).as_deref() == Some("render-child") {
        child_main();
    }
    let args = parse_args();
    silence_panics();
    if let Some(p) = &args.replay {
        replay(p);
        return;
    }
    let mut rng = Rng::new(args.seed);
    let thorough = args.tier == "thorough";
    let hdr = "From TeraV Require Import Model.Value Model.Registry Corr.CorrC11 Corr.CorrC10.";
    let mut run = Run {
        graph: Sink::new(&args.out, "graph", hdr, "check_graph"),
        render: Sink::new(&args.out, "render", hdr, "check_render"),
        hist: Sink::new(&args.out, "history", hdr, "check_history"),
        hrender: Sink::new(&args.out, "hrender", hdr, "check_hrender"),
        histories: 0,
        short_name_checks: 0,
        meta: Meta::default(),
        limit: Duration::from_secs(20),
        accepted: 0,
        rejected: 0,
        renders: 0,
        aborted: 0,
    };
    let none: Vec<String> = vec![];

    // --- corpus: the shapes the property names, always first
    {
        let d10 = vec![
            ("A".to_string(), Tpl::new(None, vec![Item::Block("y".into(), vec![Item::Include("B".into())])])),
            ("B".to_string(), Tpl::new(Some("A"), vec![Item::Block("y".into(), vec![Item::Super])])),
        ];
        run.case(&none, &d10, &["corpus:D10"], None);
        // legitimate: the parent includes a partial, the child overrides a block
        let ok = vec![
            ("base".to_string(), Tpl::new(None, vec![Item::Text(1), Item::Include("part".into()), Item::Block("y".into(), vec![Item::Text(2)])])),
            ("part".to_string(), Tpl::new(None, vec![Item::Text(3)])),
            ("kid".to_string(), Tpl::new(Some("base"), vec![Item::Block("y".into(), vec![Item::Text(4), Item::Super])])),
        ];
        run.case(&none, &ok, &["corpus:parent-includes-partial"], None);
        // include of a child template: rendered from its root ancestor's chunk (D9 repaired)
        let d9 = vec![
            ("base".to_string(), Tpl::new(None, vec![Item::Text(1), Item::Block("y".into(), vec![Item::Text(2)]), Item::Text(3)])),
            ("kid".to_string(), Tpl::new(Some("base"), vec![Item::Text(4), Item::Block("y".into(), vec![Item::Text(5), Item::Super]), Item::Text(6)])),
            ("page".to_string(), Tpl::new(None, vec![Item::Text(7), Item::Include("kid".into())])),
        ];
        run.case(&none, &d9, &["corpus:include-of-child"], None);
        // component recursion through an include is cut by the depth counter
        let comp = vec![
            ("t".to_string(), Tpl::new(None, vec![Item::Text(1), Item::Call("c".into())])),
            ("u".to_string(), Tpl::new(None, vec![Item::Text(2)]).with_comp("c", vec![Item::Text(3), Item::Include("t".into())])),
        ];
        run.case(&none, &comp, &["corpus:component-include-recursion"], None);
        // self loops and a cycle entered from a tail, each kind
        for kind in 0..4u8 {
            if let Some(s) = uniform_set(1, 1, kind, true) {
                run.case(&none, &s, &["corpus:self-loop"], None);
            }
            // a -> b -> c -> b
            if let Some(s) = uniform_set(3, 0b010_100_010, kind, true) {
                run.case(&none, &s, &["corpus:tail-into-cycle"], None);
            }
        }
    }

    // --- exhaustive: all digraphs with all edges of one kind
    let nmax_exh = 3;
    let mut exhaustive = 0usize;
    for n in 1..=nmax_exh {
        for mask in 0..(1u32 << (n * n)) {
            for kind in 0..4u8 {
                if let Some(s) = uniform_set(n, mask, kind, true) {
                    run.case(&none, &s, &["uniform"], None);
                    exhaustive += 1;
                }
            }
        }
    }
    let mut sampled4 = 0usize;
    {
        let k = if thorough { 9000 } else { 250 };
        for _ in 0..k {
            let mask = (rng.next() & 0xffff) as u32;
            // sparse masks accept more often
            let mask = if rng.chance(2, 3) { mask & (rng.next() & 0xffff) as u32 } else { mask };
            let kind = rng.below(4) as u8;
            if let Some(s) = uniform_set(4, mask, kind, rng.chance(1, 2)) {
                run.case(&none, &s, &["uniform4"], None);
                sampled4 += 1;
            }
        }
    }

    // --- mixed: extends function x include digraph (children call super())
    let mut mixed = 0usize;
    for n in 1..=2usize {
        for ext in 0..(n as u32 + 2).pow(n as u32) {
            for mask in 0..(1u32 << (n * n)) {
                for kind in 1..4u8 {
                    run.case(&none, &mixed_set(n, ext, mask, kind, false), &["mixed"], None);
                    mixed += 1;
                }
            }
        }
    }
    {
        let k = if thorough { 10000 } else { 500 };
        for _ in 0..k {
            let ext = rng.below(125) as u32;
            let mut mask = (rng.next() & 0x1ff) as u32;
            if rng.chance(1, 2) {
                mask &= (rng.next() & 0x1ff) as u32;
            }
            let kind = 1 + rng.below(3) as u8;
            run.case(&none, &mixed_set(3, ext, mask, kind, rng.chance(1, 3)), &["mixed3"], None);
            mixed += 1;
        }
    }

    // --- random graphs up to 12 nodes
    {
        let k = if thorough { 4000 } else { 150 };
        for _ in 0..k {
            let n = 3 + rng.below(10);
            let s = random_set(&mut rng, n);
            run.case(&none, &s, &["random"], None);
        }
    }

    // --- fallback prefixes
    {
        let k = if thorough { 4000 } else { 250 };
        for _ in 0..k {
            let (p, s) = prefix_set(&mut rng);
            run.case(&p, &s, &["prefix"], None);
        }
    }

    // --- short names under several prefixes: every combination of copies of "a" (exact, p/, q/),
    // of what each copy does, of how m refers to it, under both prefix orders
    let mut shadow = 0usize;
    for order in 0..2 {
        let prefixes: Vec<String> = if order == 0 { vec!["p/".into(), "q/".into()] } else { vec!["q/".into(), "p/".into()] };
        for copies in 1..8u8 {
            let k = copies.count_ones();
            for beh in 0..3u32.pow(k) {
                for kind in 0..4u8 {
                    let set = shadow_set(copies, beh, kind);
                    let reg: Vec<String> = set.iter().map(|(n, _)| n.clone()).collect();
                    let more: Vec<String> = if copies & 1 == 0 && spec_resolve(&prefixes, &reg, "a").is_some() { vec!["a".into()] } else { vec![] };
                    run.case_more(&prefixes, &set, &more, &["shadow"], None);
                    shadow += 1;
                    // the exact name arrives in a later call and shadows the prefixed copies
                    if copies & 1 == 1 && copies != 1 && (thorough || (beh + kind as u32) % 2 == 0) {
                        let later = vec![1usize];
                        run.staged(&prefixes, &set, &later, false, &["hist:shadow-later"]);
                    }
                }
            }
        }
    }
    {
        let k = if thorough { 3000 } else { 200 };
        for _ in 0..k {
            let (p, s, more) = multi_prefix_set(&mut rng);
            run.case_more(&p, &s, &more, &["multi-prefix"], None);
            if rng.chance(1, 3) && s.len() >= 2 {
                let later: Vec<usize> = (0..s.len()).filter(|_| rng.chance(1, 2)).collect();
                if !later.is_empty() {
                    let ph = rng.chance(1, 2);
                    run.staged(&p, &s, &later, ph, &["hist:multi-prefix"]);
                }
            }
        }
    }

    // --- histories: the same graphs registered in stages on one long-lived instance.  The set
    // that must be acyclic is the WHOLE current set after every call: a later batch with no
    // include tag at all (only extends / text / blocks) can close an include cycle through
    // inheritance, by replacing an include target, or by shadowing a prefixed name
    for n in 1..=2usize {
        for ext in 0..(n as u32 + 2).pow(n as u32) {
            for mask in 0..(1u32 << (n * n)) {
                for kind in 1..4u8 {
                    let set = mixed_set(n, ext, mask, kind, false);
                    for sub in 1..(1u32 << n) {
                        let later: Vec<usize> = (0..n).filter(|i| sub >> i & 1 == 1).collect();
                        for ph in [true, false] {
                            if !thorough && !rng.chance(1, 5) {
                                continue;
                            }
                            run.staged(&none, &set, &later, ph, &["hist:mixed"]);
                        }
                    }
                }
            }
        }
    }
    {
        let k = if thorough { 4000 } else { 220 };
        for _ in 0..k {
            let ext = rng.below(125) as u32;
            let mut mask = (rng.next() & 0x1ff) as u32;
            if rng.chance(2, 3) {
                mask &= (rng.next() & 0x1ff) as u32;
            }
            let kind = 1 + rng.below(3) as u8;
            let set = mixed_set(3, ext, mask, kind, rng.chance(1, 3));
            // mostly: the templates WITHOUT an include tag come later
            let later: Vec<usize> = if rng.chance(2, 3) {
                (0..3).filter(|i| !has_include(&set[*i].1)).collect()
            } else {
                (0..3).filter(|_| rng.chance(1, 2)).collect()
            };
            if later.is_empty() {
                continue;
            }
            run.staged(&none, &set, &later, rng.chance(2, 3), &["hist:mixed3"]);
        }
        let k = if thorough { 1500 } else { 80 };
        for _ in 0..k {
            let n = 3 + rng.below(6);
            let set = random_set(&mut rng, n);
            let later: Vec<usize> = (0..n).filter(|i| if rng.chance(1, 2) { !has_include(&set[*i].1) && rng.chance(1, 2) } else { rng.chance(1, 3) }).collect();
            if later.is_empty() {
                continue;
            }
            run.staged(&none, &set, &later, rng.chance(1, 2), &["hist:random"]);
        }
        let k = if thorough { 2000 } else { 120 };
        for _ in 0..k {
            let (p, s) = prefix_set(&mut rng);
            let later: Vec<usize> = (0..s.len()).filter(|_| rng.chance(1, 2)).collect();
            if later.is_empty() {
                continue;
            }
            run.staged(&p, &s, &later, rng.chance(1, 2), &["hist:prefix"]);
        }
    }

    // --- long rings and chains: 33, 40, 64, 100 templates
    let mut long = 0usize;
    for n in [33usize, 40, 64, 100] {
        for shape in 0..9u8 {
            if !thorough && n > 40 && !matches!(shape, 0 | 1 | 4 | 6) {
                continue;
            }
            let mut s = long_set(n, shape);
            run.case(&none, &s, &["long"], None);
            long += 1;
            if thorough || n == 40 {
                // registration order must not matter
                s.reverse();
                run.case(&none, &s, &["long"], None);
                long += 1;
            }
        }
    }

    // --- block nesting across inheritance (no include): D13 class
    {
        let all = nest_sets();
        for (s, three) in all {
            if three && !thorough && !rng.chance(1, 6) {
                continue;
            }
            run.case(&none, &s, &["nest"], Some("block-nest-cycle"));
        }
    }

    let Run { graph, render, hist, hrender, mut meta, accepted, rejected, renders, aborted, histories, short_name_checks, .. } = run;
    meta.extra.insert("shadow_sets".into(), json!(shadow));
    meta.extra.insert("multi_call_histories".into(), json!(histories));
    meta.extra.insert("short_name_render_checks".into(), json!(short_name_checks));
    meta.extra.insert("long_ring_and_chain_sets".into(), json!(long));
    meta.extra.insert("exhaustive_uniform_sets".into(), json!(exhaustive));
    meta.extra.insert("exhaustive_uniform_space".into(), json!(format!("all digraphs (self-loops included) on 1..={nmax_exh} templates x edge kind in {{extends, include in body, include in block, include in component body}}")));
    meta.extra.insert("uniform4_sampled".into(), json!(sampled4));
    meta.extra.insert("mixed_sets".into(), json!(mixed));
    meta.extra.insert("accepted_sets".into(), json!(accepted));
    meta.extra.insert("rejected_sets".into(), json!(rejected));
    meta.extra.insert("child_process_renders".into(), json!(renders));
    meta.extra.insert("renders_aborted_or_timed_out".into(), json!(aborted));
    meta.families.push(graph.finish());
    meta.families.push(render.finish());
    meta.families.push(hist.finish());
    meta.families.push(hrender.finish());
    meta.write(&args.out);
}

fn replay(path: &std::path::Path) {
    let r: serde_json::Value = serde_json::from_str(&std::fs::read_to_string(path).expect("replay file")).expect("json");
    let case = if r.get("case").is_some() { &r["case"] } else if r.get("input").is_some() { &r["input"] } else { &r };
    let prefixes: Vec<String> = case["prefixes"].as_array().map(|a| a.iter().map(|x| x.as_str().unwrap().to_string()).collect()).unwrap_or_default();
    if let Some(calls) = case.get("calls").and_then(|c| c.as_array()) {
        let batches: Vec<Vec<(String, String)>> = calls
            .iter()
            .map(|c| c["add"].as_array().unwrap().iter().map(|p| (p[0].as_str().unwrap().to_string(), p[1].as_str().unwrap().to_string())).collect())
            .collect();
        let mut names: std::collections::BTreeSet<String> = Default::default();
        for (k, b) in batches.iter().enumerate() {
            // registration replayed in a child as well: it may not return
            let (lines, bad) = run_child_with("render-child", &json!({"prefixes": prefixes, "strict": false, "names": [], "start": 0,
                "calls": batches[..=k].iter().map(|b| json!(b.iter().map(|(n, s)| json!([n, s])).collect::<Vec<_>>())).collect::<Vec<_>>()}), Duration::from_secs(20));
            println!("call {k}: add {b:?} -> child {:?} {:?}", bad, lines);
            for (n, _) in b {
                names.insert(n.clone());
            }
        }
        let entries: Vec<String> = names.into_iter().collect();
        let outs = render_entries_in_child(&prefixes, &batches, false, &entries, Duration::from_secs(20));
        for (o, n) in outs.iter().zip(entries.iter()) {
            println!("  render({n}) -> {:?}", o);
        }
        return;
    }
    let set: Vec<(String, String)> = case["templates"]
        .as_array()
        .expect("templates")
        .iter()
        .map(|p| (p[0].as_str().unwrap().to_string(), p[1].as_str().unwrap().to_string()))
        .collect();
    for (n, s) in &set {
        println!("  {n} = {s}");
    }
    let mut tera = new_tera(&prefixes);
    match add_all(&mut tera, &set) {
        Err(c) => println!("rejected: {c}"),
        Ok(()) => {
            println!("accepted");
            let outs = render_all_in_child(&prefixes, &set, Duration::from_secs(20));
            for (o, (n, _)) in outs.iter().zip(set.iter()) {
                println!("  render({n}) -> {:?}", o);
            }
        }
    }
}
