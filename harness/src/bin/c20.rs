//! C20 — tera-contrib codecs are lossless and emit only their target alphabet. Families:
//!   enc      : one string through b64_encode (4 engine selections), each text back through
//!              b64_decode, and through urlencode / urlencode_strict     vs Model.Codec
//!   dec      : b64_decode on arbitrary (mostly invalid / leniently padded) texts
//!   json     : json_encode, compared as data (map entries sorted)
//!   jsontext : json_encode, compared byte for byte (map entries in the map's own iteration order)
//!   slug     : slug, with deunicode_char as a per-case oracle table
//! Implementation-side oracles (independent of the Coq model): a reference RFC 4648 decoder, a
//! strict percent-decoder, a strict JSON reader that keeps number tokens as text, alphabet checks.
use serde_json::json;
use std::collections::{BTreeMap, HashSet};
use tera::value::Key;
use tera::{Context, Map, Tera, Value};
use tvh::*;

const HDR: &str = "From TeraV Require Import Model.Value Model.Codec Spec.Codec Corr.CorrC20.";
const COMBOS: [(bool, bool); 4] = [(false, false), (false, true), (true, false), (true, true)];

// ---------------------------------------------------------------- small helpers

/// Gallina `res` term with the C20 class mapping: any tera error -> ErrMsg, panic -> ErrPanic.
fn gal_res<T>(r: &Outcome<T>, f: impl Fn(&T) -> String) -> String {
    match r {
        Outcome::Ok(v) => format!("(ROk {})", f(v)),
        Outcome::Err(..) => "(RErr ErrMsg)".into(),
        Outcome::Panic(_) => "(RErr ErrPanic)".into(),
    }
}

fn gal_list(parts: &[String]) -> String {
    format!("[{}]", parts.join("; "))
}

fn jstr(r: &Outcome<String>) -> serde_json::Value {
    r.json(|s| json!(s))
}

/// Error classes seen for filter errors (class -> count), for the report.
#[derive(Default)]
struct Classes(BTreeMap<String, usize>);
impl Classes {
    fn note<T>(&mut self, what: &str, r: &Outcome<T>) {
        match r {
            Outcome::Err(c, _) => *self.0.entry(format!("{what}:{c}")).or_default() += 1,
            Outcome::Panic(_) => *self.0.entry(format!("{what}:panic")).or_default() += 1,
            Outcome::Ok(_) => {}
        }
    }
}

/// `{{ (<expr>) | probe }}` and the probed value as a string.
fn eval_str(tera: &Tera, expr: &str, ctx: &Context) -> Outcome<String> {
    match eval_expr(tera, expr, ctx) {
        Outcome::Ok(v) => match v.as_str() {
            Some(s) => Outcome::Ok(s.to_string()),
            None => Outcome::Err("notstring".into(), "the filter did not return a string".into()),
        },
        Outcome::Err(c, m) => Outcome::Err(c, m),
        Outcome::Panic(m) => Outcome::Panic(m),
    }
}

fn report_panic<T>(meta: &mut Meta, r: &Outcome<T>, desc: &serde_json::Value) {
    if let Outcome::Panic(m) = r {
        meta.oracle_fail(&format!("panic: {m}"), None, desc.clone());
    }
}

fn make_tera() -> Tera {
    let mut tera = Tera::default();
    tera.register_filter("b64_encode", tera_contrib::base64::b64_encode);
    tera.register_filter("b64_decode", tera_contrib::base64::b64_decode);
    tera.register_filter("urlencode", tera_contrib::urlencode::urlencode);
    tera.register_filter("urlencode_strict", tera_contrib::urlencode::urlencode_strict);
    tera.register_filter("json_encode", tera_contrib::json::json_encode);
    tera.register_filter("slug", tera_contrib::slug::slug);
    register_probe(&mut tera);
    tera
}

// ---------------------------------------------------------------- reference codecs (independent)

fn b64_sym_value(c: char, url_safe: bool) -> Option<u32> {
    match c {
        'A'..='Z' => Some(c as u32 - 'A' as u32),
        'a'..='z' => Some(c as u32 - 'a' as u32 + 26),
        '0'..='9' => Some(c as u32 - '0' as u32 + 52),
        '+' if !url_safe => Some(62),
        '/' if !url_safe => Some(63),
        '-' if url_safe => Some(62),
        '_' if url_safe => Some(63),
        _ => None,
    }
}

fn b64_sym_char(v: u32, url_safe: bool) -> char {
    match v {
        0..=25 => (b'A' + v as u8) as char,
        26..=51 => (b'a' + (v - 26) as u8) as char,
        52..=61 => (b'0' + (v - 52) as u8) as char,
        62 => if url_safe { '-' } else { '+' },
        _ => if url_safe { '_' } else { '/' },
    }
}

/// Reference decoder, RFC 4648 §4/§5 with lenient padding: the text is `symbols* '='*`; the
/// symbols must all be in the selected alphabet; `len(symbols) mod 4` is 0, 2 or 3; the `=`
/// suffix is optional but never longer than what completes the last quantum (0 / 2 / 1);
/// the unused low bits of the last symbol are zero (canonical encodings only).
fn ref_b64_decode(text: &str, url_safe: bool) -> Option<Vec<u8>> {
    let chars: Vec<char> = text.chars().collect();
    let mut n = chars.len();
    while n > 0 && chars[n - 1] == '=' {
        n -= 1;
    }
    let pads = chars.len() - n;
    let mut vals = Vec::with_capacity(n);
    for c in &chars[..n] {
        vals.push(b64_sym_value(*c, url_safe)?);
    }
    let max_pad = match n % 4 {
        0 => 0,
        1 => return None,
        2 => 2,
        _ => 1,
    };
    if pads > max_pad {
        return None;
    }
    let mut out = Vec::with_capacity(n / 4 * 3 + 2);
    for q in vals.chunks(4) {
        match q.len() {
            4 => {
                let w = q[0] << 18 | q[1] << 12 | q[2] << 6 | q[3];
                out.extend([(w >> 16) as u8, (w >> 8) as u8, w as u8]);
            }
            3 => {
                if q[2] & 0b11 != 0 {
                    return None;
                }
                let w = q[0] << 18 | q[1] << 12 | q[2] << 6;
                out.extend([(w >> 16) as u8, (w >> 8) as u8]);
            }
            2 => {
                if q[1] & 0b1111 != 0 {
                    return None;
                }
                out.push((q[0] << 2 | q[1] >> 4) as u8);
            }
            _ => return None,
        }
    }
    Some(out)
}

/// Reference encoder (canonical, padded): only used for the "is the canonical encoding" rule.
fn ref_b64_encode_padded(bytes: &[u8], url_safe: bool) -> String {
    let mut out = String::new();
    for ch in bytes.chunks(3) {
        let b = [ch[0] as u32, *ch.get(1).unwrap_or(&0) as u32, *ch.get(2).unwrap_or(&0) as u32];
        let w = b[0] << 16 | b[1] << 8 | b[2];
        out.push(b64_sym_char(w >> 18 & 63, url_safe));
        out.push(b64_sym_char(w >> 12 & 63, url_safe));
        if ch.len() > 1 { out.push(b64_sym_char(w >> 6 & 63, url_safe)) } else { out.push('=') }
        if ch.len() > 2 { out.push(b64_sym_char(w & 63, url_safe)) } else { out.push('=') }
    }
    out
}

fn hexval(b: u8) -> Option<u8> {
    match b {
        b'0'..=b'9' => Some(b - b'0'),
        b'a'..=b'f' => Some(b - b'a' + 10),
        b'A'..=b'F' => Some(b - b'A' + 10),
        _ => None,
    }
}

/// Strict percent-decoder: `%` must be followed by two hex digits; everything else is literal.
fn ref_pct_decode(text: &str) -> Option<Vec<u8>> {
    let b = text.as_bytes();
    let mut out = Vec::with_capacity(b.len());
    let mut i = 0;
    while i < b.len() {
        if b[i] == b'%' {
            let h = hexval(*b.get(i + 1)?)?;
            let l = hexval(*b.get(i + 2)?)?;
            out.push(h << 4 | l);
            i += 3;
        } else {
            out.push(b[i]);
            i += 1;
        }
    }
    Some(out)
}

/// Only unreserved characters (+ `/` when `slash`) and well-formed %XX escapes.
fn pct_shape_ok(text: &str, slash: bool) -> bool {
    let b = text.as_bytes();
    let mut i = 0;
    while i < b.len() {
        let c = b[i];
        if c == b'%' {
            if i + 2 >= b.len() {
                return false;
            }
            if hexval(b[i + 1]).is_none() || hexval(b[i + 2]).is_none() {
                return false;
            }
            i += 3;
        } else if c.is_ascii_alphanumeric() || matches!(c, b'.' | b'_' | b'~' | b'-') || (slash && c == b'/') {
            i += 1;
        } else {
            return false;
        }
    }
    true
}

/// Output alphabet of b64_encode(url_safe, padded).
fn b64_shape_ok(text: &str, url_safe: bool, padded: bool) -> Result<(), &'static str> {
    let body = text.trim_end_matches('=');
    let pads = text.len() - body.len();
    for c in body.chars() {
        if c == '=' {
            return Err("b64_encode output has '=' before the end");
        }
        if b64_sym_value(c, url_safe).is_none() {
            return Err("b64_encode output has a character outside the selected alphabet");
        }
    }
    if pads > 2 {
        return Err("b64_encode output has more than two '='");
    }
    if padded {
        if text.len() % 4 != 0 {
            return Err("padded b64_encode output length is not a multiple of 4");
        }
    } else if pads != 0 {
        return Err("unpadded b64_encode output contains '='");
    }
    Ok(())
}

// ---------------------------------------------------------------- string sources

const BOUNDARY_CPS: [u32; 10] = [0x7f, 0x80, 0x7ff, 0x800, 0xffff, 0x10000, 0x10ffff, 0xd7ff, 0xe000, 0];

fn rand_char(rng: &mut Rng) -> char {
    let cp = match rng.below(16) {
        0..=4 => rng.range(0x20, 0x7e) as u32,
        5 => if rng.chance(1, 8) { 0x7f } else { rng.range(0, 0x1f) as u32 },
        6..=7 => rng.range(0x80, 0xff) as u32,
        8..=9 => rng.range(0x100, 0x7ff) as u32,
        10..=11 => {
            let c = rng.range(0x800, 0xffff) as u32;
            if (0xd800..=0xdfff).contains(&c) { c - 0x800 } else { c }
        }
        12..=13 => rng.range(0x10000, 0x10ffff) as u32,
        _ => *rng.pick(&BOUNDARY_CPS),
    };
    char::from_u32(cp).unwrap_or('?')
}

fn rand_string_len(rng: &mut Rng, n: usize) -> String {
    (0..n).map(|_| rand_char(rng)).collect()
}

/// Lengths 0..=8 common, otherwise up to `max`.
fn rand_string(rng: &mut Rng, max: usize) -> String {
    let n = if rng.chance(3, 5) { rng.below(9) } else { rng.below(max + 1) };
    rand_string_len(rng, n)
}

fn ascii_punct() -> Vec<char> {
    (0x21u8..=0x2f).chain(0x3a..=0x40).chain(0x5b..=0x60).chain(0x7b..=0x7e).map(|b| b as char).collect()
}

/// Hand-picked strings shared by the enc and slug families.
fn common_strings() -> Vec<String> {
    let mut out = Vec::new();
    for c in ascii_punct() {
        out.push(c.to_string());
        out.push(format!("{c}{c}"));
    }
    for s in pools::string_pool() {
        out.push(s.to_string());
    }
    for n in 0..=12usize {
        out.push("a".repeat(n));
        out.push("é".repeat(n));
        out.push("😀".repeat(n));
    }
    out.push("\u{0}\u{7f}\u{80}\u{7ff}\u{800}\u{ffff}\u{10000}\u{10ffff}".to_string());
    out.push("\u{d7ff}\u{e000}".to_string());
    out
}

/// E: every valid UTF-8 string of at most two bytes, enumerated by bytes.
fn exhaustive_le2() -> Vec<String> {
    let mut out = vec![String::new()];
    for a in 0..=255u8 {
        if let Ok(s) = std::str::from_utf8(&[a]) {
            out.push(s.to_string());
        }
    }
    for a in 0..=255u8 {
        for b in 0..=255u8 {
            if let Ok(s) = std::str::from_utf8(&[a, b]) {
                out.push(s.to_string());
            }
        }
    }
    out
}

// ---------------------------------------------------------------- family enc

struct EncRun {
    b64: Vec<Outcome<String>>,
    dec: Vec<Outcome<String>>,
    url: Outcome<String>,
    urls: Outcome<String>,
}

fn run_enc(tera: &Tera, s: &str) -> EncRun {
    let mut ctx = Context::new();
    ctx.insert_value("s", Value::from(s));
    let mut b64 = Vec::new();
    let mut dec = Vec::new();
    for (u, p) in COMBOS {
        let r = eval_str(tera, &format!("s | b64_encode(url_safe={u}, padded={p})"), &ctx);
        let d = match &r {
            Outcome::Ok(t) => {
                let mut c2 = Context::new();
                c2.insert_value("t", Value::from(t.as_str()));
                c2.insert_value("u", Value::from(u));
                eval_str(tera, "t | b64_decode(url_safe=u)", &c2)
            }
            Outcome::Err(c, m) => Outcome::Err(c.clone(), m.clone()),
            Outcome::Panic(m) => Outcome::Panic(m.clone()),
        };
        b64.push(r);
        dec.push(d);
    }
    let url = eval_str(tera, "s | urlencode", &ctx);
    let urls = eval_str(tera, "s | urlencode_strict", &ctx);
    EncRun { b64, dec, url, urls }
}

fn enc_nontrivial(s: &str) -> bool {
    !s.is_empty() && !s.bytes().all(|c| c.is_ascii_alphanumeric() || matches!(c, b'.' | b'_' | b'~' | b'/' | b'-'))
}

fn len_tag(s: &str) -> &'static str {
    match s.chars().count() {
        0 => "len:0",
        1 => "len:1",
        2 => "len:2",
        3..=16 => "len:3-16",
        _ => "len:17+",
    }
}

fn enc_desc(s: &str, r: &EncRun) -> serde_json::Value {
    json!({"family": "enc", "s": s,
        "b64": r.b64.iter().map(jstr).collect::<Vec<_>>(),
        "b64dec": r.dec.iter().map(jstr).collect::<Vec<_>>(),
        "url": jstr(&r.url), "urls": jstr(&r.urls),
        "order": "(url_safe, padded) = (f,f) (f,t) (t,f) (t,t)"})
}

fn enc_oracles(meta: &mut Meta, cls: &mut Classes, s: &str, r: &EncRun, desc: &serde_json::Value) {
    for (i, (u, p)) in COMBOS.iter().enumerate() {
        cls.note("b64_encode", &r.b64[i]);
        cls.note("b64_decode(after encode)", &r.dec[i]);
        report_panic(meta, &r.b64[i], desc);
        if !matches!(r.b64[i], Outcome::Panic(_)) {
            report_panic(meta, &r.dec[i], desc);
        }
        // losslessness through the implementation's own decoder
        meta.oracle_checks += 1;
        match &r.dec[i] {
            Outcome::Ok(t) if t == s => {}
            Outcome::Panic(_) => {}
            _ => meta.oracle_fail(
                &format!("b64_decode(b64_encode(s, url_safe={u}, padded={p}), url_safe={u}) is not Ok(s)"),
                None,
                desc.clone(),
            ),
        }
        if let Outcome::Ok(t) = &r.b64[i] {
            // losslessness through the reference decoder
            meta.oracle_checks += 1;
            if ref_b64_decode(t, *u).as_deref() != Some(s.as_bytes()) {
                meta.oracle_fail(
                    &format!("reference RFC 4648 decoder does not return the input bytes from b64_encode(url_safe={u}, padded={p})"),
                    None,
                    desc.clone(),
                );
            }
            meta.oracle_checks += 1;
            if let Err(w) = b64_shape_ok(t, *u, *p) {
                meta.oracle_fail(&format!("{w} (url_safe={u}, padded={p})"), None, desc.clone());
            }
            // canonical length: 4*ceil(n/3) with padding, ceil(4n/3) without
            meta.oracle_checks += 1;
            let n = s.len();
            let want = if *p { n.div_ceil(3) * 4 } else { (4 * n).div_ceil(3) };
            if t.len() != want {
                meta.oracle_fail(
                    &format!("b64_encode(url_safe={u}, padded={p}) of {n} bytes has length {} instead of the canonical {want}", t.len()),
                    None,
                    desc.clone(),
                );
            }
        }
    }
    for (name, r, slash) in [("urlencode", &r.url, true), ("urlencode_strict", &r.urls, false)] {
        cls.note(name, r);
        report_panic(meta, r, desc);
        meta.oracle_checks += 2;
        match r {
            Outcome::Ok(t) => {
                if !pct_shape_ok(t, slash) {
                    meta.oracle_fail(&format!("{name} output has a character outside its alphabet or a malformed escape"), None, desc.clone());
                }
                if ref_pct_decode(t).as_deref() != Some(s.as_bytes()) {
                    meta.oracle_fail(&format!("strict percent-decoding of the {name} output does not return the input bytes"), None, desc.clone());
                }
            }
            Outcome::Err(..) => meta.oracle_fail(&format!("{name} failed"), None, desc.clone()),
            Outcome::Panic(_) => {}
        }
    }
}

/// Runs the implementation and the oracles; pushes to the sink when `to_sink`.
/// Returns whether the case is non-trivial.
fn do_enc(sink: &mut Sink, meta: &mut Meta, cls: &mut Classes, tera: &Tera, s: &str, to_sink: bool) -> bool {
    let r = run_enc(tera, s);
    let desc = enc_desc(s, &r);
    enc_oracles(meta, cls, s, &r, &desc);
    let nontrivial = enc_nontrivial(s);
    if to_sink {
        let g = format!(
            "{{| e_s := {}; e_b64 := {}; e_b64dec := {}; e_url := {}; e_urls := {} |}}",
            gal_str(s),
            gal_list(&r.b64.iter().map(|x| gal_res(x, |t| gal_str(t))).collect::<Vec<_>>()),
            gal_list(&r.dec.iter().map(|x| gal_res(x, |t| gal_str(t))).collect::<Vec<_>>()),
            gal_res(&r.url, |t| gal_str(t)),
            gal_res(&r.urls, |t| gal_str(t)),
        );
        let a = if s.is_ascii() { "ascii" } else { "nonascii" };
        sink.push(g, desc, nontrivial, None, &[len_tag(s), a]);
    }
    nontrivial
}

// ---------------------------------------------------------------- family encrl (long inputs, run-length form)

/// unit^reps ++ tail
#[derive(Clone)]
struct Compact {
    unit: String,
    reps: usize,
    tail: String,
}

impl Compact {
    fn expand(&self) -> String {
        let mut s = self.unit.repeat(self.reps);
        s.push_str(&self.tail);
        s
    }
    /// A string of exactly `n` bytes: whole units, then whole chars of the unit, then 'x' filler.
    fn of_len(unit: &str, n: usize) -> Compact {
        let reps = n / unit.len();
        let mut rem = n % unit.len();
        let mut tail = String::new();
        for c in unit.chars() {
            if c.len_utf8() <= rem {
                tail.push(c);
                rem -= c.len_utf8();
            } else {
                break;
            }
        }
        tail.push_str(&"x".repeat(rem));
        Compact { unit: unit.to_string(), reps, tail }
    }
}

/// Greedy run-length form with period `plen`: (block, count) segments whose expansion is `seq`.
fn rl_compress(seq: &[u32], plen: usize) -> Vec<(Vec<u32>, usize)> {
    let plen = plen.max(1);
    let mut out = Vec::new();
    let mut pos = 0;
    while pos < seq.len() {
        let l = plen.min(seq.len() - pos);
        let block = &seq[pos..pos + l];
        let mut count = 1;
        while pos + (count + 1) * l <= seq.len() && &seq[pos + count * l..pos + (count + 1) * l] == block {
            count += 1;
        }
        out.push((block.to_vec(), count));
        pos += count * l;
    }
    out
}

fn gal_rl(segs: &[(Vec<u32>, usize)]) -> String {
    let parts: Vec<String> = segs
        .iter()
        .map(|(b, n)| format!("({}, {}%N)", gal_nlist(b.iter().map(|x| *x as u64)), n))
        .collect();
    format!("[{}]", parts.join("; "))
}

fn gal_rl_str(s: &str, plen: usize) -> String {
    let cps: Vec<u32> = s.chars().map(|c| c as u32).collect();
    gal_rl(&rl_compress(&cps, plen))
}

fn summary(r: &Outcome<String>) -> serde_json::Value {
    match r {
        Outcome::Ok(t) => {
            let n = t.chars().count();
            let head: String = t.chars().take(40).collect();
            let tail: String = t.chars().skip(n.saturating_sub(40)).collect();
            let first_pad = t.find('=');
            json!({"ok_len": t.len(), "head": head, "tail": tail, "first_'='_at": first_pad})
        }
        other => jstr(other),
    }
}

fn enc_desc_compact(c: &Compact, n_bytes: usize, r: &EncRun) -> serde_json::Value {
    json!({"family": "encrl",
        "s_compact": {"unit": c.unit, "reps": c.reps, "tail": c.tail},
        "s_is": "unit repeated `reps` times followed by tail", "byte_len": n_bytes,
        "b64": r.b64.iter().map(summary).collect::<Vec<_>>(),
        "b64dec": r.dec.iter().map(summary).collect::<Vec<_>>(),
        "url": summary(&r.url), "urls": summary(&r.urls),
        "order": "(url_safe, padded) = (f,f) (f,t) (t,f) (t,t)"})
}

/// The enc family on a long string: implementation + every oracle always; the model comparison
/// (full texts, printed in run-length form) when a sink is given.
fn do_enc_long(sink: Option<&mut Sink>, meta: &mut Meta, cls: &mut Classes, tera: &Tera, c: &Compact) {
    let s = c.expand();
    let r = run_enc(tera, &s);
    let desc = enc_desc_compact(c, s.len(), &r);
    enc_oracles(meta, cls, &s, &r, &desc);
    if let Some(sink) = sink {
        let ub = c.unit.len().max(1);
        let uc = c.unit.chars().count().max(1);
        // period of the percent-encoded text: the implementation's own text for one unit
        let mut ctx = Context::new();
        ctx.insert_value("s", Value::from(c.unit.as_str()));
        let pl = |e: &str| match eval_str(tera, e, &ctx) {
            Outcome::Ok(t) => t.len().max(1),
            _ => 3 * ub,
        };
        let (pu, pus) = (pl("s | urlencode"), pl("s | urlencode_strict"));
        let mut input = vec![(c.unit.chars().map(|x| x as u32).collect::<Vec<u32>>(), c.reps)];
        if !c.tail.is_empty() {
            input.push((c.tail.chars().map(|x| x as u32).collect(), 1));
        }
        let g = format!(
            "{{| r_s := {}; r_b64 := {}; r_b64dec := {}; r_url := {}; r_urls := {} |}}",
            gal_rl(&input),
            gal_list(&r.b64.iter().map(|x| gal_res(x, |t| gal_rl_str(t, 4 * ub))).collect::<Vec<_>>()),
            gal_list(&r.dec.iter().map(|x| gal_res(x, |t| gal_rl_str(t, uc))).collect::<Vec<_>>()),
            gal_res(&r.url, |t| gal_rl_str(t, pu)),
            gal_res(&r.urls, |t| gal_rl_str(t, pus)),
        );
        let a = if s.is_ascii() { "ascii" } else { "nonascii" };
        let lt = match s.len() {
            0..=99 => "bytes:<100",
            100..=4095 => "bytes:100-4095",
            4096..=16383 => "bytes:4096-16383",
            16384..=65535 => "bytes:16384-65535",
            _ => "bytes:65536+",
        };
        sink.push(g, desc, s.len() >= 3, None, &[lt, a]);
    }
}

/// Sizes at which an encoder that works in blocks would cut its input.
const BLOCKS: [usize; 9] = [3, 4, 57, 64, 76, 1024, 4096, 8192, 65536];
const ASCII_UNIT: &str = "abcdefghijklmnopqrstuvw"; // 23 bytes: coprime to every block size
const MULTI_UNIT: &str = "a\u{e9}\u{65e5}\u{1f600}~"; // 1+2+3+4+1 = 11 bytes

fn lengths_around(ks: &[usize], d: i64, cap: usize) -> Vec<usize> {
    let mut v = Vec::new();
    for b in BLOCKS {
        for k in ks {
            for off in -d..=d {
                let n = (b * k) as i64 + off;
                if n >= 0 && (n as usize) <= cap {
                    v.push(n as usize);
                }
            }
        }
    }
    v.sort();
    v.dedup();
    v
}

// ---------------------------------------------------------------- '%' in the input of the percent-encoders

/// Inputs that contain '%' followed by 0, 1 or 2 hex digits (either case), "%%", text that is
/// already percent-encoded: percent-decoding the filter output must still give the input back
/// (so an existing escape has to be escaped again).
fn pct_strings() -> Vec<String> {
    let grid: Vec<char> = "09afAFgG% \u{e9}".chars().collect();
    let mut out: Vec<String> = vec!["%".into(), "%%".into(), "%%%".into()];
    for x in &grid {
        out.push(format!("%{x}"));
        out.push(format!("{x}%"));
        for y in &grid {
            out.push(format!("%{x}{y}"));
        }
    }
    for s in [
        "a%41b", "100%25", "%25", "%2541", "%252541", "50% off", "%zz", "%4", "q%ffr", "%E2%82%AC", "%e2%82%ac",
        "%C3%A9\u{e9}", "a%2Fb", "a%2fb/c", "discount:%10off", "%41%42", "%4%41", "%%41", "%41%", "%41%4", "x%0", "%00",
        "%7E~%7e", "%2D-%2E.%5F_", "caf%C3%A9 cr%C3%A8me", "%F0%9F%98%80\u{1f600}", "a=%31&b=%32", "%u0041", "%x41", "% 41", "%+41",
    ] {
        out.push(s.to_string());
    }
    out
}

// ---------------------------------------------------------------- family dec

fn run_dec(tera: &Tera, u: bool, s: &str) -> Outcome<String> {
    let mut ctx = Context::new();
    ctx.insert_value("s", Value::from(s));
    ctx.insert_value("u", Value::from(u));
    eval_str(tera, "s | b64_decode(url_safe=u)", &ctx)
}

fn do_dec(sink: &mut Sink, meta: &mut Meta, cls: &mut Classes, tera: &Tera, u: bool, s: &str) {
    let r = run_dec(tera, u, s);
    cls.note("b64_decode", &r);
    let desc = json!({"family": "dec", "s": s, "url_safe": u, "impl": jstr(&r)});
    report_panic(meta, &r, &desc);
    let foreign = s.chars().any(|c| c != '=' && b64_sym_value(c, u).is_none());
    meta.oracle_checks += 1;
    if foreign && matches!(r, Outcome::Ok(_)) {
        meta.oracle_fail("decoder accepted a character outside the alphabet", None, desc.clone());
    }
    let reference = ref_b64_decode(s, u);
    let expect: Option<String> = reference.clone().and_then(|b| String::from_utf8(b).ok());
    meta.oracle_checks += 1;
    match (&expect, &r) {
        (Some(e), Outcome::Ok(t)) if e == t => {}
        (None, Outcome::Err(..)) => {}
        (_, Outcome::Panic(_)) => {}
        (Some(_), Outcome::Ok(_)) => meta.oracle_fail("decoder output differs from the reference RFC 4648 decoder", None, desc.clone()),
        (Some(_), Outcome::Err(..)) => meta.oracle_fail("decoder rejected a text the reference RFC 4648 decoder (lenient padding) accepts", None, desc.clone()),
        (None, Outcome::Ok(_)) => meta.oracle_fail(
            if reference.is_some() { "decoder returned a string although the decoded bytes are not valid UTF-8" }
            else { "decoder accepted a text the reference RFC 4648 decoder rejects" },
            None,
            desc.clone(),
        ),
    }
    let canonical = match &r {
        Outcome::Ok(t) => ref_b64_encode_padded(t.as_bytes(), u) == s,
        _ => false,
    };
    let nontrivial = !s.is_empty() && !canonical;
    let mut tags: Vec<&str> = Vec::new();
    match &r {
        Outcome::Ok(_) => tags.push("impl:ok"),
        Outcome::Err(_, m) => {
            tags.push("impl:err");
            tags.push(if m.contains("Invalid symbol") { "err:symbol" }
                else if m.contains("Invalid input length") { "err:length" }
                else if m.contains("Invalid last symbol") { "err:lastsymbol" }
                else if m.contains("Invalid padding") { "err:padding" }
                else if m.contains("Invalid UTF-8") { "err:utf8" }
                else { "err:other" });
        }
        Outcome::Panic(_) => tags.push("impl:panic"),
    }
    let g = format!("{{| d_u := {}; d_s := {}; d_impl := {} |}}", gal_bool(u), gal_str(s), gal_res(&r, |t| gal_str(t)));
    sink.push(g, desc, nontrivial, None, &tags);
}

fn dec_mutations(thorough: bool) -> Vec<String> {
    let repl: &[char] = if thorough { &['!', '=', '\n', '-', '+', '_', '/', 'é'] } else { &['!', '=', '_', 'é'] };
    let bases = [
        "", "Zg==", "Zm8=", "Zm9v", "Zm9vYg==", "Zm9vYmE=", "Zm9vYmFy", "w6k=", "/w==", "gA==", "wyg=", "7aCA",
        "_w==", "+/+/", "-_-_",
    ];
    let mut out: Vec<String> = Vec::new();
    for t in bases {
        let chars: Vec<char> = t.chars().collect();
        let stripped = t.trim_end_matches('=').to_string();
        out.push(t.to_string());
        out.push(stripped.clone());
        if let Some(x) = t.strip_suffix('=') {
            out.push(x.to_string());
        }
        out.push(format!("{t}="));
        for i in 0..=chars.len() {
            let mut c = chars.clone();
            c.insert(i, '=');
            out.push(c.into_iter().collect());
        }
        for i in 0..chars.len() {
            for r in repl {
                let mut c = chars.clone();
                c[i] = *r;
                out.push(c.into_iter().collect());
            }
            let mut c = chars.clone();
            c.remove(i);
            out.push(c.into_iter().collect());
        }
        out.push(format!("{t}A"));
        out.push(format!("{t}\n"));
        // last symbol bumped by one alphabet position: non-zero trailing bits (or a changed byte)
        let mut variants = vec![t.to_string(), stripped.clone()];
        if let Some(x) = t.strip_suffix('=') {
            variants.push(x.to_string());
        }
        for v in variants {
            for url in [false, true] {
                let mut c: Vec<char> = v.chars().collect();
                if let Some(pos) = c.iter().rposition(|x| *x != '=') {
                    if let Some(val) = b64_sym_value(c[pos], url) {
                        c[pos] = b64_sym_char((val + 1) % 64, url);
                        out.push(c.into_iter().collect());
                    }
                }
            }
        }
    }
    for s in ["A", "AAAAA", "AAAA=", "=", "====", "A===", "AA=A", "AA==AAAA", "AAAA==", "AAA=AAAA", "Zh==", "Zm9=", "Zg=",
        "Zh", "Zm9", "AA=", "AA===", "AAA==", "AAAAAA=", "AAAAA=", "AAAAA==", "AAAAA===", "==", "==="] {
        out.push(s.to_string());
    }
    out
}

// ---------------------------------------------------------------- family json / jsontext

fn key_name(k: &Key) -> String {
    match k {
        Key::Bool(b) => (if *b { "true" } else { "false" }).to_string(),
        Key::U64(v) => v.to_string(),
        Key::I64(v) => v.to_string(),
        Key::U128(v) => v.to_string(),
        Key::I128(v) => v.to_string(),
        Key::String(s) => s.to_string(),
        Key::Str(s) => s.to_string(),
        _ => panic!("unknown key kind"),
    }
}

/// gal_value with map entries in the map's own iteration order (what serde saw).
fn gal_value_iter(v: &Value) -> String {
    use tera::value::ValueKind as K;
    match v.kind() {
        K::Array => {
            let parts: Vec<String> = v.as_array().unwrap().iter().map(gal_value_iter).collect();
            format!("(VArr [{}])", parts.join("; "))
        }
        K::Map => {
            let parts: Vec<String> = v
                .as_map()
                .unwrap()
                .iter()
                .map(|(k, x)| format!("({}, {})", gal_key(k), gal_value_iter(x)))
                .collect();
            format!("(VMap [{}])", parts.join("; "))
        }
        _ => gal_value(v),
    }
}

fn walk<'a>(v: &'a Value, f: &mut dyn FnMut(&'a Value)) {
    f(v);
    if let Some(a) = v.as_array() {
        for x in a {
            walk(x, f);
        }
    } else if let Some(m) = v.as_map() {
        for (_, x) in m.iter() {
            walk(x, f);
        }
    }
}

fn keys_collide(v: &Value) -> bool {
    let mut hit = false;
    walk(v, &mut |x| {
        if let Some(m) = x.as_map() {
            let mut seen = HashSet::new();
            for (k, _) in m.iter() {
                if !seen.insert(key_name(k)) {
                    hit = true;
                }
            }
        }
    });
    hit
}

fn finite_floats(v: &Value) -> Vec<f64> {
    let mut seen = HashSet::new();
    let mut out = Vec::new();
    walk(v, &mut |x| {
        if x.is_f64() {
            let f = x.as_f64().unwrap();
            if f.is_finite() && seen.insert(f.to_bits()) {
                out.push(f);
            }
        }
    });
    out
}

fn has_nonfinite(v: &Value) -> bool {
    let mut hit = false;
    walk(v, &mut |x| {
        if x.is_f64() && !x.as_f64().unwrap().is_finite() {
            hit = true;
        }
    });
    hit
}

/// Strict RFC 8259 reader that keeps number tokens as text (so that integers of any size and
/// floats are compared exactly; serde_json's default float parser is not correctly rounded).
#[derive(Debug)]
enum J {
    Null,
    Bool(bool),
    Num(String),
    Str(String),
    Arr(Vec<J>),
    Obj(Vec<(String, J)>),
}

struct JP<'a> {
    b: &'a [u8],
    i: usize,
}

impl<'a> JP<'a> {
    fn ws(&mut self) {
        while self.i < self.b.len() && matches!(self.b[self.i], b' ' | b'\t' | b'\n' | b'\r') {
            self.i += 1;
        }
    }
    fn lit(&mut self, l: &str) -> Option<()> {
        if self.b[self.i..].starts_with(l.as_bytes()) {
            self.i += l.len();
            Some(())
        } else {
            None
        }
    }
    fn peek(&self) -> Option<u8> {
        self.b.get(self.i).copied()
    }
    fn digits(&mut self) -> usize {
        let st = self.i;
        while matches!(self.peek(), Some(b'0'..=b'9')) {
            self.i += 1;
        }
        self.i - st
    }
    fn number(&mut self) -> Option<J> {
        let st = self.i;
        if self.peek() == Some(b'-') {
            self.i += 1;
        }
        match self.peek()? {
            b'0' => self.i += 1,
            b'1'..=b'9' => {
                self.digits();
            }
            _ => return None,
        }
        if self.peek() == Some(b'.') {
            self.i += 1;
            if self.digits() == 0 {
                return None;
            }
        }
        if matches!(self.peek(), Some(b'e' | b'E')) {
            self.i += 1;
            if matches!(self.peek(), Some(b'+' | b'-')) {
                self.i += 1;
            }
            if self.digits() == 0 {
                return None;
            }
        }
        Some(J::Num(String::from_utf8(self.b[st..self.i].to_vec()).ok()?))
    }
    fn hex4(&mut self) -> Option<u32> {
        let mut v = 0u32;
        for _ in 0..4 {
            v = v << 4 | hexval(self.peek()?)? as u32;
            self.i += 1;
        }
        Some(v)
    }
    fn string(&mut self) -> Option<String> {
        if self.peek()? != b'"' {
            return None;
        }
        self.i += 1;
        let mut out: Vec<u8> = Vec::new();
        loop {
            let c = self.peek()?;
            self.i += 1;
            match c {
                b'"' => break,
                0..=0x1f => return None,
                b'\\' => {
                    let e = self.peek()?;
                    self.i += 1;
                    let ch = match e {
                        b'"' => '"',
                        b'\\' => '\\',
                        b'/' => '/',
                        b'b' => '\u{8}',
                        b'f' => '\u{c}',
                        b'n' => '\n',
                        b'r' => '\r',
                        b't' => '\t',
                        b'u' => {
                            let h = self.hex4()?;
                            let cp = if (0xd800..0xdc00).contains(&h) {
                                self.lit("\\u")?;
                                let l = self.hex4()?;
                                if !(0xdc00..0xe000).contains(&l) {
                                    return None;
                                }
                                0x10000 + ((h - 0xd800) << 10) + (l - 0xdc00)
                            } else {
                                h
                            };
                            char::from_u32(cp)?
                        }
                        _ => return None,
                    };
                    let mut buf = [0u8; 4];
                    out.extend(ch.encode_utf8(&mut buf).as_bytes());
                }
                _ => out.push(c),
            }
        }
        String::from_utf8(out).ok()
    }
    fn value(&mut self, depth: usize) -> Option<J> {
        if depth > 200 {
            return None;
        }
        self.ws();
        let r = match self.peek()? {
            b'n' => self.lit("null").map(|_| J::Null)?,
            b't' => self.lit("true").map(|_| J::Bool(true))?,
            b'f' => self.lit("false").map(|_| J::Bool(false))?,
            b'"' => J::Str(self.string()?),
            b'[' => {
                self.i += 1;
                let mut items = Vec::new();
                self.ws();
                if self.peek()? == b']' {
                    self.i += 1;
                } else {
                    loop {
                        items.push(self.value(depth + 1)?);
                        self.ws();
                        match self.peek()? {
                            b',' => self.i += 1,
                            b']' => {
                                self.i += 1;
                                break;
                            }
                            _ => return None,
                        }
                    }
                }
                J::Arr(items)
            }
            b'{' => {
                self.i += 1;
                let mut items = Vec::new();
                self.ws();
                if self.peek()? == b'}' {
                    self.i += 1;
                } else {
                    loop {
                        self.ws();
                        let k = self.string()?;
                        self.ws();
                        if self.peek()? != b':' {
                            return None;
                        }
                        self.i += 1;
                        items.push((k, self.value(depth + 1)?));
                        self.ws();
                        match self.peek()? {
                            b',' => self.i += 1,
                            b'}' => {
                                self.i += 1;
                                break;
                            }
                            _ => return None,
                        }
                    }
                }
                J::Obj(items)
            }
            _ => self.number()?,
        };
        Some(r)
    }
}

fn ref_json_read(text: &str) -> Option<J> {
    let mut p = JP { b: text.as_bytes(), i: 0 };
    let v = p.value(0)?;
    p.ws();
    if p.i == p.b.len() { Some(v) } else { None }
}

fn is_int_token(t: &str) -> bool {
    !t.contains(['.', 'e', 'E'])
}

/// Expected data of a tera value against the reference reader's tree.
fn data_eq_ref(v: &Value, j: &J, collide: bool) -> bool {
    use tera::value::ValueKind as K;
    match (v.kind(), j) {
        (K::Undefined | K::None, J::Null) => true,
        (K::Bool, J::Bool(b)) => v.as_bool() == Some(*b),
        (K::U64 | K::U128, J::Num(t)) => is_int_token(t) && t.parse::<u128>().ok() == v.as_u128(),
        (K::I64 | K::I128, J::Num(t)) => is_int_token(t) && t.parse::<i128>().ok() == v.as_i128(),
        (K::F64, _) => {
            let x = v.as_f64().unwrap();
            match j {
                J::Null => !x.is_finite(),
                J::Num(t) => x.is_finite() && !is_int_token(t) && t.parse::<f64>().map(|y| y.to_bits()) == Ok(x.to_bits()),
                _ => false,
            }
        }
        (K::String, J::Str(s)) => v.as_str() == Some(s.as_str()),
        (K::Bytes, J::Arr(a)) => {
            let b = v.as_bytes().unwrap();
            b.len() == a.len() && b.iter().zip(a).all(|(x, y)| matches!(y, J::Num(t) if *t == x.to_string()))
        }
        (K::Array, J::Arr(a)) => {
            let xs = v.as_array().unwrap();
            xs.len() == a.len() && xs.iter().zip(a).all(|(x, y)| data_eq_ref(x, y, collide))
        }
        (K::Map, J::Obj(ms)) => {
            let m = v.as_map().unwrap();
            (collide || m.len() == ms.len())
                && m.iter().all(|(k, x)| {
                    let name = key_name(k);
                    ms.iter().any(|(n, y)| *n == name && data_eq_ref(x, y, collide))
                })
        }
        _ => false,
    }
}

fn ulp_close(a: f64, b: f64) -> bool {
    if a.to_bits() == b.to_bits() {
        return true;
    }
    if a.is_sign_negative() != b.is_sign_negative() {
        return false;
    }
    // observed: serde_json 1.0.149 reads "-9.786835129608953e-32" two ulps low
    let (x, y) = (a.to_bits() as i128, b.to_bits() as i128);
    (x - y).abs() <= 4
}

/// The same against serde_json's own reader; returns the path of the first difference. Without
/// the `float_roundtrip` feature serde_json's reader is not correctly rounded, so floats (and the
/// integers beyond 64 bits, which it reads as floats) are compared to within 4 ulps here — the
/// exact comparison is `data_eq_ref`. A JSON object in serde_json keeps one member per name.
fn diff_serde(v: &Value, j: &serde_json::Value, collide: bool, path: &str) -> Option<String> {
    use tera::value::ValueKind as K;
    let bad = |what: &str| Some(format!("{path}: {what}, read back {j}"));
    match v.kind() {
        K::Undefined | K::None => if j.is_null() { None } else { bad("expected null") },
        K::Bool => if j.as_bool() == v.as_bool() { None } else { bad("expected a bool") },
        K::U64 | K::U128 | K::I64 | K::I128 => {
            let ok = if let Some(u) = v.as_u128() {
                match u64::try_from(u) {
                    Ok(u) => j.as_u64() == Some(u),
                    Err(_) => j.is_number() && j.as_f64().map_or(false, |y| ulp_close(u as f64, y)),
                }
            } else {
                let z = v.as_i128().unwrap();
                match i64::try_from(z) {
                    Ok(i) => j.as_i64() == Some(i),
                    Err(_) => j.is_number() && j.as_f64().map_or(false, |y| ulp_close(z as f64, y)),
                }
            };
            if ok { None } else { bad("expected the integer") }
        }
        K::F64 => {
            let x = v.as_f64().unwrap();
            let ok = if !x.is_finite() { j.is_null() } else { j.is_f64() && j.as_f64().map_or(false, |y| ulp_close(x, y)) };
            if ok { None } else { bad(&format!("expected the float {x:e}")) }
        }
        K::String => if j.as_str() == v.as_str() { None } else { bad("expected the string") },
        K::Bytes => {
            let b = v.as_bytes().unwrap();
            let ok = j.as_array().map_or(false, |a| a.len() == b.len() && b.iter().zip(a).all(|(x, y)| y.as_u64() == Some(*x as u64)));
            if ok { None } else { bad("expected the bytes as an array of numbers") }
        }
        K::Array => {
            let xs = v.as_array().unwrap();
            match j.as_array() {
                Some(a) if a.len() == xs.len() => xs.iter().zip(a).enumerate().find_map(|(i, (x, y))| diff_serde(x, y, collide, &format!("{path}[{i}]"))),
                _ => bad("expected an array of the same length"),
            }
        }
        K::Map => {
            let m = v.as_map().unwrap();
            match j.as_object() {
                None => bad("expected an object"),
                Some(o) => {
                    if collide {
                        // one of the colliding entries survives in serde_json's object
                        if m.iter().all(|(k, _)| o.contains_key(&key_name(k))) { None } else { bad("a member name is missing") }
                    } else if o.len() != m.len() {
                        bad("expected an object with the same number of members")
                    } else {
                        m.iter().find_map(|(k, x)| {
                            let name = key_name(k);
                            match o.get(&name) {
                                None => Some(format!("{path}: member {name:?} is missing")),
                                Some(y) => diff_serde(x, y, collide, &format!("{path}.{name:?}")),
                            }
                        })
                    }
                }
            }
        }
        _ => bad("unknown kind"),
    }
}

fn json_nontrivial(v: &Value) -> bool {
    use tera::value::ValueKind as K;
    match v.kind() {
        K::Array | K::Map | K::Bytes => v.len().unwrap_or(0) >= 1,
        K::String => v.as_str().unwrap().chars().any(|c| c == '"' || c == '\\' || (c as u32) < 0x20),
        K::F64 => true,
        K::U64 | K::I64 | K::U128 | K::I128 => match v.as_i128() {
            Some(z) => i64::try_from(z).is_err(),
            None => true,
        },
        _ => false,
    }
}

fn top_tag(v: &Value) -> &'static str {
    use tera::value::ValueKind as K;
    match v.kind() {
        K::Undefined => "top:undefined",
        K::None => "top:none",
        K::Bool => "top:bool",
        K::U64 | K::I64 | K::U128 | K::I128 => "top:int",
        K::F64 => "top:float",
        K::String => "top:string",
        K::Array => "top:array",
        K::Map => "top:map",
        K::Bytes => "top:bytes",
        _ => "top:other",
    }
}

struct JsonCtx<'a> {
    tera: &'a Tera,
    json: Sink,
    jsontext: Sink,
    flip: bool,
    collisions: usize,
}

fn do_json(jc: &mut JsonCtx, meta: &mut Meta, cls: &mut Classes, v: &Value, pretty: bool) {
    let mut ctx = Context::new();
    ctx.insert_value("v", v.clone());
    ctx.insert_value("p", Value::from(pretty));
    // two spellings of the compact layout, alternating
    jc.flip = !jc.flip;
    let expr = if !pretty && jc.flip { "v | json_encode" } else { "v | json_encode(pretty=p)" };
    let r = eval_str(jc.tera, expr, &ctx);
    cls.note("json_encode", &r);
    let collide = keys_collide(v);
    let desc = json!({"family": "json", "value": json_value(v), "pretty": pretty, "expr": expr, "impl": jstr(&r)});
    report_panic(meta, &r, &desc);
    meta.oracle_checks += 3;
    match &r {
        Outcome::Ok(text) => {
            match serde_json::from_str::<serde_json::Value>(text) {
                Err(e) => meta.oracle_fail(&format!("json_encode output is not valid JSON (serde_json: {e})"), None, desc.clone()),
                Ok(j) => {
                    if let Some(d) = diff_serde(v, &j, collide, "$") {
                        meta.oracle_fail(&format!("json_encode output read back with serde_json is not the value's data: {d}"), None, desc.clone());
                    }
                }
            }
            match ref_json_read(text) {
                None => meta.oracle_fail("json_encode output is rejected by the strict RFC 8259 reference reader", None, desc.clone()),
                Some(j) => {
                    if !data_eq_ref(v, &j, collide) {
                        meta.oracle_fail("json_encode output read back with the reference reader is not exactly the value's data", None, desc.clone());
                    }
                }
            }
        }
        Outcome::Err(..) => meta.oracle_fail("json_encode failed", None, desc.clone()),
        Outcome::Panic(_) => {}
    }
    if collide {
        jc.collisions += 1;
        meta.oracle_fail(
            "json_encode writes duplicate member names: map keys collide after stringification",
            Some("json:map-keys-collide-after-stringify"),
            desc,
        );
        return;
    }
    let ft: Vec<String> = finite_floats(v)
        .iter()
        .map(|x| format!("({}, {})", gal_f64(*x), gal_bytes(serde_json::to_string(x).unwrap().as_bytes())))
        .collect();
    let imp = gal_res(&r, |t| gal_bytes(t.as_bytes()));
    let mk = |val: String| {
        format!("{{| j_v := {}; j_pretty := {}; j_ft := {}; j_impl := {} |}}", val, gal_bool(pretty), gal_list(&ft), imp)
    };
    let mut tags = vec![top_tag(v), if pretty { "pretty" } else { "compact" }];
    if has_nonfinite(v) {
        tags.push("nonfinite");
    }
    let nt = json_nontrivial(v);
    jc.json.push(mk(gal_value(v)), desc.clone(), nt, None, &tags);
    jc.jsontext.push(mk(gal_value_iter(v)), desc, nt, None, &tags);
}

fn special_strings() -> Vec<String> {
    let mut out: Vec<String> = pools::string_pool().iter().map(|s| s.to_string()).collect();
    for c in 0u32..0x20 {
        out.push(char::from_u32(c).unwrap().to_string());
    }
    out.push((0u32..0x20).map(|c| char::from_u32(c).unwrap()).collect());
    for s in ["\"", "\\", "/", "\u{7f}", "\u{2028}", "\u{2029}", "\u{10000}😀\u{10ffff}", "a\"b", "\\u0041", "</script>",
        "\u{0}x\u{0}", "tab\there", "é\"\\\u{1}\u{1f} \u{80}\u{7ff}\u{800}\u{ffff}"] {
        out.push(s.to_string());
    }
    out
}

fn nice_floats() -> Vec<f64> {
    vec![0.1, 0.2, 0.3, 1e21, 1e-7, 123456.789, 1e16, 1.0e15, 5e-324, 2.2250738585072014e-308, 1.7976931348623157e308,
        3.141592653589793, 100.0, 1e5, 0.000001, 1234567890123456789.0, -2.5e-10, 4.35, 0.30000000000000004]
}

struct Pools {
    ints: Vec<Value>,
    floats: Vec<f64>,
    strs: Vec<String>,
}

fn rand_scalar(rng: &mut Rng, p: &Pools) -> Value {
    match rng.below(24) {
        0 => Value::undefined(),
        1 => Value::none(),
        2 => Value::from(rng.chance(1, 2)),
        3..=6 => rng.pick(&p.ints).clone(),
        7 => Value::from(rng.range(-1000, 1000)),
        8 => Value::from(rng.next()),
        9..=11 => Value::from(*rng.pick(&p.floats)),
        12 => Value::from(f64::from_bits(rng.next())),
        13 => Value::from(rng.range(-100000, 100000) as f64 / [1.0, 10.0, 100.0, 1000.0, 1e6][rng.below(5)]),
        14..=16 => Value::from(rng.pick(&p.strs).as_str()),
        17..=19 => Value::from(rand_string(rng, 40)),
        20 => Value::safe_string(rng.pick(&p.strs).as_str()),
        21 => Value::bytes((0..rng.below(6)).map(|_| rng.next() as u8).collect::<Vec<u8>>()),
        22 => Value::from(rng.next() as i64),
        _ => Value::from(rand_string(rng, 6)),
    }
}

const STATIC_KEYS: [&str; 8] = ["", "a", "key", "k\"q", "b\\s", "c\nl", "é日", "0"];

fn rand_key(rng: &mut Rng, p: &Pools) -> Key<'static> {
    match rng.below(14) {
        0 => Key::Bool(rng.chance(1, 2)),
        1..=2 => Key::U64(if rng.chance(1, 3) { rng.next() } else { rng.below(20) as u64 }),
        3 => Key::I64(-(rng.below(20) as i64) - 1),
        4 => Key::I64(if rng.chance(1, 2) { i64::MIN } else { rng.next() as i64 }),
        5 => Key::U128(u64::MAX as u128 + 1 + (rng.next() as u128) * (rng.below(3) as u128)),
        6 => Key::I128(i64::MIN as i128 - 1 - (rng.next() as i128) * (rng.below(3) as i128)),
        7 => Key::I128(rng.range(-5, 5) as i128),
        8 => Key::U128(rng.below(10) as u128),
        9..=10 => Key::Str(*rng.pick(&STATIC_KEYS)),
        11 => Key::from(rng.pick(&p.strs).clone()),
        12 => Key::from(rand_string(rng, 12)),
        _ => Key::from(format!("k{}", rng.below(50))),
    }
}

fn gen_value(rng: &mut Rng, p: &Pools, depth: usize) -> Value {
    if depth == 0 || rng.chance(2, 5) {
        return rand_scalar(rng, p);
    }
    gen_container(rng, p, depth)
}

fn gen_container(rng: &mut Rng, p: &Pools, depth: usize) -> Value {
    let width = rng.below(6);
    if rng.chance(1, 2) {
        Value::from((0..width).map(|_| gen_value(rng, p, depth - 1)).collect::<Vec<Value>>())
    } else {
        let mut m = Map::new();
        let mut names = HashSet::new();
        for _ in 0..width {
            let k = rand_key(rng, p);
            // never a second key with the same JSON member name (that class is generated deliberately)
            if names.insert(key_name(&k)) {
                m.insert(k, gen_value(rng, p, depth - 1));
            } else {
                let _ = gen_value(rng, p, depth - 1);
            }
        }
        Value::from(m)
    }
}

fn map_of(entries: Vec<(Key<'static>, Value)>) -> Value {
    let mut m = Map::new();
    for (k, v) in entries {
        m.insert(k, v);
    }
    Value::from(m)
}

fn fixed_json_values() -> Vec<Value> {
    let mut out = Vec::new();
    out.push(Value::from(Vec::<Value>::new()));
    out.push(Value::from(vec![Value::from(Vec::<Value>::new())]));
    out.push(Value::from(vec![Value::undefined()]));
    out.push(Value::from(vec![Value::undefined(), Value::none(), Value::from(true), Value::from(1u64), Value::from(-1i64),
        Value::from(1.5f64), Value::from("s"), Value::safe_string("<b>"), Value::bytes(vec![0u8, 255, 10]),
        Value::from(f64::NAN), Value::from(u128::MAX), Value::from(i128::MIN)]));
    out.push(Value::from(Map::new()));
    out.push(map_of(vec![("a".into(), Value::from(Map::new()))]));
    out.push(map_of(vec![("u".into(), Value::undefined()), ("n".into(), Value::none())]));
    out.push(map_of(vec![
        (Key::Bool(true), Value::from(1u64)),
        (Key::Bool(false), Value::from(0u64)),
        (Key::U64(7), Value::from("u64")),
        (Key::I64(-7), Value::from("i64")),
        (Key::U128(u64::MAX as u128 + 1), Value::from("u128")),
        (Key::I128(i64::MIN as i128 - 1), Value::from("i128")),
        (Key::Str("q\"b\\c\n\u{1}é"), Value::from("str")),
        (Key::from(String::from("日本😀")), Value::from("string")),
        (Key::Str(""), Value::from("empty")),
    ]));
    out.push(map_of(vec![(Key::U64(u64::MAX), Value::none()), (Key::I64(i64::MIN), Value::none()),
        (Key::U128(u128::MAX), Value::none()), (Key::I128(i128::MIN), Value::none())]));
    out.push(map_of(vec![("a".into(), Value::from(vec![map_of(vec![("b".into(), Value::from(vec![Value::from(1u64), Value::from(2.5f64)]))])]))]));
    out.push(Value::bytes(Vec::<u8>::new()));
    out.push(Value::bytes(vec![0u8, 255, 10]));
    out.push(Value::bytes((0u8..=255).collect::<Vec<u8>>()));
    out.push(Value::from(vec![Value::from(0.0f64), Value::from(-0.0f64)]));
    out.push(Value::from(vec![Value::from(f64::INFINITY), Value::from(f64::NEG_INFINITY), Value::from(f64::NAN)]));
    // deep chains
    let mut a = Value::from(Vec::<Value>::new());
    let mut m = Value::from(1u64);
    for _ in 0..40 {
        a = Value::from(vec![a]);
        m = map_of(vec![("k".into(), m)]);
    }
    out.push(a);
    out.push(m);
    out
}

/// The deliberate key-collision candidates, each run in ONE layout: int vs str, bool vs str,
/// a negative int vs str below an array, and u64 vs i128 of one value (equal keys in tera's Map,
/// so a single entry and a normal case; a collision only if tera ever made them distinct).
fn collision_candidates() -> Vec<(Value, bool)> {
    vec![
        (map_of(vec![(Key::U64(1), Value::from("int")), (Key::Str("1"), Value::from("str"))]), false),
        (map_of(vec![(Key::Bool(true), Value::from("bool")), (Key::Str("true"), Value::from("str"))]), true),
        (Value::from(vec![Value::from(0u64), map_of(vec![(Key::I64(-1), Value::from("int")), (Key::from(String::from("-1")), Value::from("str"))])]), false),
        (map_of(vec![(Key::U64(7), Value::from("u64")), (Key::I128(7), Value::from("i128"))]), true),
    ]
}

// ---------------------------------------------------------------- family slug

fn do_slug(sink: &mut Sink, meta: &mut Meta, cls: &mut Classes, tera: &Tera, s: &str) {
    let mut ctx = Context::new();
    ctx.insert_value("s", Value::from(s));
    let r = eval_str(tera, "s | slug", &ctx);
    cls.note("slug", &r);
    let desc = json!({"family": "slug", "s": s, "impl": jstr(&r)});
    report_panic(meta, &r, &desc);
    meta.oracle_checks += 1;
    match &r {
        Outcome::Ok(t) => {
            let ok = t.chars().all(|c| matches!(c, 'a'..='z' | '0'..='9' | '-')) && !t.starts_with('-') && !t.ends_with('-') && !t.contains("--");
            if !ok {
                meta.oracle_fail("slug output is not [a-z0-9]+(-[a-z0-9]+)*", None, desc.clone());
            }
        }
        Outcome::Err(..) => meta.oracle_fail("slug failed", None, desc.clone()),
        Outcome::Panic(_) => {}
    }
    let mut seen = HashSet::new();
    let mut deu = Vec::new();
    for c in s.chars() {
        if !c.is_ascii() && seen.insert(c) {
            let d = match deunicode::deunicode_char(c) {
                Some(t) => format!("Some {}", gal_bytes(t.as_bytes())),
                None => "None".to_string(),
            };
            deu.push(format!("({}%N, {})", c as u32, d));
        }
    }
    let g = format!("{{| g_s := {}; g_deu := {}; g_impl := {} |}}", gal_str(s), gal_list(&deu), gal_res(&r, |t| gal_str(t)));
    let plain = |c: char| matches!(c, 'a'..='z' | '0'..='9');
    let nontrivial = s.chars().any(plain) && s.chars().any(|c| !plain(c));
    let mut tags = vec![if s.is_ascii() { "ascii" } else { "nonascii" }];
    if matches!(&r, Outcome::Ok(t) if t.is_empty()) {
        tags.push("empty-output");
    }
    sink.push(g, desc, nontrivial, None, &tags);
}

fn rand_slug_input(rng: &mut Rng) -> String {
    const SEPS: [char; 5] = [' ', '-', '_', '\t', '.'];
    const NONASCII: [char; 9] = ['Æ', 'ú', 'ű', 'ß', '日', '本', 'Ж', '😀', 'é'];
    let punct = ascii_punct();
    let mut s = String::new();
    if rng.chance(1, 4) {
        for _ in 0..=rng.below(3) {
            s.push(*rng.pick(&SEPS));
        }
    }
    for _ in 0..rng.below(14) {
        match rng.below(13) {
            0..=3 => s.push((b'a' + rng.below(26) as u8) as char),
            4..=5 => s.push((b'A' + rng.below(26) as u8) as char),
            6 => s.push((b'0' + rng.below(10) as u8) as char),
            7 => s.push(' '),
            8 => s.push(if rng.chance(1, 2) { '-' } else { '_' }),
            9 => s.push(*rng.pick(&punct)),
            10..=11 => s.push(*rng.pick(&NONASCII)),
            _ => {
                let c = *rng.pick(&SEPS);
                for _ in 0..2 + rng.below(2) {
                    s.push(c);
                }
            }
        }
    }
    if rng.chance(1, 4) {
        for _ in 0..=rng.below(3) {
            s.push(*rng.pick(&SEPS));
        }
    }
    s
}

fn rand_wide_char(rng: &mut Rng) -> char {
    loop {
        let cp = if rng.chance(2, 3) { rng.range(0x800, 0xffff) as u32 } else { rng.range(0x10000, 0x10ffff) as u32 };
        if let Some(c) = char::from_u32(cp) {
            return c;
        }
    }
}

// ---------------------------------------------------------------- replay

fn replay(path: &std::path::Path) {
    let text = std::fs::read_to_string(path).expect("replay file");
    let j: serde_json::Value = serde_json::from_str(&text).expect("replay json");
    let case = j.get("case").unwrap_or(&j);
    let tera = make_tera();
    let fam = case.get("family").and_then(|f| f.as_str()).or_else(|| j.get("family").and_then(|f| f.as_str())).unwrap_or("");
    let s = case.get("s").and_then(|s| s.as_str());
    match (fam, s) {
        ("json", _) | ("jsontext", _) => println!("replay of json cases: see the recorded value"),
        ("encrl", _) => {
            let c = case.get("s_compact").expect("s_compact");
            let g = |k: &str| c.get(k).and_then(|x| x.as_str()).unwrap_or("").to_string();
            let c = Compact { unit: g("unit"), reps: c.get("reps").and_then(|x| x.as_u64()).unwrap_or(0) as usize, tail: g("tail") };
            let s = c.expand();
            let r = run_enc(&tera, &s);
            println!("{}", serde_json::to_string_pretty(&enc_desc_compact(&c, s.len(), &r)).unwrap());
        }
        ("enc", Some(s)) => {
            let r = run_enc(&tera, s);
            println!("{}", serde_json::to_string_pretty(&enc_desc(s, &r)).unwrap());
        }
        ("dec", Some(s)) => {
            let u = case.get("url_safe").and_then(|b| b.as_bool()).unwrap_or(false);
            let r = run_dec(&tera, u, s);
            println!("{}", json!({"family": "dec", "s": s, "url_safe": u, "impl": jstr(&r), "reference": ref_b64_decode(s, u)}));
        }
        ("slug", Some(s)) => {
            let mut ctx = Context::new();
            ctx.insert_value("s", Value::from(s));
            let r = eval_str(&tera, "s | slug", &ctx);
            println!("{}", json!({"family": "slug", "s": s, "impl": jstr(&r)}));
        }
        _ => println!("replay: no recognisable case in {}", path.display()),
    }
}

// ---------------------------------------------------------------- main

fn main() {
    let args = parse_args();
    silence_panics();
    if let Some(p) = &args.replay {
        replay(p);
        return;
    }
    let tera = make_tera();
    let mut rng = Rng::new(args.seed);
    let thorough = args.tier == "thorough";
    let mut meta = Meta::default();
    let mut cls = Classes::default();

    let mut enc = Sink::new(&args.out, "enc", HDR, "check_enc");
    let mut encrl = Sink::new(&args.out, "encrl", HDR, "check_encrl");
    encrl.shard_cap_set(if thorough { 24 } else { 12 });
    let mut dec = Sink::new(&args.out, "dec", HDR, "check_dec");
    let mut slug = Sink::new(&args.out, "slug", HDR, "check_slug");
    let mut jc = JsonCtx {
        tera: &tera,
        json: Sink::new(&args.out, "json", HDR, "check_json"),
        jsontext: Sink::new(&args.out, "jsontext", HDR, "check_jsontext"),
        flip: false,
        collisions: 0,
    };

    let common = common_strings();

    // ------------------------------------------------------------ enc
    let e = exhaustive_le2();
    let n_e = e.len();
    let (mut only_eval, mut only_nt) = (0usize, 0usize);
    for s in &e {
        let to_sink = if thorough {
            true
        } else {
            let sampled = rng.chance(600, n_e as u64);
            // all strings of at most one byte, and the 2-byte chars at the edges of each 64-block
            let keep = s.len() <= 1
                || (s.chars().count() == 1 && {
                    let c = s.chars().next().unwrap() as u32;
                    c % 64 == 0 || c % 64 == 63
                });
            sampled || keep
        };
        let nt = do_enc(&mut enc, &mut meta, &mut cls, &tera, s, to_sink);
        if !to_sink {
            only_eval += 1;
            if nt {
                only_nt += 1;
            }
        }
    }
    for s in &common {
        do_enc(&mut enc, &mut meta, &mut cls, &tera, s, true);
    }
    let (n_rand, n_long) = if thorough { (5000, 20) } else { (400, 4) };
    for k in 0..n_rand {
        let s = rand_string(&mut rng, 64);
        do_enc(&mut enc, &mut meta, &mut cls, &tera, &s, true);
        // the long strings are spread over the shards (they dominate the Coq time of a shard)
        if k % (n_rand / n_long) == 0 {
            let n = 65 + rng.below(1936);
            let s = rand_string_len(&mut rng, n);
            do_enc(&mut enc, &mut meta, &mut cls, &tera, &s, true);
        }
    }

    // --- '%' in the input; already-encoded text; the filters' own output fed back in
    {
        let pcts = pct_strings();
        for s in &pcts {
            do_enc(&mut enc, &mut meta, &mut cls, &tera, s, true);
        }
        let feed: Vec<&String> = if thorough { common.iter().chain(pcts.iter()).collect() } else { common.iter().collect() };
        for s in feed {
            let mut ctx = Context::new();
            ctx.insert_value("s", Value::from(s.as_str()));
            for f in ["s | urlencode", "s | urlencode_strict", "s | urlencode | urlencode_strict"] {
                if let Outcome::Ok(t) = eval_str(&tera, f, &ctx) {
                    do_enc(&mut enc, &mut meta, &mut cls, &tera, &t, true);
                }
            }
        }
        // "%" followed by every pair of ASCII bytes (exhaustive, oracle side), alone and embedded
        let mut n = 0usize;
        for a in 0..128u8 {
            for b in 0..128u8 {
                let s = format!("%{}{}", a as char, b as char);
                do_enc(&mut enc, &mut meta, &mut cls, &tera, &s, false);
                n += 1;
                if (a as char).is_ascii_hexdigit() && (b as char).is_ascii_hexdigit() {
                    let s = format!("k=%{}{}&%", a as char, b as char);
                    do_enc(&mut enc, &mut meta, &mut cls, &tera, &s, false);
                    n += 1;
                }
            }
        }
        only_eval += n;
        only_nt += n;
        meta.extra.insert("exhaustive_pct_plus_two_ascii_bytes".into(), json!(128 * 128));
    }

    // --- lengths around every plausible block size, in run-length form
    {
        // model + oracles
        let (ks, cap_ascii, cap_multi): (&[usize], usize, usize) =
            if thorough { (&[1, 2, 3, 5], 66_000, 41_000) } else { (&[1, 2], 66_000, 16_500) };
        for n in lengths_around(ks, 3, cap_ascii) {
            if !thorough && n > 17_000 && ![65535, 65536, 65537, 65539].contains(&n) {
                continue;
            }
            do_enc_long(Some(&mut encrl), &mut meta, &mut cls, &tera, &Compact::of_len(ASCII_UNIT, n));
            if n <= cap_multi {
                do_enc_long(Some(&mut encrl), &mut meta, &mut cls, &tera, &Compact::of_len(MULTI_UNIT, n));
            }
        }
        if thorough {
            do_enc_long(Some(&mut encrl), &mut meta, &mut cls, &tera, &Compact::of_len(ASCII_UNIT, 100_000));
            do_enc_long(Some(&mut encrl), &mut meta, &mut cls, &tera, &Compact { unit: "\u{e9}".into(), reps: 20_000, tail: "z".into() });
        }
        // oracles only: every length 0..=520, +-4 around k*block for k = 1..8, and a few 100 KB inputs
        let mut lens: Vec<usize> = (0..=520).collect();
        lens.extend(lengths_around(&[1, 2, 3, 4, 5, 6, 7, 8], 4, 270_000));
        lens.extend([100_000, 102_400, 131_073, 200_001, 262_145]);
        lens.sort();
        lens.dedup();
        let mut n = 0usize;
        for l in &lens {
            for unit in [ASCII_UNIT, MULTI_UNIT] {
                do_enc_long(None, &mut meta, &mut cls, &tera, &Compact::of_len(unit, *l));
                n += 1;
            }
        }
        for unit in ["a", "\u{e9}", "\u{1f600}", "?>", "%41"] {
            for reps in [4096, 4097, 5000, 40_000] {
                do_enc_long(None, &mut meta, &mut cls, &tera, &Compact { unit: unit.into(), reps, tail: String::new() });
                n += 1;
            }
        }
        only_eval += n;
        only_nt += n;
        meta.extra.insert("block_size_lengths_oracle_only".into(), json!(n));
        meta.extra.insert("block_sizes".into(), json!(BLOCKS));
    }

    // ------------------------------------------------------------ dec
    {
        let small: Vec<char> = "ABZaz09+/-_=! \né".chars().collect();
        let mut texts: Vec<String> = vec![String::new()];
        for a in &small {
            texts.push(a.to_string());
            for b in &small {
                texts.push(format!("{a}{b}"));
            }
        }
        texts.extend(dec_mutations(thorough));
        for t in &texts {
            for u in [false, true] {
                do_dec(&mut dec, &mut meta, &mut cls, &tera, u, t);
            }
        }
        let alpha: Vec<char> = ('A'..='Z').chain('a'..='z').chain('0'..='9').chain("+/-_=".chars()).collect();
        let n_dec = if thorough { 4000 } else { 300 };
        for k in 0..n_dec {
            let u = rng.chance(1, 2);
            if k % 3 == 0 {
                // derived from a canonical encoding of a string: padding kept / partly / fully
                // stripped, sometimes one symbol changed (accepting and lenient-padding cases)
                let src = rand_string(&mut rng, 5);
                let mut t = ref_b64_encode_padded(src.as_bytes(), u);
                match rng.below(4) {
                    0 => {}
                    1 => t = t.trim_end_matches('=').to_string(),
                    2 => if t.ends_with('=') { t.pop(); },
                    _ => if rng.chance(1, 2) { t.push('=') },
                }
                if rng.chance(1, 4) && !t.is_empty() {
                    let mut c: Vec<char> = t.chars().collect();
                    let at = rng.below(c.len());
                    c[at] = b64_sym_char(rng.below(64) as u32, u);
                    t = c.into_iter().collect();
                }
                do_dec(&mut dec, &mut meta, &mut cls, &tera, u, &t);
                continue;
            }
            let n = rng.below(25);
            let mut c: Vec<char> = Vec::with_capacity(n + 3);
            for _ in 0..n {
                // mostly symbols of the selected alphabet so that valid texts are common
                let ch = *rng.pick(&alpha);
                let ch = match ch {
                    '+' | '-' if rng.chance(3, 4) => if u { '-' } else { '+' },
                    '/' | '_' if rng.chance(3, 4) => if u { '_' } else { '/' },
                    '=' if rng.chance(1, 2) => 'A',
                    x => x,
                };
                c.push(ch);
            }
            if rng.chance(1, 3) {
                for _ in 0..rng.below(3) {
                    c.push('=');
                }
            }
            if rng.chance(1, 6) {
                let f = *rng.pick(&['!', ' ', '\n', 'é', '\u{0}']);
                let at = rng.below(c.len() + 1);
                c.insert(at, f);
            }
            c.truncate(24);
            let s: String = c.into_iter().collect();
            do_dec(&mut dec, &mut meta, &mut cls, &tera, u, &s);
        }
    }

    // ------------------------------------------------------------ json / jsontext
    {
        let pools = Pools {
            ints: pools::int_values(),
            floats: pools::float_pool().into_iter().chain(nice_floats()).collect(),
            strs: special_strings(),
        };
        let mut values: Vec<Value> = Vec::new();
        values.push(Value::none());
        values.push(Value::from(true));
        values.push(Value::from(false));
        values.extend(pools.ints.iter().cloned());
        values.extend(pools.floats.iter().map(|f| Value::from(*f)));
        values.extend(pools.strs.iter().map(|s| Value::from(s.as_str())));
        values.push(Value::safe_string("<b>\"safe\"</b>"));
        values.push(Value::safe_string(""));
        values.extend(fixed_json_values());
        for _ in 0..3 {
            let n = 200 + rng.below(1801);
            values.push(Value::from(rand_string_len(&mut rng, n)));
        }
        // random values until `target` distinct ones (bounded number of draws)
        let target = if thorough { 3000 } else { 450 };
        let mut seen: HashSet<String> = values.iter().map(gal_value).collect();
        for _ in 0..4 * target {
            if seen.len() >= target {
                break;
            }
            let depth = 1 + rng.below(6);
            let v = if rng.chance(1, 8) { rand_scalar(&mut rng, &pools) } else { gen_container(&mut rng, &pools, depth) };
            if v.is_undefined() {
                continue; // an undefined top-level value is an unbound variable, not a value
            }
            if seen.insert(gal_value(&v)) {
                values.push(v);
            }
        }
        for v in &values {
            do_json(&mut jc, &mut meta, &mut cls, v, false);
            do_json(&mut jc, &mut meta, &mut cls, v, true);
        }
        // the deliberate collision candidates (equal keys are one entry: pushed as normal cases)
        let cands = collision_candidates();
        for (v, pretty) in &cands {
            do_json(&mut jc, &mut meta, &mut cls, v, *pretty);
        }
        meta.extra.insert("key_u64_7_equals_key_i128_7".into(), json!(cands[3].0.as_map().map(|m| m.len()) == Some(1)));
    }

    // ------------------------------------------------------------ slug
    {
        for c in 0u8..128 {
            do_slug(&mut slug, &mut meta, &mut cls, &tera, &(c as char).to_string());
            do_slug(&mut slug, &mut meta, &mut cls, &tera, &format!("x{}y", c as char));
        }
        for s in &common {
            do_slug(&mut slug, &mut meta, &mut cls, &tera, s);
        }
        if thorough {
            for cp in 0x80u32..=0x7ff {
                do_slug(&mut slug, &mut meta, &mut cls, &tera, &char::from_u32(cp).unwrap().to_string());
            }
        } else {
            for _ in 0..200 {
                let cp = rng.range(0x80, 0x7ff) as u32;
                do_slug(&mut slug, &mut meta, &mut cls, &tera, &char::from_u32(cp).unwrap().to_string());
            }
        }
        let (n_wide, n_mix, n_uni) = if thorough { (2000, 2500, 1000) } else { (200, 200, 80) };
        for _ in 0..n_wide {
            let c = rand_wide_char(&mut rng);
            do_slug(&mut slug, &mut meta, &mut cls, &tera, &format!("a{c}b"));
        }
        for _ in 0..n_mix {
            let s = rand_slug_input(&mut rng);
            do_slug(&mut slug, &mut meta, &mut cls, &tera, &s);
        }
        for _ in 0..n_uni {
            let s = rand_string(&mut rng, 64);
            do_slug(&mut slug, &mut meta, &mut cls, &tera, &s);
        }
    }

    meta.extra.insert("exhaustive_le2_strings".into(), json!(n_e));
    if thorough {
        meta.extra.insert("exhaustive_le2_in_model".into(), json!(true));
    }
    meta.extra.insert("oracle_only_evaluations".into(), json!(only_eval));
    meta.extra.insert("oracle_only_nontrivial".into(), json!(only_nt));
    meta.extra.insert("json_key_collision_cases".into(), json!(jc.collisions));
    meta.extra.insert("error_classes".into(), json!(cls.0));
    meta.families.push(enc.finish());
    meta.families.push(encrl.finish());
    meta.families.push(dec.finish());
    meta.families.push(jc.json.finish());
    meta.families.push(jc.jsontext.finish());
    meta.families.push(slug.finish());
    meta.write(&args.out);
}
