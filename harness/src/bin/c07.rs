//! C07 — rendering accepted templates never panics; references checked at add time; stacks empty.
//! Families (model side, evaluated by coqc):
//!   chk : every real chunk (main / block / component), before AND after Chunk::optimize, of every
//!         corpus template and every generated template  ->  Model.StackCheck.check_chunk = true
//!   wld : every accepted template set as a finalized world (chunks, block lineage, component
//!         table) + the engine's registry names         ->  Model.StackCheck.world_checked = true
//! Oracles (implementation side):
//!   H1  : the harness is built with --cfg tera_verif: the engine asserts empty stacks after every
//!         render / include / component; every accepted set is rendered whole, by block and by
//!         component under contexts of every value kind; the operator / filter / test / function
//!         matrices put every kind at every operand position. Outcome must be text (valid UTF-8)
//!         or an error value.
//!   UNK : an unknown filter/test/function/component/include/extends name at every syntactic site
//!         must be rejected by add_raw_templates (and render_str); an accepted one must not fail
//!         at render time with "not registered / not found" or a panic.
use serde_json::json;
use tera::verif::{chunk_listings, component_listings, template_listing, Listing};
use tera::{Context, Delimiters, Map, Tera, Value};
use tvh::galvm::*;
use tvh::*;

const FILTERS: [&str; 36] = [
    "safe", "default", "upper", "lower", "wordcount", "escape_html", "escape_xml", "newlines_to_br",
    "pluralize", "trim", "trim_start", "trim_end", "replace", "capitalize", "title", "truncate",
    "indent", "str", "int", "float", "length", "reverse", "split", "abs", "round", "first", "last",
    "nth", "join", "sort", "unique", "get", "values", "keys", "pairs", "group_by",
];
const TESTS: [&str; 17] = [
    "string", "number", "map", "bool", "array", "integer", "float", "none", "iterable", "defined",
    "undefined", "odd", "even", "divisible_by", "starting_with", "ending_with", "containing",
];
const FUNCTIONS: [&str; 2] = ["range", "throw"];
const KWARGS: [&str; 24] = [
    "attribute", "base", "blank", "boolean", "default", "divisor", "end", "first", "from", "key",
    "length", "message", "method", "n", "pat", "plural", "precision", "sep", "singular", "start",
    "step_by", "to", "value", "width",
];

// ------------------------------------------------------------------ values of every kind

fn m(entries: Vec<(&str, Value)>) -> Value {
    let mut mm = Map::new();
    for (k, v) in entries {
        mm.insert(k.to_string().into(), v);
    }
    Value::from(mm)
}

fn nested(depth: usize, array: bool) -> Value {
    let mut v = Value::from("leaf<");
    for _ in 0..depth {
        v = if array { Value::from(vec![v]) } else { m(vec![("x", v)]) };
    }
    v
}

/// (label, value): every kind, the extremes the property names, Undefined inside containers,
/// nesting depth 64, invalid UTF-8 bytes.
fn kinds() -> Vec<(String, Value)> {
    let mut out: Vec<(String, Value)> = Vec::new();
    let mut p = |l: &str, v: Value| out.push((l.to_string(), v));
    p("undefined", Value::undefined());
    p("none", Value::none());
    p("true", Value::from(true));
    p("false", Value::from(false));
    p("u64:0", Value::from(0u64));
    p("u64:3", Value::from(3u64));
    p("u64:max", Value::from(u64::MAX));
    p("i64:-3", Value::from(-3i64));
    p("i64:min", Value::from(i64::MIN));
    p("u128:max", Value::from(u128::MAX));
    p("i128:min", Value::from(i128::MIN));
    p("i128:max", Value::from(i128::MAX));
    p("i128:-1", Value::from(-1i128));
    p("f64:1.5", Value::from(1.5f64));
    p("f64:-0", Value::from(-0.0f64));
    p("f64:nan", Value::from(f64::NAN));
    p("f64:inf", Value::from(f64::INFINITY));
    p("f64:-inf", Value::from(f64::NEG_INFINITY));
    p("f64:max", Value::from(f64::MAX));
    p("str:empty", Value::from(""));
    p("str:plain", Value::from("abc def"));
    p("str:special", Value::from("&<>\"'/% {{ é日😀a\u{0301}"));
    p("str:num", Value::from("12"));
    p("str:safe", Value::safe_string("<b>é</b>"));
    p("bytes:utf8", Value::bytes(b"ab<".to_vec()));
    p("bytes:invalid", Value::bytes(vec![0xff, 0xfe, 0x61, 0xc3]));
    p("bytes:empty", Value::bytes(Vec::<u8>::new()));
    p("arr:empty", Value::from(Vec::<Value>::new()));
    p("arr:ints", Value::from(vec![Value::from(3u64), Value::from(1u64), Value::from(2u64)]));
    p("arr:mixed", Value::from(vec![Value::from(1u64), Value::from("x"), Value::none(), Value::from(1.5f64), Value::from(vec![Value::from(1u64)])]));
    p("arr:undef-inside", Value::from(vec![Value::undefined(), Value::from(1u64), Value::undefined()]));
    p("arr:maps", Value::from(vec![m(vec![("x", Value::from(1u64)), ("y", Value::from("k"))]), m(vec![("x", Value::from(2u64))]), m(vec![("y", Value::none())])]));
    p("arr:deep64", nested(64, true));
    p("map:empty", Value::from(Map::new()));
    p("map:xyz", m(vec![("x", Value::from(1u64)), ("y", Value::from("<y>")), ("z", m(vec![("x", Value::from(vec![Value::from(1u64), Value::from(2u64)]))]))]));
    p("map:undef-inside", m(vec![("x", Value::undefined()), ("y", m(vec![("z", Value::undefined())]))]));
    p("map:deep64", nested(64, false));
    {
        let mut mm = Map::new();
        mm.insert(tera::value::Key::U64(1), Value::from("one"));
        mm.insert(tera::value::Key::Bool(true), Value::from("yes"));
        mm.insert("s".into(), Value::from(f64::NAN));
        p("map:mixed-keys", Value::from(mm));
    }
    out
}

/// the D2 trigger: `sort` of >= 21 arrays whose elements are themselves incomparable containers
fn sort_trigger() -> Value {
    let mut v = Vec::new();
    for i in 0..24u64 {
        let inner = match i % 3 {
            0 => vec![Value::from(1u64), Value::from("a")],
            1 => vec![Value::from(1u64), Value::from(true)],
            _ => vec![Value::from(1u64), Value::from("b")],
        };
        v.push(Value::from(inner));
    }
    Value::from(v)
}

fn ctx_of(bind: &[(&str, &Value)]) -> Context {
    let mut c = Context::new();
    for (k, v) in bind {
        if !v.is_undefined() {
            c.insert_value(k.to_string(), (*v).clone());
        }
    }
    c
}

// ------------------------------------------------------------------ generator of sets

struct G<'a> {
    rng: &'a mut Rng,
    inc_ok: bool,
}

impl<'a> G<'a> {
    fn var(&mut self) -> String {
        gen_tpl::path(self.rng)
    }
    fn expr(&mut self, d: u32) -> String {
        if d == 0 {
            return gen_tpl::atom(self.rng);
        }
        match self.rng.below(26) {
            0..=5 => gen_tpl::expr(self.rng, d),
            6 => format!("{} + {}", self.expr(d - 1), self.rng.range(0, 3)),
            7 => format!("-{}", gen_tpl::atom(self.rng)),
            8 => format!("{}[{}:{}]", self.var(), self.rng.range(-2, 2), self.rng.range(-1, 3)),
            9 => format!("{} | length", self.var()),
            10 => format!("<tag v={{ {} }}/>", self.expr(d - 1)),
            11 => format!("<card title={{ {} }} {{...c}}/>", self.expr(d - 1)),
            12 => format!("[...{}, {}]", self.var(), self.expr(d - 1)),
            13 => format!("{{...{}, \"k\": {} }}", self.var(), self.expr(d - 1)),
            14 => format!("{{\"k\": {}, \"j\": {} }}", self.expr(d - 1), self.var()),
            15 => format!("[[j for j in i.x if j] for i in {}]", self.var()),
            16 => format!("[{} for k, i in {} if {}]", self.expr(d - 1), self.var(), self.expr(d - 1)),
            17 => format!("[i ~ \"-\" for i in [{}, {}]]", self.expr(d - 1), self.expr(d - 1)),
            18 => "range(end=3)".to_string(),
            19 => format!("{} is divisible_by(divisor={})", self.var(), self.expr(d - 1)),
            20 => format!("{} | default(value={} | default(value={}))", self.var(), self.var(), self.expr(d - 1)),
            21 => format!("{} | join(sep={})", self.var(), self.expr(d - 1)),
            22 => format!("({} if {} else {}) ~ {}", self.expr(d - 1), self.expr(d - 1), self.expr(d - 1), self.var()),
            23 => format!("{} < {}", self.expr(d - 1), self.expr(d - 1)),
            24 => format!("{}?[{}]", self.var(), self.expr(d - 1)),
            _ => format!("{} ** 2 % 7 // 2", gen_tpl::atom(self.rng)),
        }
    }
    /// `loops`: for-loops open with no capture in between (break/continue legal iff > 0);
    /// `blocks_ok`: a `{% block %}` may appear here (only inside blocks / captures, not in for/if)
    fn stmt(&mut self, d: u32, loops: u32, blocks_ok: bool, names: &mut Vec<String>) -> String {
        let dd = d.saturating_sub(1);
        match self.rng.below(if d == 0 { 5 } else { 24 }) {
            0 => "t ".to_string(),
            1..=3 => format!("{{{{ {} }}}}", self.expr(2)),
            4 => {
                if loops > 0 {
                    (if self.rng.chance(1, 2) { "{% break %}" } else { "{% continue %}" }).to_string()
                } else {
                    "u ".to_string()
                }
            }
            5 => format!("{{% if {} %}}{}{{% endif %}}", self.expr(1), self.body(dd, loops, false, names)),
            6 => format!(
                "{{% if {} %}}{}{{% elif {} %}}{}{{% else %}}{}{{% endif %}}",
                self.expr(1), self.body(dd, loops, false, names), self.expr(1), self.body(dd, loops, false, names), self.body(dd, loops, false, names)
            ),
            7 => format!("{{% for i in {} %}}{}{{% endfor %}}", self.var(), self.body(dd, loops + 1, false, names)),
            8 => format!(
                "{{% for i in {} %}}{}{{% else %}}{}{{% endfor %}}",
                self.expr(1), self.body(dd, loops + 1, false, names), self.body(dd, loops, false, names)
            ),
            9 => format!("{{% for k, v in {} %}}{{{{ k }}}}{}{{% endfor %}}", self.var(), self.body(dd, loops + 1, false, names)),
            10 => format!("{{% set s = {} %}}{{{{ s }}}}", self.expr(2)),
            11 => format!("{{% set s | upper | trim %}}{}{{% endset %}}{{{{ s }}}}", self.body(dd, 0, blocks_ok, names)),
            12 => format!("{{% set_global g | default(value={}) %}}{}{{% endset %}}", self.expr(1), self.body(dd, 0, blocks_ok, names)),
            13 => format!("{{% filter upper %}}{}{{% endfilter %}}", self.body(dd, 0, blocks_ok, names)),
            14 => format!("{{% filter replace(from=\"a\", to={}) %}}{}{{% endfilter %}}", self.expr(1), self.body(dd, 0, blocks_ok, names)),
            15 => format!("{{% <card title={{ {} }}> %}}{}{{% </card> %}}", self.expr(1), self.body(dd, 0, blocks_ok, names)),
            16 => format!("{{% <tag v=\"x\" {{...c}}> %}}{}{{% </tag> %}}", self.body(dd, 0, blocks_ok, names)),
            17 => (if self.inc_ok { "{% include \"inc\" %}" } else { "i " }).to_string(),
            18 => format!("{{% set_global g = {} %}}", self.expr(1)),
            19 => {
                // loop with break/continue at several depths, a capture in the loop, a comprehension
                format!(
                    "{{% for i in {} %}}{{% if {} %}}{{% continue %}}{{% elif {} %}}{{% break %}}{{% else %}}{{% for j in i %}}{{% if j %}}{{% break %}}{{% endif %}}{{{{ j }}}}{{% continue %}}x{{% endfor %}}{{% endif %}}{{% set s %}}{}{{% endset %}}{{{{ [q for q in s] | length }}}}{{% endfor %}}",
                    self.var(), self.expr(1), self.expr(1), self.body(dd, 0, false, names)
                )
            }
            20 => {
                if blocks_ok {
                    let n = format!("b{}", names.len());
                    names.push(n.clone());
                    format!("{{% block {n} %}}{}{{% endblock {n} %}}", self.body(dd, 0, true, names))
                } else {
                    format!("{{{{ {} }}}}", self.var())
                }
            }
            21 => format!("{{{{ <card title={{ {} }}/> }}}}", self.expr(1)),
            22 => format!("{{% for i in {} %}}{{% if loop.first %}}{{% continue %}}{{% endif %}}{{{{ loop.index }}}}{{% else %}}{}{{% endfor %}}", self.var(), self.body(dd, loops, false, names)),
            _ => format!("{{{{ {} | safe }}}}", self.var()),
        }
    }
    fn body(&mut self, d: u32, loops: u32, blocks_ok: bool, names: &mut Vec<String>) -> String {
        let n = 1 + self.rng.below(3);
        (0..n).map(|_| self.stmt(d, loops, blocks_ok, names)).collect()
    }
}

fn gen_set(rng: &mut Rng, k: usize) -> Vec<(String, String)> {
    let mut g = G { rng, inc_ok: false };
    let d = 1 + (k % 3) as u32;
    let mut no_names = Vec::new();
    let comps = format!(
        "{{% component card(title, level: integer = 1, ...rest) %}}<h{{{{ level }}}}>{{{{ title }}}}</h>{}{{{{ body }}}}{{{{ rest | length }}}}{{% endcomponent card %}}\n\
         {{% component tag(v = \"d\", ...rest) %}}[{{{{ v }}}}{}{{% if body %}}{{{{ body }}}}{{% endif %}}]{{% endcomponent tag %}}",
        g.body(d.saturating_sub(1), 0, false, &mut no_names),
        g.body(d.saturating_sub(1), 0, false, &mut no_names),
    );
    let inc = g.body(d, 0, false, &mut no_names);
    g.inc_ok = true;
    let mut names = Vec::new();
    let base = g.body(d, 0, true, &mut names);
    let base = format!("{base}{{% block tail %}}T{}{{% endblock tail %}}", g.body(d.saturating_sub(1), 0, true, &mut names));
    names.push("tail".into());
    let mut child = String::from("{% extends \"base\" %}");
    for n in &names {
        if g.rng.chance(2, 3) {
            let mut nn = Vec::new();
            let sup = if g.rng.chance(1, 2) { "{{ super() }}" } else { "" };
            let sup2 = if g.rng.chance(1, 4) { "{% for i in b %}{{ super() }}{% if i %}{% break %}{% endif %}{% endfor %}" } else { "" };
            child.push_str(&format!("{{% block {n} %}}{sup}{}{sup2}{{% endblock %}}", g.body(d.saturating_sub(1), 0, false, &mut nn)));
        }
    }
    vec![
        ("comps".into(), comps),
        ("inc".into(), inc),
        ("base".into(), base),
        ("child".into(), child),
    ]
}


/// the depths the property names: extends / include chains of 32, component recursion at the
/// limit (20) and beyond, statement nesting near the parser's limit
fn deep_sets() -> Vec<(String, Vec<(String, String)>)> {
    let mut out = Vec::new();
    // extends chain of 32 with super() at every level, a loop and a capture around it
    let mut chain: Vec<(String, String)> = vec![(
        "t0".into(),
        "B[{% block b %}b0{{ c }}{% endblock %}|{% filter upper %}{% block f %}f0{% endblock %}{% endfilter %}]".into(),
    )];
    for i in 1..=32 {
        chain.push((
            format!("t{i}"),
            format!(
                "{{% extends \"t{}\" %}}{{% block b %}}{{{{ super() }}}}{i}{{% for x in a %}}{{% if x %}}{{% break %}}{{% endif %}}{{% endfor %}}{{% endblock %}}{}",
                i - 1,
                if i % 2 == 0 { "{% block f %}{% set s %}{{ super() }}{% endset %}{{ s }}e{% endblock %}" } else { "" }
            ),
        ));
    }
    out.push(("deep:extends32".into(), chain));
    // include chain of 32, each level inside a loop / a capture / a component body
    let mut inc: Vec<(String, String)> = vec![("lib".into(), "{% component box(t = 1) %}({{ t }}{{ body }}){% endcomponent box %}".into())];
    for i in 0..32 {
        let inner = format!("{{% include \"i{}\" %}}", i + 1);
        let body = match i % 4 {
            0 => format!("{i}{inner}"),
            1 => format!("{{% for x in [1] %}}{inner}{{% endfor %}}"),
            2 => format!("{{% set s %}}{inner}{{% endset %}}{{{{ s }}}}"),
            _ => format!("{{% <box t={{ a }}> %}}{inner}{{% </box> %}}"),
        };
        inc.push((format!("i{i}"), body));
    }
    inc.push(("i32".into(), "end{{ b }}".into()));
    out.push(("deep:include32".into(), inc));
    // component recursion: below, at and beyond MAX_COMPONENT_RECURSION_DEPTH
    out.push((
        "deep:component-recursion".into(),
        vec![
            ("lib".into(), "{% component rec(n) %}{{ n }}{% if n > 0 %}{{ <rec n={ n - 1 }/> }}{% endif %}{% endcomponent rec %}{% component wrap(n) %}{% <wrap2 n={ n }> %}{{ <rec n={ n }/> }}{% </wrap2> %}{% endcomponent wrap %}{% component wrap2(n) %}[{{ body }}]{% endcomponent wrap2 %}".into()),
            ("r5".into(), "{{ <rec n={5}/> }}".into()),
            ("r18".into(), "{{ <rec n={18}/> }}{{ <wrap n={3}/> }}".into()),
            ("r19".into(), "{{ <rec n={19}/> }}".into()),
            ("r20".into(), "{{ <rec n={20}/> }}".into()),
            ("r1000".into(), "{{ <rec n={1000}/> }}".into()),
            ("rctx".into(), "{{ <rec n={ a }/> }}{{ <wrap n={ b }/> }}".into()),
        ],
    ));
    // statement nesting close to the parser's limit
    for depth in [8usize, 16, 30] {
        let mut open = String::new();
        let mut close = String::new();
        for d in 0..depth {
            match d % 4 {
                0 => { open.push_str("{% for i in a %}"); close.insert_str(0, "{% else %}e{% endfor %}"); }
                1 => { open.push_str("{% if i %}"); close.insert_str(0, "{% else %}{% continue %}{% endif %}"); }
                2 => { open.push_str("{% for k, v in c %}"); close.insert_str(0, "{% if k %}{% break %}{% endif %}{% endfor %}"); }
                _ => { open.push_str("{% if not v %}{% break %}{% elif v %}"); close.insert_str(0, "{% endif %}"); }
            }
        }
        out.push((format!("deep:nesting{depth}"), vec![("n".into(), format!("{open}{{{{ b }}}}{close}"))]));
    }
    out
}


// ------------------------------------------------------------------ unbounded recursion (child process)

/// Programs whose rendering recurses without bound unless the component depth guard stops it.
/// None has an include cycle at template level, so registration may accept them; every render
/// must end in an error VALUE ("Maximum render recursion depth ..."), never in a stack overflow.
fn recursion_sets() -> Vec<(String, Vec<(String, String)>)> {
    let s = |l: &str, v: Vec<(&str, &str)>| (format!("rec:{l}"), v.into_iter().map(|(a, b)| (a.to_string(), b.to_string())).collect::<Vec<_>>());
    vec![
        s("self", vec![("w", "{% component R() %}x{{ <R/> }}{% endcomponent R %}"), ("page", "{{ <R/> }}")]),
        s("self-body", vec![("w", "{% component R() %}[{{ body }}{% <R> %}y{% </R> %}]{% endcomponent R %}"), ("page", "{% <R> %}z{% </R> %}")]),
        s("self-arg", vec![("w", "{% component R(v = 1) %}{{ <R v={ <R/> }/> }}{% endcomponent R %}"), ("page", "{{ <R/> }}")]),
        s("mutual", vec![("w", "{% component A() %}a{{ <B/> }}{% endcomponent A %}{% component B() %}b{% <A> %}{% </A> %}{% endcomponent B %}"), ("page", "{{ <A/> }}{{ <B/> }}")]),
        s("mutual3-loop", vec![("w", "{% component A() %}{% for i in [1, 2] %}{{ <B/> }}{% endfor %}{% endcomponent A %}{% component B() %}{% if true %}{{ <C/> }}{% endif %}{% endcomponent B %}{% component C() %}{{ [<A/> for i in [1]] }}{% endcomponent C %}"), ("page", "{{ <C/> }}")]),
        s("component-include-component", vec![("widgets", "{% component Tree() %}<ul>{% include \"page\" %}</ul>{% endcomponent Tree %}"), ("page", "<li>{{ <Tree /> }}</li>")]),
        s("component-include-include-component", vec![("widgets", "{% component Tree() %}{% include \"mid\" %}{% endcomponent Tree %}"), ("mid", "m{% include \"page\" %}"), ("page", "{{ <Tree/> }}")]),
        s("body-includes-caller", vec![("w", "{% component Box() %}<b>{{ body }}{% include \"inner\" %}</b>{% endcomponent Box %}"), ("inner", "{% <Box> %}x{% </Box> %}"), ("page", "{% include \"inner\" %}")]),
        s("call-body-includes", vec![("w", "{% component Box() %}<b>{{ body }}</b>{% endcomponent Box %}{% component Go() %}{% <Box> %}{% include \"page\" %}{% </Box> %}{% endcomponent Go %}"), ("page", "p{{ <Go/> }}")]),
        s("through-super", vec![("w", "{% component T() %}{% include \"child\" %}{% endcomponent T %}"), ("base", "B{% block b %}{{ <T/> }}{% endblock %}"), ("child", "{% extends \"base\" %}{% block b %}c{{ super() }}{% endblock %}")]),
        s("through-block", vec![("w", "{% component T() %}{% include \"page\" %}{% endcomponent T %}"), ("page", "{% block a %}{% block b %}{{ <T/> }}{% endblock %}{% endblock %}")]),
        s("through-set-capture", vec![("w", "{% component S() %}{% set x %}{% include \"pg\" %}{% endset %}{{ x }}{% endcomponent S %}"), ("pg", "{{ <S/> }}")]),
        s("through-filter-section", vec![("w", "{% component S() %}{% filter upper %}{% include \"pg\" %}{% endfilter %}{% endcomponent S %}"), ("pg", "{% set_global g %}{{ <S/> }}{% endset %}{{ g }}")]),
        // include cycles that pass through inherited blocks (must be rejected at registration, or
        // at least end in an error value)
        s("include-cycle-via-middle-block", vec![("root", "<{% block content %}root{% endblock %}>"), ("middle", "{% extends \"root\" %}{% block content %}[{% include \"partial\" %}]{% endblock %}"), ("leaf", "{% extends \"middle\" %}"), ("partial", "p:{% include \"leaf\" %}")]),
        s("include-cycle-via-root-body", vec![("root", "{% include \"partial\" %}{% block c %}{% endblock %}"), ("leaf", "{% extends \"root\" %}{% block c %}x{% endblock %}"), ("partial", "p:{% include \"leaf\" %}")]),
        s("include-cycle-via-leaf-block", vec![("root", "{% block c %}{% endblock %}"), ("mid", "{% extends \"root\" %}"), ("leaf", "{% extends \"mid\" %}{% block c %}{% include \"partial\" %}{% endblock %}"), ("partial", "{% include \"leaf\" %}")]),
        s("include-cycle-via-nested-block", vec![("root", "{% block a %}{% block b %}{% endblock %}{% endblock %}"), ("mid", "{% extends \"root\" %}{% block b %}{% include \"p1\" %}{% endblock %}"), ("leaf", "{% extends \"mid\" %}{% block a %}{{ super() }}{% endblock %}"), ("p1", "{% include \"p2\" %}"), ("p2", "{% include \"leaf\" %}")]),
        s("include-cycle-via-component-body", vec![("w", "{% component W() %}{{ body }}{% endcomponent W %}"), ("a", "{% <W> %}{% include \"b\" %}{% </W> %}"), ("b", "{% set x %}{% include \"a\" %}{% endset %}{{ x }}")]),
        s("through-kwarg", vec![("w", "{% component S(v = 1) %}{{ v }}{% include \"pg\" %}{% endcomponent S %}"), ("pg", "{{ 1 | default(value=<S v={ 2 }/>) }}{{ <S v={ <S/> }/> }}")]),
    ]
}

/// `c07 --child`: stdin = {"templates": [[name, src]..], "render": name, "block": b?, "component": c?}
fn child_main() {
    use std::io::Read;
    let mut inp = String::new();
    std::io::stdin().read_to_string(&mut inp).expect("stdin");
    let j: serde_json::Value = serde_json::from_str(&inp).expect("json");
    let set: Vec<(String, String)> = j["templates"].as_array().unwrap().iter().map(|p| (p[0].as_str().unwrap().to_string(), p[1].as_str().unwrap().to_string())).collect();
    let mut tera = Tera::default();
    if let Err(e) = tera.add_raw_templates(set) {
        println!("{}", json!({"rejected": format!("{e}")}));
        return;
    }
    let ctx = Context::new();
    let r = if let Some(c) = j.get("component").and_then(|c| c.as_str()) {
        guarded(|| tera.render_component(c, &ctx, Some("b"), true))
    } else if let Some(b) = j.get("block").and_then(|b| b.as_str()) {
        guarded(|| tera.render_block(j["render"].as_str().unwrap(), b, &ctx))
    } else {
        guarded(|| tera.render(j["render"].as_str().unwrap(), &ctx))
    };
    println!("{}", r.json(|s| json!(s.len())));
}

/// Ok(json of the child) or Err(how it died)
fn run_child(input: &serde_json::Value) -> Result<serde_json::Value, String> {
    use std::io::{Read, Write};
    let exe = std::env::current_exe().unwrap();
    let mut ch = std::process::Command::new(exe)
        .arg("--child")
        .stdin(std::process::Stdio::piped())
        .stdout(std::process::Stdio::piped())
        .stderr(std::process::Stdio::null())
        .spawn()
        .expect("spawn child");
    ch.stdin.take().unwrap().write_all(input.to_string().as_bytes()).unwrap();
    let t0 = std::time::Instant::now();
    loop {
        match ch.try_wait().unwrap() {
            Some(st) => {
                let mut out = String::new();
                ch.stdout.take().unwrap().read_to_string(&mut out).ok();
                if !st.success() {
                    return Err(format!("child process died: {st}"));
                }
                return serde_json::from_str(out.trim()).map_err(|_| format!("child output {out:?}"));
            }
            None => {
                if t0.elapsed().as_secs() > 30 {
                    ch.kill().ok();
                    ch.wait().ok();
                    return Err("child process timed out after 30 s".into());
                }
                std::thread::sleep(std::time::Duration::from_millis(3));
            }
        }
    }
}

/// (renders, error values, text, rejected sets)
fn recursion_oracle(o: &mut Oracle) -> (usize, usize, usize, usize) {
    let (mut n, mut errs, mut texts, mut rejected) = (0usize, 0usize, 0usize, 0usize);
    for (label, set) in recursion_sets() {
        let tpls: Vec<serde_json::Value> = set.iter().map(|(a, b)| json!([a, b])).collect();
        // what to render: every template, every block, every component (discovered in-process:
        // registration does not recurse)
        let mut tera = Tera::default();
        if tera.add_raw_templates(set.clone()).is_err() {
            rejected += 1;
            continue;
        }
        let mut targets: Vec<serde_json::Value> = Vec::new();
        for (name, _) in &set {
            targets.push(json!({"templates": tpls, "render": name}));
            if let Some(tl) = template_listing(&tera, name) {
                for (b, _) in &tl.lineage {
                    targets.push(json!({"templates": tpls, "render": name, "block": b}));
                }
            }
        }
        for (c, _, _) in component_listings(&tera) {
            targets.push(json!({"templates": tpls, "render": "", "component": c}));
        }
        for t in targets {
            n += 1;
            o.renders += 1;
            o.meta.oracle_checks += 1;
            match run_child(&t) {
                Err(how) => o.meta.oracle_fail(
                    &format!("a recursive program is not stopped (component depth guard / include-cycle rejection): {how}"),
                    None,
                    json!({"case": label, "set": set, "target": {"render": t["render"], "block": t.get("block"), "component": t.get("component")}}),
                ),
                Ok(j) => {
                    if j.get("panic").is_some() {
                        o.meta.oracle_fail(&format!("panic while rendering a recursive program: {}", j["panic"]), None, json!({"case": label, "set": set}));
                    } else if j.get("err").is_some() {
                        errs += 1;
                    } else {
                        texts += 1;
                    }
                }
            }
        }
    }
    (n, errs, texts, rejected)
}


// ------------------------------------------------------------------ error-position matrix

/// Every expression form that produces a value (several kinds of result each) ...
fn epm_producers() -> Vec<(&'static str, &'static str)> {
    vec![
        // literals
        ("lit:str", "\"lit\""), ("lit:int", "1"), ("lit:float", "1.5"), ("lit:bool", "true"), ("lit:none", "none"),
        ("lit:array", "[1, \"b\"]"), ("lit:map", "{\"a\": 1}"), ("lit:empty-array", "[]"),
        // variables and paths
        ("var:str", "s"), ("var:int", "n"), ("var:arr", "arr"), ("var:map", "m"), ("var:undef", "u"), ("var:none", "nn"),
        ("var:bool", "b"), ("var:float", "f"), ("var:bytes", "by"),
        ("path", "m.k"), ("path:int", "m.a"), ("path:missing-last", "m.zz"), ("path:deep", "d.x.y"), ("path:deep-arr", "d.x.l"),
        // subscripts
        ("sub:arr", "arr[0]"), ("sub:str", "s[0]"), ("sub:map", "m[\"k\"]"), ("sub:out-of-range", "arr[9]"), ("sub:neg", "arr[-1]"),
        ("sub:var-index", "arr[i]"), ("sub:nested", "d.x.l[1]"), ("sub:sub", "aa[0][1]"),
        // slices: every combination of present / absent operands
        ("slice:a:", "s[1:]"), ("slice::b", "s[:2]"), ("slice:a:b", "s[1:3]"), ("slice:::c", "s[::2]"), ("slice:a::c", "s[1::1]"),
        ("slice::b:c", "s[:3:2]"), ("slice:a:b:c", "s[0:3:1]"), ("slice:::", "s[:]"), ("slice:neg-step", "s[::-1]"),
        ("slice:arr:a:", "arr[1:]"), ("slice:arr::b", "arr[:2]"), ("slice:arr:a:b:c", "arr[0:2:1]"), ("slice:var-a", "s[i:]"),
        ("slice:var-b", "s[:j]"), ("slice:var-c", "s[::j]"), ("slice:of-slice", "s[1:][1:]"), ("slice:of-concat", "(s ~ \"x\")[1:]"),
        ("slice:then-sub", "arr[1:][0]"), ("slice:paren", "(s[1:])"), ("slice:path", "d.x.l[1:]"),
        // optional chaining
        ("opt:attr", "m?.k"), ("opt:attr-undef", "u?.x"), ("opt:attr-missing", "m?.zz"), ("opt:sub-undef", "u?[0]"), ("opt:sub", "arr?[0]"),
        ("opt:slice", "s?[1:]"), ("opt:slice-undef", "u?[1:]"), ("opt:chain", "d?.x?.y"),
        // unary / binary results
        ("un:not", "not s"), ("un:neg", "-n"), ("un:neg-float", "-f"),
        ("bin:+", "n + 1"), ("bin:-", "n - 1"), ("bin:*", "n * 2"), ("bin:/", "n / 2"), ("bin://", "n // 2"), ("bin:%", "n % 2"), ("bin:**", "n ** 2"),
        ("bin:<", "n < 2"), ("bin:==", "n == 2"), ("bin:!=", "s != \"x\""), ("bin:in", "n in arr"), ("bin:not-in", "n not in arr"),
        ("concat", "s ~ n"), ("concat:lit", "\"a\" ~ \"b\""), ("concat:chain", "s ~ \"-\" ~ s"),
        // ternary, and / or
        ("ternary:str", "s if b else n"), ("ternary:int", "n if b else s"), ("ternary:else", "s if not b else n"), ("ternary:slice", "s[1:] if b else s[:1]"),
        ("or:first", "s or n"), ("or:second", "u or s"), ("or:slice", "nn or s[1:]"), ("and:second", "n and s"), ("and:first", "nn and n"), ("and:slice", "n and s[:2]"),
        // filters, functions, tests
        ("filter:upper", "s | upper"), ("filter:length", "arr | length"), ("filter:first", "arr | first"), ("filter:default", "u | default(value=1)"),
        ("filter:join", "arr | join(sep=\",\")"), ("filter:chain", "s | upper | trim"), ("filter:on-slice", "s[1:] | upper"), ("filter:safe", "s | safe"),
        ("fn:range", "range(end=3)"), ("test:string", "s is string"), ("test:odd", "n is odd"), ("test:not", "s is not defined"),
        // containers built in place
        ("comp", "[x for x in arr]"), ("comp:cond", "[x ~ \"a\" for x in arr if x]"), ("comp:kv", "[v for k, v in m]"),
        ("spread:array", "[...arr, 1]"), ("spread:map", "{...m, \"z\": 1}"), ("map:nested", "{\"k\": {\"j\": s[1:]} }"),
        // component calls
        ("component", "<cx v={ 1 }/>"), ("component:arg-slice", "<cx v={ s[1:] }/>"),
        ("paren", "(s)"), ("paren:bin", "(n + 1)"),
    ]
}

/// ... in every position where a consumer can fail with a rendering error that carries a span.
/// `@` is the hole.
fn epm_consumers() -> Vec<(&'static str, String)> {
    let mut v: Vec<(&'static str, String)> = Vec::new();
    for op in ["+", "-", "*", "/", "//", "%", "**"] {
        v.push(("arith:left", format!("{{{{ @ {op} 1 }}}}")));
        v.push(("arith:right", format!("{{{{ 1 {op} @ }}}}")));
        v.push(("arith:right-of-str", format!("{{{{ s {op} @ }}}}")));
        v.push(("arith:both", format!("{{{{ @ {op} @ }}}}")));
        v.push(("arith:nested", format!("{{{{ (2 {op} @) {op} (@ {op} 2) }}}}")));
    }
    for op in ["<", ">", "<=", ">="] {
        v.push(("cmp:left", format!("{{{{ @ {op} 1 }}}}")));
        v.push(("cmp:right", format!("{{{{ 1 {op} @ }}}}")));
        v.push(("cmp:vs-str", format!("{{{{ @ {op} \"a\" }}}}")));
        v.push(("cmp:vs-array", format!("{{{{ [1] {op} @ }}}}")));
    }
    let fixed: Vec<(&'static str, &'static str)> = vec![
        ("in:container", "{{ 1 in @ }}"), ("in:needle", "{{ @ in 5 }}"), ("in:needle-arr", "{{ @ in arr }}"), ("in:map", "{{ @ in m }}"),
        ("neg", "{{ -@ }}"), ("neg:paren", "{{ -(@) }}"),
        ("sub:base", "{{ @[0] }}"), ("sub:base-str-key", "{{ @[\"k\"] }}"), ("sub:index", "{{ arr[@] }}"), ("sub:index-map", "{{ m[@] }}"),
        ("sub:index-str", "{{ s[@] }}"), ("sub:opt-index", "{{ arr?[@] }}"), ("attr", "{{ @.attr }}"), ("attr:deep", "{{ @.a.b }}"),
        ("slice:base", "{{ @[1:] }}"), ("slice:start", "{{ s[@:] }}"), ("slice:end", "{{ s[:@] }}"), ("slice:step", "{{ s[::@] }}"),
        ("slice:step-full", "{{ s[1:2:@] }}"), ("slice:all", "{{ @[@:@:@] }}"), ("slice:opt-base", "{{ @?[1:] }}"),
        ("filter:round", "{{ @ | round }}"), ("filter:upper", "{{ @ | upper }}"), ("filter:length", "{{ @ | length }}"), ("filter:first", "{{ @ | first }}"),
        ("filter:abs", "{{ @ | abs }}"), ("filter:join", "{{ @ | join }}"), ("filter:int", "{{ @ | int }}"), ("filter:keys", "{{ @ | keys }}"),
        ("filter:sort", "{{ @ | sort }}"), ("filter:get", "{{ @ | get(key=\"a\") }}"), ("filter:trim", "{{ @ | trim }}"), ("filter:reverse", "{{ @ | reverse }}"),
        ("filter:pluralize", "{{ @ | pluralize }}"), ("filter:title", "{{ @ | title }}"), ("filter:chain", "{{ @ | upper | round }}"),
        ("kwarg:truncate.length", "{{ s | truncate(length=@) }}"), ("kwarg:join.sep", "{{ arr | join(sep=@) }}"), ("kwarg:replace.from", "{{ s | replace(from=@, to=\"x\") }}"),
        ("kwarg:round.precision", "{{ f | round(precision=@) }}"), ("kwarg:round.method", "{{ f | round(method=@) }}"), ("kwarg:default.boolean", "{{ s | default(value=1, boolean=@) }}"),
        ("kwarg:nth.n", "{{ arr | nth(n=@) }}"), ("kwarg:split.pat", "{{ s | split(pat=@) }}"), ("kwarg:indent.width", "{{ s | indent(width=@) }}"),
        ("kwarg:get.key", "{{ m | get(key=@) }}"), ("kwarg:int.base", "{{ s | int(base=@) }}"), ("kwarg:sort.attribute", "{{ aa | sort(attribute=@) }}"),
        ("kwarg:of-kwarg", "{{ s | default(value=s | truncate(length=@)) }}"),
        ("test:odd", "{{ @ is odd }}"), ("test:divisible.input", "{{ @ is divisible_by(divisor=2) }}"), ("test:divisible.divisor", "{{ n is divisible_by(divisor=@) }}"),
        ("test:starting.input", "{{ @ is starting_with(pat=\"a\") }}"), ("test:starting.pat", "{{ s is starting_with(pat=@) }}"), ("test:containing", "{{ @ is containing(pat=1) }}"),
        ("test:containing.pat", "{{ arr is containing(pat=@) }}"), ("test:not-even", "{{ @ is not even }}"),
        ("fn:range.end", "{{ range(end=@) }}"), ("fn:range.start", "{{ range(start=@, end=3) }}"), ("fn:range.step", "{{ range(end=3, step_by=@) }}"),
        ("fn:throw", "{{ throw(message=@) }}"),
        ("for:iterable", "{% for x in @ %}{{ x }}{% endfor %}"), ("for:kv", "{% for k, v in @ %}{{ k }}{% endfor %}"), ("for:in-else", "{% for x in [] %}{% else %}{% for y in @ %}{% endfor %}{% endfor %}"),
        ("comp:iterable", "{{ [x for x in @] }}"), ("comp:kv", "{{ [x for k, x in @] }}"), ("comp:element", "{{ [1 + @ for x in arr] }}"), ("comp:cond", "{{ [x for x in arr if -@] }}"),
        ("spread:array", "{{ [...@] }}"), ("spread:map", "{{ {...@} }}"), ("spread:component", "{{ <cx {...@}/> }}"),
        ("component:int", "{{ <typed n={ @ }/> }}"), ("component:string", "{{ <typed2 s={ @ }/> }}"), ("component:map", "{{ <typed3 m={ @ }/> }}"),
        ("component:array", "{{ <typed4 l={ @ }/> }}"), ("component:body-call", "{% <typed n={ @ }> %}x{% </typed> %}"), ("component:missing-arg", "{{ <typed other={ @ }/> }}"),
        ("print", "{{ @ }}"), ("print:set", "{% set q = @ %}{{ q }}"), ("print:concat", "{{ @ ~ \"\" }}"), ("print:in-capture", "{% set q %}{{ @ }}{% endset %}{{ q }}"),
        ("print:in-filter-section", "{% filter upper %}{{ @ }}{% endfilter %}"), ("map-key", "{{ {\"k\": 1}[@] }}"), ("map-build", "{{ {\"k\": @}.k.z.w }}"),
        ("ternary:cond", "{{ 1 if -@ else 2 }}"), ("ternary:branch", "{{ (@ if b else @) + 1 }}"), ("or:then-arith", "{{ (nn or @) + 1 }}"), ("and:then-arith", "{{ (n and @) * 2 }}"),
        ("if:cond", "{% if @ + 1 %}x{% endif %}"), ("elif:cond", "{% if false %}{% elif @ < 1 %}x{% endif %}"),
        ("set-block-chain", "{% set q | round %}{{ @ }}{% endset %}{{ q }}"), ("filter-section-kwarg", "{% filter truncate(length=@) %}abc{% endfilter %}"),
        ("in-component-body", "{% <cx> %}{{ 1 + @ }}{% </cx> %}"), ("in-include", "{% include \"inc_epm\" %}{{ 1 + @ }}"),
    ];
    for (l, t) in fixed {
        v.push((l, t.to_string()));
    }
    v
}

fn epm_contexts() -> Vec<(&'static str, Context)> {
    let deep = m(vec![("x", m(vec![("y", Value::from("deep")), ("l", Value::from(vec![Value::from(1u64), Value::from("two"), Value::from(3u64)]))]))]);
    let aa = Value::from(vec![Value::from(vec![Value::from(1u64), Value::from("a")]), Value::from(vec![Value::from(2u64), Value::from("b")])]);
    let mut std_ctx = Context::new();
    std_ctx.insert_value("s", Value::from("hello"));
    std_ctx.insert_value("n", Value::from(3u64));
    std_ctx.insert_value("f", Value::from(1.5f64));
    std_ctx.insert_value("b", Value::from(true));
    std_ctx.insert_value("nn", Value::none());
    std_ctx.insert_value("by", Value::bytes(vec![0xffu8, 0x61]));
    std_ctx.insert_value("i", Value::from(1u64));
    std_ctx.insert_value("j", Value::from(2u64));
    std_ctx.insert_value("arr", Value::from(vec![Value::from(1u64), Value::from("two"), Value::from(3u64)]));
    std_ctx.insert_value("m", m(vec![("k", Value::from("v")), ("a", Value::from(1u64))]));
    std_ctx.insert_value("d", deep.clone());
    std_ctx.insert_value("aa", aa.clone());
    // the same names bound to other kinds: what was a string is an array, numbers are strings ...
    let mut swapped = Context::new();
    swapped.insert_value("s", Value::from(vec![Value::from("h"), Value::from(1u64), Value::from("l")]));
    swapped.insert_value("n", Value::from("7"));
    swapped.insert_value("f", Value::from(i128::MIN));
    swapped.insert_value("b", Value::from(false));
    swapped.insert_value("nn", Value::from(0u64));
    swapped.insert_value("by", Value::from("bytes"));
    swapped.insert_value("i", Value::from("1"));
    swapped.insert_value("j", Value::from(-1i64));
    swapped.insert_value("arr", Value::from("abc"));
    swapped.insert_value("m", Value::from(vec![m(vec![("k", Value::from(1u64))])]));
    swapped.insert_value("d", m(vec![("x", Value::none())]));
    swapped.insert_value("aa", m(vec![("z", Value::from(1u64))]));
    // numbers everywhere (arithmetic succeeds, string consumers fail), and nothing bound at all
    let mut nums = Context::new();
    for k in ["s", "n", "f", "b", "nn", "by", "i", "j", "arr", "m", "d", "aa"] {
        nums.insert_value(k, Value::from(2u64));
    }
    vec![("standard", std_ctx), ("swapped-kinds", swapped), ("all-numbers", nums), ("unbound", Context::new())]
}

/// (cells, errors, texts). An error must also survive being displayed.
fn error_position_matrix(o: &mut Oracle, thorough: bool) -> (usize, usize, usize, usize) {
    let mut tera = Tera::default();
    tera.autoescape_on(vec![".html"]);
    let lib = "{% component cx(v = 1, ...rest) %}{{ v }}{{ body }}{% endcomponent cx %}\
               {% component typed(n: integer) %}{{ n }}{{ body }}{% endcomponent typed %}\
               {% component typed2(s: string) %}{{ s }}{% endcomponent typed2 %}\
               {% component typed3(m: map) %}{{ m }}{% endcomponent typed3 %}\
               {% component typed4(l: array) %}{{ l }}{% endcomponent typed4 %}";
    o.meta.oracle_checks += 1;
    if let Err(e) = tera.add_raw_templates(vec![("lib_epm", lib), ("inc_epm", "i")]) {
        o.meta.oracle_fail("the error-position matrix library was rejected", None, json!({"error": format!("{e}")}));
        return (0, 0, 0, 0);
    }
    let producers = epm_producers();
    let consumers = epm_consumers();
    let contexts = epm_contexts();
    let (mut cells, mut errs, mut texts, mut rejected) = (0usize, 0usize, 0usize, 0usize);
    for (ci, (cl, ct)) in consumers.iter().enumerate() {
        for (pi, (pl, pe)) in producers.iter().enumerate() {
            let src = ct.replace('@', pe);
            for (xi, (xl, ctx)) in contexts.iter().enumerate() {
                if !thorough && xi >= 2 && (ci + pi) % 3 != 0 {
                    continue;
                }
                for ae in [false, true] {
                    if ae && (thorough == false) && (ci + pi + xi) % 4 != 0 {
                        continue;
                    }
                    cells += 1;
                    let r = guarded(|| tera.render_str(&src, ctx, ae));
                    // the error must display: report rendering walks spans and sources too
                    let r = match r {
                        Outcome::Err(c, msg) => {
                            errs += 1;
                            if msg.contains("Found") && msg.contains("expected") || c == "syntax" {
                                rejected += 1;
                            }
                            let shown = std::panic::catch_unwind(std::panic::AssertUnwindSafe(|| {
                                match tera.render_str(&src, ctx, ae) {
                                    Err(e) => {
                                        let mut n = format!("{e}").len() + format!("{e:?}").len() + format!("{e:#?}").len();
                                        let mut cur: Option<&(dyn std::error::Error + 'static)> = std::error::Error::source(&e);
                                        while let Some(x) = cur {
                                            n += format!("{x}{x:?}").len();
                                            cur = x.source();
                                        }
                                        n
                                    }
                                    Ok(_) => 0,
                                }
                            }));
                            match shown {
                                Ok(_) => Outcome::Err(c, msg),
                                Err(_) => Outcome::Panic("panic while formatting the rendering error (Display / Debug / source chain)".into()),
                            }
                        }
                        other => {
                            if matches!(other, Outcome::Ok(_)) {
                                texts += 1;
                            }
                            other
                        }
                    };
                    o.check(&r, None, || json!({"matrix": "error-position", "template": src, "producer": pl, "consumer": cl, "context": xl, "autoescape": ae}));
                }
            }
        }
    }
    (cells, errs, texts, rejected)
}

// ------------------------------------------------------------------ engines with a history

struct Hist {
    steps: Vec<(String, Vec<(String, String)>)>,
}

fn hist_variants() -> Vec<(&'static str, Vec<(&'static str, &'static str)>)> {
    vec![
        ("lib.html", vec![
            ("L0", "{% component Button(label) %}<b>{{ label }}</b>{% endcomponent Button %}{% component Card(title = \"t\") %}[{{ <Button label={ title }/> }}{{ body }}]{% endcomponent Card %}"),
            ("L1", "{% component Button(label) %}<i>{{ label }}</i>{% endcomponent Button %}"),
            ("L2", "no component here anymore"),
            ("L3", "{% component Button(label, kind: string = \"x\") %}<u>{{ label }}{{ kind }}</u>{% endcomponent Button %}{% component Card(title = \"t\") %}({{ title }}{{ body }}){% endcomponent Card %}"),
            ("L4", "{% component Button(label) %}<b>{{ label }}</b>{% endcomponent Button %}{% component Card(title = \"t\") %}[{{ title }}]{% endcomponent Card %}{% component Extra() %}E{{ <Card/> }}{% endcomponent Extra %}"),
        ]),
        ("lib2.html", vec![
            ("M0", "{% component Extra() %}x{{ <Button label=\"in-extra\"/> }}{% endcomponent Extra %}"),
            ("M1", "{% component Badge(n: integer = 1) %}#{{ n }}{% endcomponent Badge %}"),
            ("M2", "{% component Button(label) %}duplicate{% endcomponent Button %}"),
        ]),
        ("page.html", vec![
            ("P0", "{{ <Button label=\"ok\"/> }}{% <Card title=\"c\"> %}body{% </Card> %}{% include \"partial.html\" %}"),
            ("P1", "{{ <Button label=\"ok\"/> }}"),
            ("P2", "plain {{ title | default(value=\"t\") }}"),
            ("P3", "{{ <Extra/> }}{{ <Button label=\"p3\"/> }}"),
            ("P4", "{{ <Badge n={2}/> }}"),
        ]),
        ("base.html", vec![
            ("B0", "<{% block head %}h0{% endblock %}|{% block body %}b0{{ <Button label=\"base\"/> }}{% endblock %}>"),
            ("B1", "<{% block body %}only-body{% endblock %}>"),
            ("B2", "{% extends \"root.html\" %}{% block body %}mid{{ super() }}{% endblock %}"),
        ]),
        ("root.html", vec![("R0", "R{% block body %}r{% endblock %}{% block head %}rh{% endblock %}")]),
        ("child.html", vec![
            ("C0", "{% extends \"base.html\" %}{% block head %}c{{ super() }}{% endblock %}"),
            ("C1", "{% extends \"base.html\" %}{% block body %}{{ super() }}{% <Card> %}in-child{% </Card> %}{% endblock %}"),
        ]),
        ("partial.html", vec![
            ("Q0", "partial"),
            ("Q1", "p:{% include \"page.html\" %}"),
            ("Q2", "p:{{ <Button label=\"from-partial\"/> }}"),
        ]),
    ]
}

fn hist_bad() -> Vec<(&'static str, &'static str)> {
    vec![
        ("unknown-filter", "{{ 1 | nope_f }}"),
        ("unknown-test", "{% if 1 is nope_t %}{% endif %}"),
        ("unknown-function", "{{ nope_fn() }}"),
        ("unknown-component", "{{ <Nope/> }}"),
        ("unknown-component-in-definition", "{% component Holder() %}{{ <Nope/> }}{% endcomponent Holder %}"),
        ("unknown-include", "{% include \"nope.html\" %}"),
        ("missing-parent", "{% extends \"nope.html\" %}"),
        ("self-parent", "{% extends \"bad.html\" %}"),
        ("block-not-in-parent", "{% extends \"base.html\" %}{% block zzz %}{{ super() }}{% endblock %}"),
        ("syntax", "{% if %}"),
        ("unknown-filter-with-new-component", "{% component Fresh() %}fresh{% endcomponent Fresh %}{{ 1 | nope_f }}"),
        ("include-cycle", "{% include \"bad.html\" %}"),
    ]
}

const HIST_COMPONENTS: [&str; 8] = ["Button", "Card", "Extra", "Badge", "Fresh", "Holder", "Nope", "cx"];

/// render everything the engine has, through every API. `mark` is called before each call (so a
/// process death can be attributed), `report` after it.
fn hist_render_all(
    tera: &Tera,
    mark: &mut dyn FnMut(&str, &str),
    report: &mut dyn FnMut(&str, &str, &Outcome<String>),
) {
    let mut ctx = Context::new();
    ctx.insert_value("title", Value::from("T"));
    let names: Vec<String> = tera.get_template_names().map(|s| s.to_string()).collect();
    for n in &names {
        mark("render", n);
        let r = guarded(|| tera.render(n, &ctx));
        report("render", n, &r);
        mark("render_to", n);
        let mut out = Vec::new();
        let r = guarded(|| tera.render_to(n, &ctx, &mut out).map(|_| String::new()));
        report("render_to", n, &r);
        let lineage = std::panic::catch_unwind(std::panic::AssertUnwindSafe(|| template_listing(tera, n)));
        if let Ok(Some(tl)) = lineage {
            for (b, _) in &tl.lineage {
                let t = format!("{n}#{b}");
                mark("render_block", &t);
                let r = guarded(|| tera.render_block(n, b, &ctx));
                report("render_block", &t, &r);
            }
        }
    }
    for c in HIST_COMPONENTS {
        for body in [None, Some("b")] {
            let mut cctx = Context::new();
            cctx.insert_value("label", Value::from("L"));
            mark("render_component", c);
            let r = guarded(|| tera.render_component(c, &cctx, body, true));
            report("render_component", c, &r);
        }
        let src = format!("{{{{ <{c} label=\"s\"/> }}}}");
        mark("render_str", &src);
        let r = guarded(|| tera.render_str(&src, &ctx, true));
        report("render_str", &src, &r);
        mark("get_component_definition", c);
        let r = guarded(|| Ok::<String, tera::Error>(format!("{:?}", tera.get_component_definition(c).is_some())));
        report("get_component_definition", c, &r);
    }
}

/// `c07 --child-hist <file-in> <file-out> <from>`: runs the histories of <file-in> from index
/// <from>, appending one JSON line per event to <file-out>
fn child_hist_main(file_in: &str, file_out: &str, from: usize) {
    use std::io::Write;
    let hists: Vec<Vec<(String, Vec<(String, String)>)>> =
        serde_json::from_str(&std::fs::read_to_string(file_in).expect("hist in")).expect("hist json");
    let mut out = std::fs::OpenOptions::new().create(true).append(true).open(file_out).expect("hist out");
    for (hi, steps) in hists.iter().enumerate().skip(from) {
        let mut tera = Tera::default();
        tera.autoescape_on(vec![".html"]);
        let (mut acc, mut rej, mut renders, mut texts, mut errs) = (0usize, 0usize, 0usize, 0usize, 0usize);
        for (k, (_label, batch)) in steps.iter().enumerate() {
            writeln!(out, "{}", json!({"h": hi, "k": k, "api": "add_raw_templates", "t": ""})).ok();
            let r = guarded(|| tera.add_raw_templates(batch.clone()));
            let after = match &r {
                Outcome::Ok(()) => { acc += 1; "accepted".to_string() }
                Outcome::Err(_, msg) => { rej += 1; format!("rejected: {}", msg.lines().next().unwrap_or("")) }
                Outcome::Panic(msg) => {
                    writeln!(out, "{}", json!({"h": hi, "k": k, "fail": format!("add_raw_templates panicked: {msg}"), "api": "add_raw_templates", "t": "", "after": ""})).ok();
                    "panicked".to_string()
                }
            };
            let mut out_m = out.try_clone().expect("clone");
            let mut out_r = out.try_clone().expect("clone");
            let mut mark = |api: &str, t: &str| {
                writeln!(out_m, "{}", json!({"h": hi, "k": k, "api": api, "t": t})).ok();
            };
            let mut report = |api: &str, t: &str, r: &Outcome<String>| {
                renders += 1;
                match r {
                    Outcome::Ok(s) => {
                        texts += 1;
                        if std::str::from_utf8(s.as_bytes()).is_err() {
                            writeln!(out_r, "{}", json!({"h": hi, "k": k, "fail": "rendered text is not valid UTF-8", "api": api, "t": t, "after": after})).ok();
                        }
                    }
                    Outcome::Err(..) => errs += 1,
                    Outcome::Panic(msg) => {
                        writeln!(out_r, "{}", json!({"h": hi, "k": k, "fail": format!("panic: {msg}"), "api": api, "t": t, "after": after})).ok();
                    }
                }
            };
            hist_render_all(&tera, &mut mark, &mut report);
        }
        writeln!(out, "{}", json!({"done": hi, "acc": acc, "rej": rej, "renders": renders, "texts": texts, "errs": errs})).ok();
    }
}

/// (histories, accepted batches, rejected batches)
fn history_oracle(o: &mut Oracle, rng: &mut Rng, thorough: bool) -> (usize, usize, usize) {
    let variants = hist_variants();
    let bad = hist_bad();
    let pick = |name: &str, v: &str| -> (String, String) {
        let (_, vs) = variants.iter().find(|(n, _)| *n == name).unwrap();
        let (_, src) = vs.iter().find(|(l, _)| *l == v).unwrap();
        (name.to_string(), src.to_string())
    };
    let base: Vec<(String, String)> = vec![
        pick("lib.html", "L0"), pick("page.html", "P0"), pick("base.html", "B0"), pick("child.html", "C0"), pick("partial.html", "Q0"), pick("root.html", "R0"),
    ];
    let mut hists: Vec<Hist> = Vec::new();
    // systematic: every rejection reason x every shape of batch, from the accepted base set
    for (reason, badsrc) in &bad {
        let b = |name: &str| (name.to_string(), badsrc.to_string());
        let shapes: Vec<(&str, Vec<(String, String)>)> = vec![
            ("bad-alone", vec![b("bad.html")]),
            ("replaces-page", vec![b("page.html")]),
            ("lib-loses-components+bad", vec![pick("lib.html", "L2"), pick("page.html", "P2"), b("bad.html")]),
            ("lib-changes-components+bad", vec![pick("lib.html", "L3"), b("bad.html")]),
            ("lib-gains-component+bad", vec![pick("lib.html", "L4"), pick("page.html", "P3"), b("bad.html")]),
            ("new-lib+bad", vec![pick("lib2.html", "M0"), pick("page.html", "P3"), b("bad.html")]),
            ("new-lib-last", vec![b("bad.html"), pick("lib2.html", "M1"), pick("page.html", "P4")]),
            ("repeated-name:bad-draft-then-good", vec![b("page.html"), pick("page.html", "P1"), b("bad.html")]),
            ("repeated-name:good-then-bad", vec![pick("page.html", "P1"), b("page.html")]),
            ("repeated-lib", vec![pick("lib.html", "L2"), pick("lib.html", "L4"), b("bad.html")]),
            ("parent-replaced+bad", vec![pick("base.html", "B1"), b("bad.html")]),
            ("parent-gets-parent+bad", vec![pick("base.html", "B2"), b("bad.html")]),
        ];
        for (shape, batch) in shapes {
            hists.push(Hist { steps: vec![("base".into(), base.clone()), (format!("{reason}/{shape}"), batch.clone())] });
            // ... and once more followed by a good update, then the same bad batch again
            hists.push(Hist {
                steps: vec![
                    ("base".into(), base.clone()),
                    (format!("{reason}/{shape}"), batch.clone()),
                    ("good-update".into(), vec![pick("lib.html", "L3"), pick("page.html", "P1")]),
                    (format!("{reason}/{shape}/again"), batch),
                ],
            });
        }
    }
    // rejected by the set itself (no bad template): removing what others need
    for (label, batch) in [
        ("lib-loses-Button", vec![pick("lib.html", "L2")]),
        ("lib-loses-Card", vec![pick("lib.html", "L1")]),
        ("duplicate-component", vec![pick("lib2.html", "M2")]),
        ("parent-loses-block", vec![pick("base.html", "B1")]),
        ("partial-closes-include-cycle", vec![pick("partial.html", "Q1")]),
        ("page-needs-missing-component", vec![pick("page.html", "P3")]),
        ("lib-loses-Button-but-page-updated", vec![pick("lib.html", "L2"), pick("page.html", "P2")]),
    ] {
        hists.push(Hist { steps: vec![("base".into(), base.clone()), (label.into(), batch.clone())] });
        hists.push(Hist { steps: vec![("base".into(), base.clone()), (label.into(), batch.clone()), ("base-again".into(), base.clone()), (format!("{label}/again"), batch)] });
    }
    // random histories over the variant pool
    let n_rand = if thorough { 1500 } else { 150 };
    for _ in 0..n_rand {
        let mut steps = vec![("base".to_string(), base.clone())];
        let n_steps = 1 + rng.below(4);
        for k in 0..n_steps {
            let mut batch: Vec<(String, String)> = Vec::new();
            let n_t = 1 + rng.below(3);
            for _ in 0..n_t {
                let (name, vs) = &variants[rng.below(variants.len())];
                let (_, src) = &vs[rng.below(vs.len())];
                batch.push((name.to_string(), src.to_string()));
            }
            if rng.chance(1, 2) {
                let (_, badsrc) = &bad[rng.below(bad.len())];
                let target = if rng.chance(1, 3) { variants[rng.below(variants.len())].0.to_string() } else { "bad.html".to_string() };
                let at = rng.below(batch.len() + 1);
                batch.insert(at, (target, badsrc.to_string()));
            }
            if rng.chance(1, 4) && !batch.is_empty() {
                let dup = batch[rng.below(batch.len())].clone();
                batch.push(dup);
            }
            steps.push((format!("random#{k}"), batch));
        }
        hists.push(Hist { steps });
    }
    // run them in child processes: a history can leave the engine in a state whose rendering
    // recurses without bound, and that must be observed, not suffered
    let n = hists.len();
    let dir = std::env::temp_dir().join(format!("c07_hist_{}", std::process::id()));
    std::fs::create_dir_all(&dir).ok();
    let file_in = dir.join("in.json");
    let all: Vec<&Vec<(String, Vec<(String, String)>)>> = hists.iter().map(|h| &h.steps).collect();
    std::fs::write(&file_in, serde_json::to_string(&all).unwrap()).expect("hist in");
    let exe = std::env::current_exe().unwrap();
    let (mut acc, mut rej) = (0usize, 0usize);
    let hist_json = |hi: usize, k: usize| json!(hists[hi].steps.iter().take(k + 1).map(|(l, b)| json!({"step": l, "add_raw_templates": b})).collect::<Vec<_>>());
    let mut from = 0usize;
    let mut round = 0usize;
    while from < n && round < 60 {
        round += 1;
        let file_out = dir.join(format!("out_{round}.jsonl"));
        let mut ch = std::process::Command::new(&exe)
            .arg("--child-hist").arg(&file_in).arg(&file_out).arg(from.to_string())
            .stdin(std::process::Stdio::null()).stdout(std::process::Stdio::null()).stderr(std::process::Stdio::null())
            .spawn().expect("spawn hist child");
        let t0 = std::time::Instant::now();
        let status = loop {
            match ch.try_wait().unwrap() {
                Some(st) => break Some(st),
                None => {
                    if t0.elapsed().as_secs() > 300 {
                        ch.kill().ok();
                        ch.wait().ok();
                        break None;
                    }
                    std::thread::sleep(std::time::Duration::from_millis(10));
                }
            }
        };
        let text = std::fs::read_to_string(&file_out).unwrap_or_default();
        let mut last_mark: Option<serde_json::Value> = None;
        let mut last_done: Option<usize> = None;
        for line in text.lines() {
            let Ok(j) = serde_json::from_str::<serde_json::Value>(line) else { continue };
            if let Some(d) = j.get("done").and_then(|d| d.as_u64()) {
                last_done = Some(d as usize);
                acc += j["acc"].as_u64().unwrap_or(0) as usize;
                rej += j["rej"].as_u64().unwrap_or(0) as usize;
                let r = j["renders"].as_u64().unwrap_or(0) as usize;
                o.renders += r;
                o.ok_text += j["texts"].as_u64().unwrap_or(0) as usize;
                o.errs += j["errs"].as_u64().unwrap_or(0) as usize;
                o.meta.oracle_checks += r + 1;
            } else if let Some(f) = j.get("fail").and_then(|f| f.as_str()) {
                let (hi, k) = (j["h"].as_u64().unwrap() as usize, j["k"].as_u64().unwrap() as usize);
                o.meta.oracle_fail(
                    &format!("engine with a history: {f}"),
                    None,
                    json!({"history": hist_json(hi, k), "after_last_step": j["after"], "api": j["api"], "target": j["t"]}),
                );
            } else if j.get("api").is_some() {
                last_mark = Some(j);
            }
        }
        let clean = matches!(status, Some(st) if st.success());
        if clean {
            break;
        }
        // the child died (or hung): the last marker names the call that did it
        let how = match status { Some(st) => format!("child process died: {st}"), None => "child process timed out after 300 s".to_string() };
        match last_mark {
            Some(mk) => {
                let (hi, k) = (mk["h"].as_u64().unwrap() as usize, mk["k"].as_u64().unwrap() as usize);
                o.meta.oracle_checks += 1;
                o.meta.oracle_fail(
                    &format!("engine with a history: {how} during {}", mk["api"].as_str().unwrap_or("?")),
                    None,
                    json!({"history": hist_json(hi, k), "api": mk["api"], "target": mk["t"]}),
                );
                from = hi + 1;
            }
            None => {
                o.meta.oracle_fail(&format!("engine with a history: {how} before any call"), None, json!({"from_history": from}));
                from = last_done.map(|d| d + 1).unwrap_or(from + 1);
            }
        }
    }
    std::fs::remove_dir_all(&dir).ok();
    (n, acc, rej)
}

// ------------------------------------------------------------------ model-side printing

fn nontrivial_chunk(l: &Listing) -> bool {
    l.iter().any(|(i, _)| {
        matches!(i.op, "Jump" | "PopJumpIfFalse" | "JumpIfFalseOrPop" | "JumpIfTrueOrPop" | "Iterate" | "Break" | "Capture"
            | "BuildMapWithSpreads" | "BuildListWithSpreads" | "AppendToList" | "RenderBodyComponent")
    })
}

fn chunk_tags(l: &Listing) -> Vec<&'static str> {
    let has = |ops: &[&str]| l.iter().any(|(i, _)| ops.contains(&i.op));
    let mut t = Vec::new();
    if has(&["Iterate"]) { t.push("loop") }
    if has(&["Break"]) { t.push("break") }
    if has(&["Capture"]) { t.push("capture") }
    if has(&["StartIterateComprehension"]) { t.push("comprehension") }
    if has(&["BuildMapWithSpreads", "BuildListWithSpreads"]) { t.push("spread") }
    if has(&["RenderBodyComponent", "RenderInlineComponent"]) { t.push("component-call") }
    if has(&["StoreDidNotIterate"]) { t.push("for-else") }
    if has(&["LoadPath", "WritePath"]) { t.push("fused") }
    if t.is_empty() { t.push("straight-line") }
    t
}

fn push_chunks(sink: &mut Sink, label: &str, src: &str) -> bool {
    let Ok(ls) = chunk_listings("t", src, Delimiters::default()) else { return false };
    for cl in ls {
        for (phase, l) in [("before", &cl.before), ("after", &cl.after)] {
            let g = format!("{{| k_code := {} |}}", gal_code(l));
            let desc = json!({"source_label": label, "source": src, "chunk": cl.id, "phase": phase, "len": l.len()});
            let mut tags = chunk_tags(l);
            tags.push(if phase == "before" { "phase:before-optimize" } else { "phase:after-optimize" });
            sink.push(g, desc, nontrivial_chunk(l), None, &tags);
        }
    }
    true
}

fn gal_strs(xs: &[&str]) -> String {
    format!("[{}]", xs.iter().map(|s| gal_str(s)).collect::<Vec<_>>().join("; "))
}

/// the finalized world of an accepted set as a `world_case`
fn world_term(tera: &Tera, names: &[String]) -> Option<(String, usize)> {
    let mut listings = Vec::new();
    for n in names {
        listings.push(template_listing(tera, n)?);
    }
    let tpls: Vec<String> = listings
        .iter()
        .map(|tl| {
            let root = listings.iter().find(|x| x.name == tl.root).map(|x| x.chunk.clone()).unwrap_or_else(|| tl.chunk.clone());
            format!("({}, {})", gal_str(&tl.name), gal_template(tl, &root))
        })
        .collect();
    let comps: Vec<String> = component_listings(tera)
        .iter()
        .map(|(n, _, l)| format!("({}, {})", gal_str(n), gal_code(l)))
        .collect();
    let n_chunks = listings.iter().map(|t| 1 + t.lineage.iter().map(|(_, c)| c.len()).sum::<usize>()).sum::<usize>() + comps.len();
    Some((format!("{{| wc_templates := [{}]; wc_components := [{}]; wc_reg := c07_reg |}}", tpls.join("; "), comps.join("; ")), n_chunks))
}

// ------------------------------------------------------------------ oracles

struct Oracle<'a> {
    meta: &'a mut Meta,
    renders: usize,
    ok_text: usize,
    errs: usize,
    kinds_hit: std::collections::BTreeMap<String, usize>,
}

impl<'a> Oracle<'a> {
    /// text or error value; text valid UTF-8; no panic (the tera_verif stack assertions included)
    fn check(&mut self, r: &Outcome<String>, kf: Option<&str>, input: impl FnOnce() -> serde_json::Value) {
        self.renders += 1;
        self.meta.oracle_checks += 1;
        match r {
            Outcome::Ok(s) => {
                self.ok_text += 1;
                if std::str::from_utf8(s.as_bytes()).is_err() {
                    self.meta.oracle_fail("rendered text is not valid UTF-8", kf, input());
                }
            }
            Outcome::Err(c, msg) => {
                self.errs += 1;
                *self.kinds_hit.entry(format!("err:{c}")).or_default() += 1;
                let _ = msg;
            }
            Outcome::Panic(msg) => {
                // the known-finding key only covers std's total-order panic, nothing else
                let kf = if msg.contains("does not correctly implement a total order") { kf } else { None };
                if let Some(k) = kf {
                    // keep a few replays per known key; count the rest (the failure list is capped
                    // and must stay free for anything that is not known)
                    let n = self.kinds_hit.entry(format!("known:{k}")).or_default();
                    *n += 1;
                    if *n > 5 {
                        return;
                    }
                }
                let what = if msg.contains("tera_verif:") {
                    format!("stack not empty after a successful render: {msg}")
                } else {
                    format!("panic while rendering: {msg}")
                };
                self.meta.oracle_fail(&what, kf, input());
            }
        }
    }
}

fn sort_kf(src: &str, vals: &[&Value]) -> Option<&'static str> {
    // D2: Ord for Value is not a total order on containers; std's sort may panic on >= 21 elements
    let big_container_array = |v: &Value| {
        v.as_array().map_or(false, |a| a.len() >= 21 && a.iter().any(|x| x.is_array() || x.is_map()))
    };
    if src.contains("sort") && vals.iter().any(|v| big_container_array(v)) {
        Some("sort:inconsistent-total-order")
    } else {
        None
    }
}

/// break / continue against every nesting of capturing constructs around and inside the loop:
/// outer capture x inner capture x optional `if` x break/continue, plus the legal variants where an
/// inner loop owns the statement. The parser must reject a break/continue that would leave a
/// capture opened inside its loop; whatever it accepts must render with the three stacks empty (H1)
/// and its chunks must pass the validator (family wld).
fn capture_nesting_sets() -> Vec<(String, Vec<(String, String)>)> {
    let defs = "{% component box() %}[{{ body }}]{% endcomponent box %}";
    let caps: [(&str, &str, &str); 4] = [
        ("none", "", ""),
        ("filter", "{% filter upper %}", "{% endfilter %}"),
        ("set", "{% set s %}", "{% endset %}{{ s }}"),
        ("body", "{% <box> %}", "{% </box> %}"),
    ];
    let mut out = Vec::new();
    for (on, oo, oc) in caps {
        for (inn, io, ic) in caps {
            for stmt in ["break", "continue"] {
                for with_if in [true, false] {
                    let st = if with_if { format!("{{% if i == 2 %}}{{% {stmt} %}}{{% endif %}}") } else { format!("{{% {stmt} %}}") };
                    let io2 = io.replace("set s", "set t");
                    let ic2 = ic.replace("{{ s }}", "{{ t }}");
                    let t1 = format!("{defs}{oo}{{% for i in [1, 2, 3] %}}{io2}a{{{{ i }}}}{st}b{ic2}{{% endfor %}}{oc}|tail");
                    out.push((format!("nest:{on}-for-{inn}-{stmt}{}", if with_if { "-if" } else { "" }), vec![("n.html".to_string(), t1)]));
                    // the statement belongs to an inner loop that lives inside the inner capture: legal
                    let t2 = format!("{defs}{oo}{{% for i in [1, 2, 3] %}}{io2}{{% for j in [1, 2] %}}a{{{{ j }}}}{st}b{{% endfor %}}{ic2}{{% endfor %}}{oc}|tail");
                    out.push((format!("nest:{on}-for-{inn}-for-{stmt}{}", if with_if { "-if" } else { "" }), vec![("n.html".to_string(), t2)]));
                }
            }
        }
    }
    out
}

fn main() {
    if std::env::args().any(|a| a == "--child") {
        silence_panics();
        child_main();
        return;
    }
    {
        let av: Vec<String> = std::env::args().collect();
        if av.len() >= 5 && av[1] == "--child-hist" {
            silence_panics();
            child_hist_main(&av[2], &av[3], av[4].parse().unwrap_or(0));
            return;
        }
    }
    let args = parse_args();
    silence_panics();
    if let Some(rp) = &args.replay {
        replay(rp);
        return;
    }
    let thorough = args.tier == "thorough";
    let mut rng = Rng::new(args.seed);
    let mut meta = Meta::default();

    // ---- the registry the engine really has: every listed name is accepted, a fresh one is not
    let probe = |src: String| Tera::default().add_raw_template("p", &src).is_ok();
    let mut reg_ok = true;
    for f in FILTERS {
        reg_ok &= probe(format!("{{{{ 1 | {f} }}}}"));
    }
    for t in TESTS {
        reg_ok &= probe(format!("{{{{ 1 is {t} }}}}"));
    }
    for f in FUNCTIONS {
        reg_ok &= probe(format!("{{{{ {f}() }}}}"));
    }
    reg_ok &= !probe("{{ 1 | nope_f }}".into()) && !probe("{{ 1 is nope_t }}".into()) && !probe("{{ nope_fn() }}".into());
    meta.oracle_checks += 1;
    if !reg_ok {
        meta.oracle_fail("the built-in registry differs from the name lists of the harness", None, json!({"lists": "FILTERS/TESTS/FUNCTIONS in c07.rs"}));
    }
    let reg_def = (
        "c07_reg".to_string(),
        format!("{{| r_filters := {}; r_tests := {}; r_functions := {} |}}", gal_strs(&FILTERS), gal_strs(&TESTS), gal_strs(&FUNCTIONS)),
    );

    // =========================================================== family chk
    let hdr = "From TeraV Require Import Model.Value Model.Instr Model.VM Model.StackCheck Corr.CorrC07.";
    let mut chk = Sink::new(&args.out, "chk", hdr, "check_real");
    chk.shard_cap_set(300);
    let hand: Vec<&str> = vec![
        "{% for i in a %}{% break %}{% endfor %}",
        "{% for i in a %}{% continue %}{% endfor %}",
        "{% for i in a %}{% if i %}{% break %}{% else %}{% continue %}{% endif %}x{% else %}e{% endfor %}",
        "{% for i in a %}{% for j in i %}{% if j %}{% break %}{% endif %}{% continue %}{% endfor %}{% if i %}{% continue %}{% endif %}{% break %}{% endfor %}",
        "{% for i in a %}{% set s %}{% for j in i %}{% break %}{% endfor %}{% endset %}{{ s }}{% if s %}{% break %}{% endif %}{% endfor %}",
        "{% for i in a %}{% filter upper %}{{ i }}{% for j in i %}{% continue %}{% endfor %}{% endfilter %}{% break %}{% endfor %}",
        "{% for i in a %}{{ [j for j in i if j] }}{% if [k for k in i] %}{% break %}{% endif %}{% endfor %}",
        "{{ [[k for k in j if k] for j in [i for i in a if i] if j] }}",
        "{{ [i for k, i in c if k] }}{{ [a if i else b for i in a] }}{{ [i and j or k for i in a] }}",
        "{{ [...a, 1, ...b] }}{{ {...c, \"k\": 1, ...c} }}{{ [...[...a]] }}{{ {\"a\": {...c}} }}",
        "{{ <card title={[i for i in a]} {...c} x={ {...c} }/> }}",
        "{% <card title={a if b else c}> %}{% for i in a %}{% if i %}{% break %}{% endif %}{{ <tag v={i}/> }}{% endfor %}{% </card> %}",
        "{% <card> %}{% <tag> %}{% <card> %}x{% </card> %}{% </tag> %}{% </card> %}",
        "{% component card(title = 1, ...rest) %}{% for i in title %}{% if i %}{% continue %}{% endif %}{{ body }}{% endfor %}{% endcomponent %}{{ <card/> }}",
        "{% set x | upper | replace(from=\"A\", to=a | default(value=\"b\")) %}{% for i in a %}{{ i }}{% endfor %}{% endset %}{{ x }}",
        "{% filter default(value=[i for i in a]) %}{% endfilter %}",
        "{% block a %}{% for i in a %}{{ super() }}{% if i %}{% break %}{% endif %}{% endfor %}{% block b %}{{ [super() for i in a] }}{% endblock %}{% endblock %}",
        "{% filter upper %}{% block c %}{% set s %}{% block d %}{{ super() }}{% endblock %}{% endset %}{{ s }}{% endblock %}{% endfilter %}",
        "{{ a[1:2:3] }}{{ a?[b:c] }}{{ a[:] }}{{ a[b][c]?.x }}{{ a.x?[0] }}",
        "{{ a and b or c and not a }}{{ (a or b) and (c or a) }}{{ a if b else c if a else b }}",
        "{{ range(end=a | length) }}{{ a is divisible_by(divisor=b | int) }}{{ throw(message=a ~ b) }}",
        "{% for k, v in c %}{% for k2, v2 in v %}{{ k ~ k2 }}{% else %}{% continue %}{% endfor %}{% else %}{% for i in a %}{% break %}{% endfor %}{% endfor %}",
        "{% if a %}{% elif b %}{% for i in a %}{% if i %}{% elif a %}{% break %}{% else %}{% continue %}{% endif %}{% endfor %}{% else %}{% endif %}",
        "{% include \"x\" %}{% for i in a %}{% include \"x\" %}{% endfor %}{% set s %}{% include \"x\" %}{% endset %}",
    ];
    let mut sources: Vec<(String, String)> = hand.iter().enumerate().map(|(i, s)| (format!("hand#{i}"), s.to_string())).collect();
    sources.extend(corpus::corpus_templates());
    let n_gen = if thorough { 3000 } else { 400 };
    for k in 0..n_gen {
        sources.push((format!("gen#{k}"), gen_tpl::template(&mut rng, 1 + (k % 3) as u32)));
    }
    let n_sets = if thorough { 800 } else { 90 };
    let mut sets: Vec<(String, Vec<(String, String)>)> = corpus::corpus_sets();
    sets.extend(deep_sets());
    sets.extend(capture_nesting_sets());
    for k in 0..n_sets {
        sets.push((format!("set#{k}"), gen_set(&mut rng, k)));
    }
    for (label, set) in &sets {
        for (n, src) in set {
            sources.push((format!("{label}/{n}"), src.clone()));
        }
    }
    let mut compiled = 0usize;
    for (label, src) in &sources {
        if push_chunks(&mut chk, label, src) {
            compiled += 1;
        }
    }
    meta.extra.insert("templates_compiled".into(), json!(compiled));
    meta.extra.insert("templates_offered".into(), json!(sources.len()));

    // =========================================================== family wld + H1 renders
    let hdr_w = "From TeraV Require Import Model.Value Model.Instr Model.VM Model.StackCheck Corr.CorrC07.";
    let mut wld = Sink::new(&args.out, "wld", hdr_w, "check_world");
    wld.shard_cap_set(20);
    let kind_vals = kinds();
    let mut accepted_sets = 0usize;
    let mut rejected_sets = 0usize;
    let mut rejected_examples: Vec<serde_json::Value> = Vec::new();
    let mut o = Oracle { meta: &mut meta, renders: 0, ok_text: 0, errs: 0, kinds_hit: Default::default() };
    for (label, set) in &sets {
        let mut tera = Tera::default();
        tera.autoescape_on(vec!["base", ".html"]);
        if let Err(e) = tera.add_raw_templates(set.clone()) {
            rejected_sets += 1;
            if label.starts_with("deep:") {
                o.meta.oracle_fail("a deep-nesting set of the harness was rejected at registration", None, json!({"set": label, "error": format!("{e}")}));
            }
            if label.starts_with("set#") && rejected_examples.len() < 5 {
                rejected_examples.push(json!({"set": label, "error": format!("{e}")}));
            }
            continue;
        }
        accepted_sets += 1;
        let names: Vec<String> = set.iter().map(|(n, _)| n.clone()).collect();
        let mut blocks: Vec<(String, Vec<String>)> = Vec::new();
        for n in &names {
            if let Some(tl) = template_listing(&tera, n) {
                blocks.push((n.clone(), tl.lineage.iter().map(|(b, _)| b.clone()).collect()));
            }
        }
        if let Some((term, n_chunks)) = world_term(&tera, &names) {
            let desc = json!({"set": label, "templates": set, "chunks": n_chunks});
            wld.push_with_defs(&[reg_def.clone()], term, desc, n_chunks >= 4, None, &["world"]);
        }
        let comps: Vec<String> = component_listings(&tera).iter().map(|(n, _, _)| n.clone()).collect();
        // contexts: a / b / c bound to values of every kind (rotating so that every kind meets
        // every variable), plus the structured ones the generator's paths expect
        let n_ctx = if label.starts_with("set#") { if thorough { 10 } else { 4 } } else if label.starts_with("deep:") { 12 } else { 3 };
        for j in 0..n_ctx {
            let off = rng.below(kind_vals.len());
            let pick = |i: usize| &kind_vals[(off + i * 7 + j) % kind_vals.len()];
            let (la, va) = pick(0);
            let (lb, vb) = pick(1);
            let (lc, vc) = pick(2);
            let ctx = ctx_of(&[("a", va), ("b", vb), ("c", vc)]);
            let cl = format!("a={la} b={lb} c={lc}");
            for (n, bs) in &blocks {
                let r = guarded(|| tera.render(n, &ctx));
                o.check(&r, None, || json!({"set": set, "entry": n, "context": cl}));
                for b in bs {
                    let r = guarded(|| tera.render_block(n, b, &ctx));
                    o.check(&r, None, || json!({"set": set, "entry": n, "block": b, "context": cl}));
                }
            }
            for c in &comps {
                for (body, ae) in [(None, true), (Some("<i>b</i>"), false)] {
                    let mut cctx = Context::new();
                    if !va.is_undefined() {
                        cctx.insert_value("title", va.clone());
                        cctx.insert_value("v", va.clone());
                    }
                    if !vb.is_undefined() {
                        cctx.insert_value("level", vb.clone());
                        cctx.insert_value("extra", vb.clone());
                    }
                    let r = guarded(|| tera.render_component(c, &cctx, body, ae));
                    o.check(&r, None, || json!({"set": set, "component": c, "context": cl, "body": body}));
                }
            }
        }
    }

    // =========================================================== operator / builtin matrices
    let ops2 = ["+", "-", "*", "/", "//", "%", "**", "<", ">", "<=", ">=", "==", "!=", "~", "in", "and", "or"];
    let mut mat = Tera::default();
    let mut mat_tpls: Vec<(String, String)> = Vec::new();
    for (i, op) in ops2.iter().enumerate() {
        mat_tpls.push((format!("op{i}"), format!("{{{{ a {op} b }}}}")));
    }
    let forms = [
        "{{ not a }}{{ -b }}", "{{ a[b] }}", "{{ a?[b] }}", "{{ a[b:] }}{{ a[:b] }}{{ a[::b] }}", "{{ a?[b:a:b] }}", "{{ a.x }}{{ b.x.y }}",
        "{{ a?.x }}{{ b?.x?.y }}", "{{ a if b else \"e\" }}", "{% for i in a %}{{ i }}{{ loop.index }}{% else %}{{ b }}{% endfor %}",
        "{% for k, v in a %}{{ k }}={{ v }}{% endfor %}{{ b }}", "{{ [i for i in a if b] }}", "{{ [...a, b] }}", "{{ {...a, \"k\": b} }}",
        "{{ {\"k\": a, \"j\": b} }}{{ [a, b] }}", "{% if a %}{{ b }}{% elif b %}{{ a }}{% endif %}", "{% set s = a %}{{ s }}{% set_global g = b %}{{ g }}",
        "{% filter upper %}{{ a }}{% endfilter %}{% set s %}{{ b }}{% endset %}{{ s }}", "{{ <cx v={a} w={b}/> }}{% <cx v={b}> %}{{ a }}{% </cx> %}",
        "{{ <cx {...a}/> }}{{ <cx {...b} v={a}/> }}", "{{ a }}|{{ b | safe }}|{{ a ~ b }}", "{{ a.x[b] }}{{ a[b].x }}{{ a[b][b] }}", "{{ __tera_context }}",
    ];
    for (i, f) in forms.iter().enumerate() {
        mat_tpls.push((format!("form{i}.html"), f.to_string()));
    }
    mat_tpls.push(("cx".into(), "{% component cx(v = 1, w: string = \"w\", ...rest) %}{{ v }}{{ w }}{{ body }}{{ rest }}{% endcomponent %}".into()));
    for f in FILTERS {
        mat_tpls.push((format!("f:{f}"), format!("{{{{ a | {f} }}}}")));
        for kw in KWARGS {
            mat_tpls.push((format!("f:{f}:{kw}"), format!("{{{{ a | {f}({kw}=b) }}}}")));
        }
    }
    for t in TESTS {
        mat_tpls.push((format!("t:{t}"), format!("{{{{ a is {t} }}}}")));
        for kw in ["divisor", "pat", "value"] {
            mat_tpls.push((format!("t:{t}:{kw}"), format!("{{{{ a is {t}({kw}=b) }}}}")));
        }
    }
    for kw in ["start", "step_by", "message"] {
        mat_tpls.push((format!("fn:range:{kw}"), format!("{{{{ range(end=3, {kw}=a) }}}}")));
    }
    mat_tpls.push(("fn:range:end".into(), "{{ range(end=a) }}{{ range(end=a, start=b) }}{{ range(start=0, end=5, step_by=a) }}".into()));
    mat_tpls.push(("fn:throw:message".into(), "{{ throw(message=a) }}".into()));
    mat_tpls.push(("fn:throw:other".into(), "{{ throw(message=\"m\", end=a) }}".into()));
    mat.autoescape_on(vec![".html"]);
    let mat_ok = mat.add_raw_templates(mat_tpls.clone());
    o.meta.oracle_checks += 1;
    if let Err(e) = &mat_ok {
        o.meta.oracle_fail("the matrix templates were rejected", None, json!({"error": format!("{e}")}));
    }
    let mut cells = 0usize;
    if mat_ok.is_ok() {
        let trigger = sort_trigger();
        let mut pool: Vec<(String, Value)> = kind_vals.clone();
        pool.push(("arr:24-containers".into(), trigger));
        for (name, src) in &mat_tpls {
            if name == "cx" {
                continue;
            }
            let is_kw = name.matches(':').count() == 2;
            let uses_b = src.contains(" b") || src.contains("=b") || src.contains("{b") || src.contains("[b") || src.contains("b}") || src.contains("...b");
            // receiver x operand: full product for operators and forms; for kwargs a sample of
            // receivers against every kind of kwarg value
            for (ia, (la, va)) in pool.iter().enumerate() {
                if is_kw && !thorough && ia % 5 != (cells % 5) {
                    continue;
                }
                let bs: Vec<&(String, Value)> = if uses_b { pool.iter().collect() } else { vec![&pool[0]] };
                for (lb, vb) in bs {
                    let ctx = ctx_of(&[("a", va), ("b", vb)]);
                    let r = guarded(|| mat.render(name, &ctx));
                    cells += 1;
                    *o.kinds_hit.entry(format!("a:{}", la.split(':').next().unwrap())).or_default() += 1;
                    let kf = sort_kf(src, &[va, vb]);
                    o.check(&r, kf, || json!({"template": src, "a": json_value(va), "b": json_value(vb), "labels": [la, lb]}));
                }
            }
        }
    }

    // ---- D2 watch: `sort` / `unique` / `group_by` over arrays of containers whose elements are
    // pairwise incomparable (Ord for Value answers Equal for them): std's sort may detect the
    // inconsistent order and panic from 21 elements on, depending on the arrangement
    if mat_ok.is_ok() {
        let atoms: Vec<Value> = vec![
            Value::from(vec![Value::from(1u64), Value::from("a")]),
            Value::from(vec![Value::from(1u64), Value::from(true)]),
            Value::from(vec![Value::from(1u64), Value::from("b")]),
            Value::from(vec![Value::from(1u64), Value::from(2.5f64)]),
            Value::from(vec![Value::from(0u64), Value::from("z")]),
            Value::from(vec![Value::from(2u64), Value::none()]),
            m(vec![("a", Value::from(1u64))]),
            m(vec![("a", Value::from(2u64))]),
            Value::from(vec![Value::from(1u64), Value::from("c")]),
        ];
        let trials = if thorough { 400 } else { 40 };
        for t in 0..trials {
            let n = 21 + rng.below(40);
            let arr = Value::from((0..n).map(|_| atoms[rng.below(atoms.len())].clone()).collect::<Vec<_>>());
            let none = Value::undefined();
            for name in ["f:sort", "f:unique", "f:group_by:attribute", "f:sort:attribute"] {
                let (va, vb) = if name.ends_with(":attribute") {
                    (Value::from(arr.as_array().unwrap().iter().map(|x| m(vec![("k", x.clone())])).collect::<Vec<_>>()), Value::from("k"))
                } else {
                    (arr.clone(), none.clone())
                };
                let ctx = ctx_of(&[("a", &va), ("b", &vb)]);
                let r = guarded(|| mat.render(name, &ctx));
                cells += 1;
                o.check(&r, Some("sort:inconsistent-total-order"), || json!({"template": mat_tpls.iter().find(|(n, _)| n == name).map(|(_, s)| s.clone()).unwrap_or_default(), "a": json_value(&va), "b": json_value(&vb), "labels": ["arr:random-containers", t]}));
            }
        }
    }

    // =========================================================== unknown names at every site
    let (unk_cases, unk_rejected, unk_accepted, unk_accepted_labels, unk_worlds) = unknown_names(&mut o);
    for (label, set, term, n_chunks) in unk_worlds {
        // an accepted set with a planted name must still be a world whose references all resolve
        wld.push_with_defs(&[reg_def.clone()], term, json!({"set": label, "templates": set, "chunks": n_chunks, "planted_unknown_name": true}), false, None, &["world", "accepted-with-planted-name"]);
    }

    // =========================================================== every expression form in error position
    let (epm_cells, epm_errs, epm_texts, epm_syntax) = error_position_matrix(&mut o, thorough);
    // =========================================================== engines with a history
    let (hist_n, hist_acc, hist_rej) = history_oracle(&mut o, &mut rng, thorough);

    // =========================================================== unbounded recursion, child process
    let (rec_n, rec_errs, rec_texts, rec_rejected) = recursion_oracle(&mut o);

    let (renders, ok_text, errs, kinds_hit) = (o.renders, o.ok_text, o.errs, o.kinds_hit.clone());
    drop(o);
    meta.extra.insert("sets_accepted".into(), json!(accepted_sets));
    meta.extra.insert("sets_rejected_at_registration".into(), json!(rejected_sets));
    meta.extra.insert("sets_rejected_examples".into(), json!(rejected_examples));
    meta.extra.insert("unknown_name_accepted_cases".into(), json!(unk_accepted_labels));
    meta.extra.insert("h1_renders".into(), json!(renders));
    meta.extra.insert("h1_text".into(), json!(ok_text));
    meta.extra.insert("h1_error_values".into(), json!(errs));
    meta.extra.insert("matrix_cells".into(), json!(cells));
    meta.extra.insert("error_position_cells".into(), json!(epm_cells));
    meta.extra.insert("error_position_error_values".into(), json!(epm_errs));
    meta.extra.insert("error_position_text".into(), json!(epm_texts));
    meta.extra.insert("error_position_rejected_at_parse".into(), json!(epm_syntax));
    meta.extra.insert("histories".into(), json!(hist_n));
    meta.extra.insert("history_batches_accepted".into(), json!(hist_acc));
    meta.extra.insert("history_batches_rejected".into(), json!(hist_rej));
    meta.extra.insert("recursion_child_renders".into(), json!(rec_n));
    meta.extra.insert("recursion_child_error_values".into(), json!(rec_errs));
    meta.extra.insert("recursion_child_text".into(), json!(rec_texts));
    meta.extra.insert("recursion_sets_rejected_at_registration".into(), json!(rec_rejected));
    meta.extra.insert("matrix_distribution".into(), json!(kinds_hit));
    meta.extra.insert("unknown_name_cases".into(), json!(unk_cases));
    meta.extra.insert("unknown_name_rejected_at_registration".into(), json!(unk_rejected));
    meta.extra.insert("unknown_name_accepted".into(), json!(unk_accepted));
    meta.extra.insert("oracle_only_evaluations".into(), json!(renders + unk_cases));
    meta.extra.insert("oracle_only_nontrivial".into(), json!(ok_text.min(renders) / 2 + unk_cases));
    meta.families.push(chk.finish());
    meta.families.push(wld.finish());
    meta.write(&args.out);
}

/// (cases, rejected, accepted). Every (kind, site) pair with a name nobody registered.
fn unknown_names(o: &mut Oracle) -> (usize, usize, usize, Vec<String>, Vec<(String, Vec<(String, String)>, String, usize)>) {
    // expressions carrying the unknown name, per reference kind
    let exprs: Vec<(&str, &str)> = vec![
        ("filter", "(1 | nope_f)"),
        ("filter-kw", "(1 | nope_f(x=2))"),
        ("test", "(1 is nope_t)"),
        ("test-not", "(1 is not nope_t(x=1))"),
        ("function", "nope_fn()"),
        ("function-kw", "nope_fn(x=1)"),
        ("component", "<nope_c/>"),
        ("component-kw", "<nope_c v={1} {...m}/>"),
    ];
    // statements carrying the unknown name
    let stmts: Vec<(&str, &str)> = vec![
        ("include", "{% include \"nope_i\" %}"),
        ("component-body", "{% <nope_c> %}x{% </nope_c> %}"),
        ("filter-section", "{% filter nope_f %}x{% endfilter %}"),
        ("filter-section-kw", "{% filter nope_f(x=1) %}x{% endfilter %}"),
        ("set-block-chain", "{% set q | upper | nope_f %}x{% endset %}{{ q }}"),
        ("set-block-chain-first", "{% set q | nope_f | upper %}x{% endset %}{{ q }}"),
        ("set-global-block-chain", "{% set_global q | nope_f(x=1) %}x{% endset %}{{ q }}"),
    ];
    // expression sites: `@` is replaced by the expression
    let esites: Vec<(&str, &str)> = vec![
        ("body", "{{ @ }}"),
        ("kwarg-of-filter", "{{ 1 | default(value=@) }}"),
        ("kwarg-of-kwarg", "{{ 1 | default(value=2 | default(value=3 | default(value=@))) }}"),
        ("kwarg-of-test", "{{ 4 is divisible_by(divisor=@) }}"),
        ("kwarg-of-function", "{{ range(end=@) }}"),
        ("filter-receiver", "{{ @ | upper }}"),
        ("test-receiver", "{{ @ is defined }}"),
        ("comp-element", "{{ [@ for i in [1]] }}"),
        ("comp-iterable", "{{ [i for i in [@]] }}"),
        ("comp-condition", "{{ [i for i in [1] if @] }}"),
        ("comp-nested", "{{ [[@ for j in [1]] for i in [1]] }}"),
        ("ternary-cond", "{{ 1 if @ else 2 }}"),
        ("ternary-true", "{{ @ if true else 2 }}"),
        ("ternary-false-unreached", "{{ 1 if true else @ }}"),
        ("and-unreached", "{{ false and @ }}"),
        ("or-unreached", "{{ true or @ }}"),
        ("array-elem", "{{ [1, @] }}"),
        ("array-spread", "{{ [...[@]] }}"),
        ("map-value", "{{ {\"k\": @} }}"),
        ("map-spread", "{{ {...{\"k\": @}} }}"),
        ("subscript", "{{ m[@] }}"),
        ("slice-bound", "{{ \"abc\"[@:] }}"),
        ("binop", "{{ 1 + @ }}"),
        ("unary", "{{ not @ }}"),
        ("set-value", "{% set q = @ %}{{ q }}"),
        ("set-global-value", "{% set_global q = @ %}"),
        ("if-cond", "{% if @ %}x{% endif %}"),
        ("elif-cond", "{% if false %}x{% elif @ %}y{% endif %}"),
        ("for-iterable", "{% for i in [@] %}x{% endfor %}"),
        ("filter-section-kwarg", "{% filter default(value=@) %}x{% endfilter %}"),
        ("set-block-chain-kwarg", "{% set q | default(value=@) %}x{% endset %}{{ q }}"),
        ("component-arg", "{{ <known v={@}/> }}"),
        ("component-arg-in-body-call", "{% <known v={@}> %}x{% </known> %}"),
        ("component-spread", "{{ <known {...{\"v\": @}}/> }}"),
    ];
    // statement sites: `@` is replaced by a statement (`{{ expr }}` for expression kinds)
    let ssites: Vec<(&str, &str)> = vec![
        ("body", "@"),
        ("block", "{% block b %}@{% endblock %}"),
        ("nested-block", "{% block a %}{% block b %}@{% endblock %}{% endblock %}"),
        ("block-in-filter-section", "{% filter upper %}{% block b %}@{% endblock %}{% endfilter %}"),
        ("if-body", "{% if true %}@{% endif %}"),
        ("else-unreached", "{% if true %}x{% else %}@{% endif %}"),
        ("elif-body-unreached", "{% if true %}x{% elif true %}@{% endif %}"),
        ("for-body", "{% for i in [1] %}@{% endfor %}"),
        ("for-body-unreached", "{% for i in [] %}@{% endfor %}"),
        ("for-else", "{% for i in [] %}x{% else %}@{% endfor %}"),
        ("filter-section-body", "{% filter upper %}@{% endfilter %}"),
        ("set-block-body", "{% set q %}@{% endset %}{{ q }}"),
        ("component-call-body", "{% <known> %}@{% </known> %}"),
        ("component-call-body-nested", "{% <known> %}{% <known> %}@{% </known> %}{% </known> %}"),
        ("component-definition-body", "{% component c2() %}@{% endcomponent %}{{ <c2/> }}"),
        ("component-definition-body-uncalled", "{% component c3() %}@{% endcomponent %}"),
        ("component-definition-nested-sites", "{% component c4(v=1) %}{% for i in [1] %}{% if v %}{% filter upper %}@{% endfilter %}{% endif %}{% endfor %}{% endcomponent %}{{ <c4/> }}"),
    ];
    let known = "{% component known(v = 1, ...rest) %}{{ v }}{{ body }}{% endcomponent known %}";
    let mut cases: Vec<(String, Vec<(String, String)>, String)> = Vec::new(); // (label, set, entry)
    let wrap = |label: String, main: String| -> (String, Vec<(String, String)>, String) {
        (label, vec![("lib".to_string(), known.to_string()), ("main".to_string(), main)], "main".to_string())
    };
    for (ek, e) in &exprs {
        for (sk, site) in &esites {
            cases.push(wrap(format!("{ek}@expr:{sk}"), site.replace('@', e)));
        }
        let st = format!("{{{{ {e} }}}}");
        for (sk, site) in &ssites {
            cases.push(wrap(format!("{ek}@stmt:{sk}"), site.replace('@', &st)));
        }
    }
    for (k, st) in &stmts {
        for (sk, site) in &ssites {
            cases.push(wrap(format!("{k}@stmt:{sk}"), site.replace('@', st)));
        }
    }
    // in a child template / in a parent reached only through a child / in an included template
    for (ek, e) in &exprs {
        let st = format!("{{{{ {e} }}}}");
        cases.push((
            format!("{ek}@child-block"),
            vec![("lib".into(), known.into()), ("base".into(), "{% block b %}p{% endblock %}".into()), ("main".into(), format!("{{% extends \"base\" %}}{{% block b %}}{st}{{% endblock %}}"))],
            "main".into(),
        ));
        cases.push((
            format!("{ek}@child-block-with-super"),
            vec![("lib".into(), known.into()), ("base".into(), format!("{{% block b %}}{st}{{% endblock %}}")), ("main".into(), "{% extends \"base\" %}{% block b %}{{ super() }}{% endblock %}".into())],
            "main".into(),
        ));
        cases.push((
            format!("{ek}@overridden-parent-block"),
            vec![("lib".into(), known.into()), ("base".into(), format!("{{% block b %}}{st}{{% endblock %}}")), ("main".into(), "{% extends \"base\" %}{% block b %}c{% endblock %}".into())],
            "main".into(),
        ));
        cases.push((
            format!("{ek}@included-template"),
            vec![("lib".into(), known.into()), ("inc".into(), st.clone()), ("main".into(), "{% include \"inc\" %}".into())],
            "main".into(),
        ));
        cases.push((
            format!("{ek}@component-default-value"),
            vec![("lib".into(), known.into()), ("main".into(), format!("{{% component dflt(v = {e}) %}}{{{{ v }}}}{{% endcomponent %}}{{{{ <dflt/> }}}}"))],
            "main".into(),
        ));
    }
    cases.push(("extends@top".into(), vec![("main".into(), "{% extends \"nope_p\" %}{% block b %}x{% endblock %}".into())], "main".into()));
    cases.push((
        "extends@grandparent".into(),
        vec![("mid".into(), "{% extends \"nope_p\" %}".into()), ("main".into(), "{% extends \"mid\" %}{% block b %}x{% endblock %}".into())],
        "main".into(),
    ));
    cases.push((
        "include@in-parent".into(),
        vec![("base".into(), "{% block b %}{% include \"nope_i\" %}{% endblock %}".into()), ("main".into(), "{% extends \"base\" %}".into())],
        "main".into(),
    ));
    cases.push((
        "block-only-in-child".into(),
        vec![("base".into(), "B{% block a %}a{% endblock %}".into()), ("main".into(), "{% extends \"base\" %}{% block only_child %}{{ super() }}x{% endblock %}".into())],
        "main".into(),
    ));
    cases.push((
        "super-in-top-level-block".into(),
        vec![("main".into(), "{% block a %}{{ super() }}{% endblock %}".into())],
        "main".into(),
    ));

    let mut rejected = 0usize;
    let mut accepted = 0usize;
    let mut accepted_labels: Vec<String> = Vec::new();
    let mut worlds = Vec::new();
    let n = cases.len();
    let mut mm = Map::new();
    mm.insert("v".into(), Value::from(1u64));
    let mut ctx = Context::new();
    ctx.insert_value("m", Value::from(mm));
    for (label, set, entry) in cases {
        let mut tera = Tera::default();
        let r = guarded(|| tera.add_raw_templates(set.clone()));
        o.meta.oracle_checks += 1;
        match r {
            Outcome::Panic(msg) => {
                o.meta.oracle_fail(&format!("registration panicked on an unknown name: {msg}"), None, json!({"case": label, "set": set}));
            }
            Outcome::Err(..) => rejected += 1,
            Outcome::Ok(()) => {
                accepted += 1;
                accepted_labels.push(label.clone());
                let names: Vec<String> = set.iter().map(|(n, _)| n.clone()).collect();
                if let Some((term, nc)) = world_term(&tera, &names) {
                    worlds.push((label.clone(), set.clone(), term, nc));
                }
                // accepted: it must not surface at render time
                let mut targets: Vec<(Option<String>, Outcome<String>)> = vec![(None, guarded(|| tera.render(&entry, &ctx)))];
                if let Some(tl) = template_listing(&tera, &entry) {
                    for (b, _) in &tl.lineage {
                        targets.push((Some(b.clone()), guarded(|| tera.render_block(&entry, b, &ctx))));
                    }
                }
                for (cname, _, _) in component_listings(&tera) {
                    targets.push((Some(format!("component:{cname}")), guarded(|| tera.render_component(&cname, &Context::new(), Some("b"), true))));
                }
                for (what, r) in targets {
                    o.meta.oracle_checks += 1;
                    let bad = match &r {
                        Outcome::Panic(m) => Some(format!("panic: {m}")),
                        Outcome::Err(_, m) => {
                            let ml = m.to_lowercase();
                            if ml.contains("nope_") && (ml.contains("not registered") || ml.contains("not found") || ml.contains("not defined") || ml.contains("unknown") || ml.contains("missing") || ml.contains("doesn't exist") || ml.contains("does not exist")) {
                                Some(format!("render-time error about a name that was accepted at registration: {m}"))
                            } else {
                                None
                            }
                        }
                        Outcome::Ok(_) => None,
                    };
                    if let Some(b) = bad {
                        o.meta.oracle_fail(&format!("unknown name accepted at registration, then {b}"), None, json!({"case": label, "set": set, "rendered": what}));
                    }
                }
            }
        }
        // render_str: one-off templates go through the same validation
        if set.len() <= 2 {
            let main = &set.last().unwrap().1;
            let mut t2 = Tera::default();
            let _ = t2.add_raw_template("lib", known);
            let r = guarded(|| t2.render_str(main, &ctx, true));
            o.meta.oracle_checks += 1;
            match r {
                Outcome::Panic(m) => o.meta.oracle_fail(&format!("render_str panicked on an unknown name: {m}"), None, json!({"case": label, "source": main})),
                Outcome::Err(_, m) if m.to_lowercase().contains("not registered") => {
                    // still an error value; counted for the distribution only
                    *o.kinds_hit.entry("render_str:not-registered-at-render".into()).or_default() += 1;
                }
                _ => {}
            }
        }
    }
    (n, rejected, accepted, accepted_labels, worlds)
}

fn replay(path: &std::path::Path) {
    let j: serde_json::Value = serde_json::from_str(&std::fs::read_to_string(path).expect("replay file")).expect("json");
    let input = j.get("input").cloned().unwrap_or(j.clone());
    if let Some(src) = input.get("template").and_then(|s| s.as_str()) {
        let a = input.get("a").map(value_from_json).unwrap_or(Value::undefined());
        let b = input.get("b").map(value_from_json).unwrap_or(Value::undefined());
        let mut tera = Tera::default();
        let _ = tera.add_raw_template("cx", "{% component cx(v = 1, w: string = \"w\", ...rest) %}{{ v }}{{ w }}{{ body }}{{ rest }}{% endcomponent %}");
        let ctx = ctx_of(&[("a", &a), ("b", &b)]);
        let r = guarded(|| tera.render_str(src, &ctx, false));
        println!("{}", r.json(|s| json!(s)));
    } else if let Some(set) = input.get("set").and_then(|s| s.as_array()) {
        let set: Vec<(String, String)> = set.iter().map(|p| (p[0].as_str().unwrap().to_string(), p[1].as_str().unwrap().to_string())).collect();
        let mut tera = Tera::default();
        let r = guarded(|| tera.add_raw_templates(set.clone()));
        println!("add_raw_templates: {}", r.json(|_| json!("accepted")));
        for (n, _) in &set {
            let r = guarded(|| tera.render(n, &Context::new()));
            println!("render {n}: {}", r.json(|s| json!(s)));
        }
    } else if let Some(src) = input.get("source").and_then(|s| s.as_str()) {
        match chunk_listings("t", src, Delimiters::default()) {
            Ok(ls) => {
                for cl in ls {
                    println!("{} before={} after={}", cl.id, cl.before.len(), cl.after.len());
                }
            }
            Err(e) => println!("rejected: {e}"),
        }
    } else {
        println!("nothing to replay in {}", path.display());
    }
}
