//! C09 — the fusion pass. Families:
//!   opt   : real (before, after) listings of every chunk  vs  Model.Optimize.optimize
//!   optworld : a real template SET registered with the pass off and on; Model.OptWorld.opt_world
//!           of the finalized unoptimised world must be the finalized optimised world, the
//!           hypotheses of C09_optimize_world_correct must hold for it, and (World0 subset) the
//!           model VM must render both worlds like the engine
//! Oracle: rendering with the pass on and off gives the same text / fails together.
use serde_json::json;
use tera::verif::{VInstr, chunk_listings, component_listings, set_optimize, template_listing, Listing, TemplateListing};
use tvh::galvm::{ctx_in_subset, gal_code, gal_ctx, gal_template, in_w0_subset};
use tera::{Context, Delimiters, Map, Tera, Value};
use tvh::*;

fn gal_instr(i: &VInstr) -> String {
    let s0 = || gal_str(&i.strs[0]);
    let n = || i.num.unwrap();
    let bits = || {
        format!(
            "[{}]",
            i.bits.as_ref().unwrap().iter().map(|b| gal_bool(*b)).collect::<Vec<_>>().join("; ")
        )
    };
    match i.op {
        "LoadConst" => format!("(LoadConst {})", gal_value(i.konst.as_ref().unwrap())),
        "Set" => format!("(SetI {})", s0()),
        "LoadName" | "LoadAttr" | "LoadAttrOpt" | "WriteText" | "SetGlobal" | "Include"
        | "CallFunction" | "RenderInlineComponent" | "RenderBodyComponent" | "ApplyFilter"
        | "RunTest" | "RenderBlock" | "StoreLocal" => format!("({} {})", i.op, s0()),
        "BuildMap" | "BuildList" | "Jump" | "PopJumpIfFalse" | "JumpIfFalseOrPop"
        | "JumpIfTrueOrPop" | "Iterate" => format!("({} {}%nat)", i.op, n()),
        "StartIterate" | "StartIterateComprehension" => format!("({} {})", i.op, gal_bool(n() == 1)),
        "BuildMapWithSpreads" | "BuildListWithSpreads" => format!("({} {})", i.op, bits()),
        "LoadPath" | "WritePath" => format!(
            "({} [{}])",
            i.op,
            i.strs.iter().map(|s| gal_str(s)).collect::<Vec<_>>().join("; ")
        ),
        "In" => "InOp".to_string(),
        other => other.to_string(),
    }
}

fn gal_listing(l: &tera::verif::Listing, ids: &mut Vec<tera::Span>) -> String {
    let mut parts = Vec::new();
    for (ins, spans) in l {
        let mut sids = Vec::new();
        for sp in spans {
            let id = match ids.iter().position(|x| x == sp) {
                Some(p) => p,
                None => {
                    ids.push(sp.clone());
                    ids.len() - 1
                }
            };
            sids.push(id as u64);
        }
        parts.push(format!("({}, {})", gal_instr(ins), gal_nlist(sids.into_iter())));
    }
    format!("[{}]", parts.join("; "))
}

fn has_jump_next_to_path(l: &tera::verif::Listing) -> bool {
    let mut targets = std::collections::HashSet::new();
    for (i, _) in l {
        if matches!(i.op, "Jump" | "PopJumpIfFalse" | "JumpIfFalseOrPop" | "JumpIfTrueOrPop" | "Iterate") {
            targets.insert(i.num.unwrap());
        }
    }
    l.iter().enumerate().any(|(k, (i, _))| {
        matches!(i.op, "LoadName" | "LoadAttr" | "WriteTop") && (targets.contains(&k) || targets.contains(&(k + 1)))
    })
}

fn push_listing(sink: &mut Sink, label: &str, src: &str) -> bool {
    let Ok(ls) = chunk_listings("t", src, Delimiters::default()) else { return false };
    for cl in ls {
        let mut ids = Vec::new();
        let b = gal_listing(&cl.before, &mut ids);
        let a = gal_listing(&cl.after, &mut ids);
        let g = format!("{{| c_before := {b}; c_after := {a} |}}");
        let fused = cl.after.iter().filter(|(i, _)| matches!(i.op, "LoadPath" | "WritePath")).count();
        let desc = json!({"source_label": label, "source": src, "chunk": cl.id, "before_len": cl.before.len(),
            "after_len": cl.after.len(), "fused_groups": fused});
        let nontrivial = fused > 0 && has_jump_next_to_path(&cl.before);
        let tag = if fused == 0 { "nofusion" } else if nontrivial { "fusion+jump-adjacent" } else { "fusion" };
        sink.push(g, desc, nontrivial, None, &[tag]);
    }
    true
}

fn deep(leaf: Value) -> Value {
    // {x: {y: {z: leaf, x: [..]}, x: leaf}, y: leaf}
    let mut m3 = Map::new();
    m3.insert("z".into(), leaf.clone());
    m3.insert("x".into(), Value::from(vec![leaf.clone(), Value::from(2u64)]));
    let mut m2 = Map::new();
    m2.insert("y".into(), Value::from(m3));
    m2.insert("x".into(), leaf.clone());
    let mut m1 = Map::new();
    m1.insert("x".into(), Value::from(m2));
    m1.insert("y".into(), leaf);
    Value::from(m1)
}

fn big_map() -> Value {
    // a map past the attribute scan cutoff
    let mut m = Map::new();
    for k in ["x", "y", "z", "p", "q", "r", "s", "t"] {
        m.insert(k.to_string().into(), Value::from(k));
    }
    Value::from(m)
}

fn contexts() -> Vec<(String, Context)> {
    let leaves: Vec<(&str, Value)> = vec![
        ("int", Value::from(1u64)),
        ("str", Value::from("<s>")),
        ("safe", Value::safe_string("<b>")),
        ("none", Value::none()),
        ("undef-in-map", Value::undefined()),
        ("false", Value::from(false)),
        ("arr", Value::from(vec![deep(Value::from(1u64)), deep(Value::none())])),
        ("empty", Value::from(Vec::<Value>::new())),
    ];
    let mut out = Vec::new();
    for (name, leaf) in &leaves {
        let mut c = Context::new();
        c.insert_value("a", deep(leaf.clone()));
        c.insert_value("b", Value::from(vec![deep(leaf.clone()), leaf.clone()]));
        c.insert_value("c", leaf.clone());
        out.push((format!("abc={name}"), c));
    }
    let mut c = Context::new();
    c.insert_value("a", big_map());
    c.insert_value("b", deep(big_map()));
    out.push(("bigmap".into(), c));
    out.push(("empty".into(), Context::new()));
    out
}

fn render_both(src: &str, ctx: &Context, autoescape: bool) -> (Outcome<String>, Outcome<String>) {
    let tera = Tera::default();
    set_optimize(true);
    let on = guarded(|| tera.render_str(src, ctx, autoescape));
    set_optimize(false);
    let off = guarded(|| tera.render_str(src, ctx, autoescape));
    set_optimize(true);
    (on, off)
}

fn same(a: &Outcome<String>, b: &Outcome<String>) -> bool {
    match (a, b) {
        (Outcome::Ok(x), Outcome::Ok(y)) => x == y,
        (Outcome::Err(c1, _), Outcome::Err(c2, _)) => c1 == c2,
        (Outcome::Panic(_), Outcome::Panic(_)) => true,
        _ => false,
    }
}

/// D1 class: a path whose final value is an `Undefined` stored inside a map
fn kf_for(ctxname: &str) -> Option<&'static str> {
    if ctxname.contains("undef-in-map") { Some("writepath:undefined-stored-in-map") } else { None }
}


// ---------------------------------------------------------------------------------------------
// family optworld

struct SetCase {
    label: String,
    templates: Vec<(String, String)>,
}

/// base / mid / child chain with blocks, super(), an include (also inside a loop), loops over
/// attribute paths: the same shape as harness/src/bin/c03.rs `gen_set`, with more variable paths
/// so that block, include and loop-body chunks are really fused.
fn gen_set(rng: &mut Rng, k: usize) -> SetCase {
    let blk = |rng: &mut Rng, name: &str, lvl: usize| -> String {
        let body = match rng.below(7) {
            0 => format!("{name}{lvl}{{{{ a.x.x }}}}"),
            1 => format!("{name}{lvl}{{{{ super() }}}}{{{{ a.y }}}}"),
            2 => format!("{{{{ super() }}}}{name}{lvl}{{{{ c }}}}"),
            3 => format!("{name}{lvl}{{% set v = a.x %}}{{{{ v.x }}}}"),
            4 => format!("{{% for i in b %}}{name}{{{{ i.x }}}}{{{{ super() }}}}{{% endfor %}}"),
            5 => format!("{{% for i in b %}}{{% if i.y %}}{{{{ i.y.z }}}}{{% break %}}{{% endif %}}{{{{ i.x }}}}{{% endfor %}}"),
            _ => format!("{{% for i in b %}}{name}{{{{ i.x }}}}{{% endfor %}}"),
        };
        format!("{{% block {name} %}}{body}{{% endblock %}}")
    };
    let inc_body = match rng.below(5) {
        0 => "I{{ c }}{{ a.x.x }}".to_string(),
        1 => "I{{ v }}{% set v = 9 %}{{ v }}".to_string(),
        2 => "I{% for i in b %}{{ i.x }}{{ w.x }}{% endfor %}".to_string(),
        3 => "I{% for k, v in a %}{{ k }}{% if v.x %}{{ v.x }}{% endif %}{% endfor %}".to_string(),
        _ => "I{{ a.y }}{{ g }}".to_string(),
    };
    let base = format!(
        "B[{{% set v = 1 %}}{{% set_global g = 2 %}}{}|{}{}{{{{ v }}}}{{% include \"inc\" %}}]",
        "{% block a %}a0{{ c }}{{ a.x.y.z }}{% block n %}n0{{ a.y }}{% endblock %}{% endblock %}",
        "{% filter upper %}{% block b %}b0{% endblock %}{% endfilter %}",
        if rng.chance(1, 2) { "{% for w in b %}{% include \"inc\" %}{{ w.x }}{% endfor %}" } else { "" },
    );
    let mid = format!("{{% extends \"base\" %}}{}{}", blk(rng, "a", 1), if rng.chance(1, 2) { blk(rng, "n", 1) } else { String::new() });
    let child = format!("{{% extends \"mid\" %}}{}{}", blk(rng, "b", 2), if rng.chance(1, 2) { blk(rng, "a", 2) } else { String::new() });
    SetCase {
        label: format!("set#{k}"),
        templates: vec![("inc".into(), inc_body), ("base".into(), base), ("mid".into(), mid), ("child".into(), child)],
    }
}

/// sets outside the World0 subset (components, arithmetic, other filters): translation
/// validation and side conditions only
fn hand_sets() -> Vec<SetCase> {
    let v = |l: &[(&str, &str)]| l.iter().map(|(a, b)| (a.to_string(), b.to_string())).collect::<Vec<_>>();
    vec![
        SetCase {
            label: "hand:components".into(),
            templates: v(&[
                ("lib.html", "{% component card(title, n=1) %}<h>{{ title.x }}</h>{{ n + 1 }}{% for i in title.l %}{{ i.y }}{% endfor %}{{ body }}{% endcomponent card %}{% component hello(val=1) %}{{ val }}{% endcomponent hello %}"),
                ("page.html", "{{ <hello val={a.x.x}/> }}{% <card title={a}> %}in {{ b.y }}{% </card> %}{% for r in b %}{{ <hello val={r.x}/> }}{% endfor %}"),
            ]),
        },
        SetCase {
            label: "hand:arith-inherit".into(),
            templates: v(&[
                ("p.html", "{% block t %}{{ a.x.x + 1 }}{% endblock %}{% for i in b %}{{ i.x | default(value=a.y) | upper }}{% endfor %}"),
                ("c.html", "{% extends \"p.html\" %}{% block t %}{{ super() }}{{ a.y * 2 }}{% if a.x.y %}{{ a.x.y.z }}{% endif %}{% endblock %}"),
            ]),
        },
        // names of the render context re-bound by a loop variable / set of an includer two and three
        // levels up, read through fused paths in the innermost template (no loop or set active in between)
        SetCase {
            label: "hand:include-shadow-2".into(),
            templates: v(&[
                ("i2", "[{{ a.x }}|{{ a.y | default(value=\"d\") }}|{% if a.x %}T{% endif %}|{{ c }}|{{ c.z | default(value=\"nz\") }}]"),
                ("i1", "<{% include \"i2\" %}>"),
                ("top", "{% for a in b %}{% include \"i1\" %}{% endfor %}{% set c = {\"z\": \"setz\"} %}{% include \"i1\" %}{% include \"i2\" %}"),
            ]),
        },
        SetCase {
            label: "hand:include-shadow-3".into(),
            templates: v(&[
                ("i3", "[{{ a.x }}{{ a.y | default(value=\"d\") }}{{ c.z | default(value=\"nz\") }}{% for q in [1] %}{{ a.x }}{% endfor %}]"),
                ("i2", "({% include \"i3\" %})"),
                ("i1", "<{% include \"i2\" %}>"),
                ("top", "{% set a = {\"x\": \"setx\"} %}{% include \"i1\" %}{% for c in b %}{% include \"i1\" %}{% endfor %}"),
            ]),
        },
        SetCase {
            label: "hand:include-chain".into(),
            templates: v(&[
                ("i2", "{% for k, v in a %}{{ k }}={{ v.x }}{% endfor %}"),
                ("i1", "{{ w.x }}{% include \"i2\" %}{{ w.y.z }}"),
                ("top", "{% for w in b %}{% include \"i1\" %}{% else %}{{ a.x.x }}{% endfor %}{{ c }}"),
            ]),
        },
    ]
}

fn mk(entries: Vec<(&str, Value)>) -> Value {
    let mut mm = Map::new();
    for (k, v) in entries {
        mm.insert(k.to_string().into(), v);
    }
    Value::from(mm)
}

fn set_contexts() -> Vec<(String, Vec<(String, Value)>)> {
    let mut out = Vec::new();
    for (name, leaf) in [("int", Value::from(1u64)), ("str", Value::from("<s&>")), ("none", Value::none())] {
        let inner = mk(vec![("z", leaf.clone()), ("x", Value::from(vec![leaf.clone(), Value::from(2u64)]))]);
        let a = mk(vec![("x", mk(vec![("y", inner.clone()), ("x", leaf.clone())])), ("y", leaf.clone())]);
        let rows = Value::from(vec![
            mk(vec![("x", Value::from("r1")), ("y", leaf.clone())]),
            mk(vec![("x", Value::from(2u64)), ("y", mk(vec![("z", Value::from(true))]))]),
            mk(vec![("x", Value::none())]),
        ]);
        out.push((format!("abc={name}"), vec![("a".to_string(), a), ("b".to_string(), rows), ("c".to_string(), leaf.clone())]));
    }
    out.push(("empty".into(), vec![]));
    out
}

struct WorldListing {
    tera: Tera,
    templates: Vec<TemplateListing>,
    components: Vec<(String, String, Listing)>,
}

/// register the set with the pass on or off and read back what the VM would run
fn register(templates: &[(String, String)], optimize: bool) -> Option<WorldListing> {
    set_optimize(optimize);
    let mut tera = Tera::default();
    tera.autoescape_on(vec![".html"]);
    let r = guarded(|| tera.add_raw_templates(templates.to_vec()));
    set_optimize(true);
    if !matches!(r, Outcome::Ok(_)) {
        return None;
    }
    let mut tls = Vec::new();
    for (n, _) in templates {
        tls.push(template_listing(&tera, n)?);
    }
    let components = component_listings(&tera);
    Some(WorldListing { tera, templates: tls, components })
}

fn gal_world(w: &WorldListing) -> (String, String) {
    let gt: Vec<String> = w
        .templates
        .iter()
        .map(|tl| {
            let root = w.templates.iter().find(|x| x.name == tl.root).map(|x| x.chunk.clone()).unwrap_or_else(|| tl.chunk.clone());
            format!("({}, {})", gal_str(&tl.name), gal_template(tl, &root))
        })
        .collect();
    let gc: Vec<String> = w.components.iter().map(|(n, _, l)| format!("({}, {})", gal_str(n), gal_code(l))).collect();
    (format!("[{}]", gt.join("; ")), format!("[{}]", gc.join("; ")))
}

fn count_fused(w: &WorldListing) -> usize {
    let f = |l: &Listing| l.iter().filter(|(i, _)| matches!(i.op, "LoadPath" | "WritePath")).count();
    w.templates.iter().map(|t| f(&t.chunk) + t.lineage.iter().map(|(_, cs)| cs.iter().map(f).sum::<usize>()).sum::<usize>()).sum::<usize>()
        + w.components.iter().map(|(_, _, l)| f(l)).sum::<usize>()
}

fn optworld_family(args: &Args, rng: &mut Rng, meta: &mut Meta) {
    let thorough = args.tier == "thorough";
    let hdr = "From TeraV Require Import Model.Value Model.Instr Model.VM Corr.CorrC09.";
    let mut sink = Sink::new(&args.out, "optworld", hdr, "check_optworld");
    sink.shard_cap_set(3);
    let mut sets = hand_sets();
    let n_sets = if thorough { 120 } else { 30 };
    for k in 0..n_sets {
        sets.push(gen_set(rng, k));
    }
    let ctxs = set_contexts();
    let (mut rejected, mut renders, mut in_subset) = (0usize, 0usize, 0usize);
    for set in &sets {
        let (Some(off), Some(on)) = (register(&set.templates, false), register(&set.templates, true)) else {
            rejected += 1;
            continue;
        };
        if count_fused(&off) != 0 {
            meta.oracle_fail("a chunk registered with the pass off contains a fused instruction", None, json!({"set": set.templates}));
        }
        let fused = count_fused(&on);
        let subset = off.templates.iter().all(|tl| in_w0_subset(&tl.chunk) && tl.lineage.iter().all(|(_, cs)| cs.iter().all(in_w0_subset)))
            && off.components.is_empty();
        let mut grs = Vec::new();
        let mut jrs = Vec::new();
        for (cname, c) in ctxs.iter().take(if thorough { 4 } else { 2 }) {
            let mut ctx = Context::new();
            for (k, v) in c {
                ctx.insert_value(k.clone(), v.clone());
            }
            for tl in &on.templates {
                let mut targets: Vec<Option<String>> = vec![None];
                for (b, _) in &tl.lineage {
                    // render_block of a block nested in a filter section is C03/C04's known finding
                    if b != "b" {
                        targets.push(Some(b.clone()));
                    }
                }
                for blk in targets {
                    let run = |t: &Tera| match &blk {
                        None => guarded(|| t.render(&tl.name, &ctx)),
                        Some(b) => guarded(|| t.render_block(&tl.name, b, &ctx)),
                    };
                    let r_on = run(&on.tera);
                    let r_off = run(&off.tera);
                    meta.oracle_checks += 1;
                    renders += 1;
                    if !same(&r_on, &r_off) {
                        meta.oracle_fail(
                            "set renders differently when registered with the fusion pass on vs off",
                            None,
                            json!({"set": set.templates, "entry": tl.name, "block": blk, "context": cname,
                                "on": r_on.json(|s| json!(s)), "off": r_off.json(|s| json!(s))}),
                        );
                    }
                    if r_on.is_panic() || r_off.is_panic() {
                        meta.oracle_fail("panic while rendering a set", None, json!({"set": set.templates, "entry": tl.name}));
                    }
                    if subset && ctx_in_subset(c) {
                        grs.push(format!(
                            "{{| or_entry := {}; or_block := {}; or_ctx := {}; or_impl := {} |}}",
                            gal_str(&tl.name), gal_opt(&blk, |b| gal_str(b)), gal_ctx(c), r_on.gal(|s| gal_str(s))
                        ));
                        jrs.push(json!({"entry": tl.name, "block": blk, "context": cname, "impl": r_on.json(|s| json!(s))}));
                    }
                }
            }
        }
        if subset {
            in_subset += 1;
        }
        let (tb, cb) = gal_world(&off);
        let (ta, ca) = gal_world(&on);
        let g = format!(
            "{{| ow_before := {tb}; ow_after := {ta}; ow_comp_before := {cb}; ow_comp_after := {ca}; ow_renders := [{}] |}}",
            grs.join("; ")
        );
        let desc = json!({"label": set.label, "templates": set.templates, "fused_instructions": fused,
            "components": on.components.len(), "renders": jrs});
        let nontrivial = fused >= 3 && on.templates.iter().any(|t| !t.lineage.is_empty());
        let tag = if subset { "world0-subset:rendered-on-model" } else { "translation-validation-only" };
        sink.push(g, desc, nontrivial, None, &[tag]);
    }
    meta.extra.insert("optworld_sets_rejected".into(), json!(rejected));
    meta.extra.insert("optworld_real_renders_on_off".into(), json!(renders));
    meta.extra.insert("optworld_sets_in_world0_subset".into(), json!(in_subset));
    meta.families.push(sink.finish());
}

fn main() {
    let args = parse_args();
    silence_panics();
    let thorough = args.tier == "thorough";
    let mut rng = Rng::new(args.seed);
    let mut meta = Meta::default();
    let hdr = "From TeraV Require Import Model.Value Model.Instr Corr.CorrC09.";
    let mut opt = Sink::new(&args.out, "opt", hdr, "check_opt");

    // hand-written corpus first
    let hand = [
        "{{ false and user.name }}",
        "{{ a.x or b.y.z }}{{ c }}",
        "{{ a.x if b.y else c.z.x }}",
        "{% for i in a.x %}{{ i.y }}{% else %}{{ c.z }}{% endfor %}{{ a.y }}",
        "{% if a.x.y %}{{ a.x }}{% elif b.y %}{{ b.y.z }}{% else %}{{ c }}{% endif %}{{ c.x }}",
        "{{ [i.x for i in a.x if i.y.z] }}",
        "{{ __tera_context }}{{ __tera_context.a }}",
        "{% set m = {\"x\": nope} %}[{{ m.x }}]",
        "{{ a?.x.y }}{{ a.x?.y }}",
        "{{ (a.x if c else b.y)[0] }}{% if (c or a.x)[\"y\"] %}{{ (b or a.y) | default(value=c.x) }}{% endif %}",
        "{% for k, v in a %}{{ k }}{{ v.x }}{% if v.y %}{% break %}{% endif %}{% endfor %}",
    ];
    let mut sources: Vec<(String, String)> = hand.iter().enumerate().map(|(i, s)| (format!("hand#{i}"), s.to_string())).collect();
    sources.extend(corpus::corpus_templates());
    let n_gen = if thorough { 6000 } else { 700 };
    for k in 0..n_gen {
        let d = 1 + (k % 3) as u32;
        sources.push((format!("gen#{k}"), gen_tpl::template(&mut rng, d)));
    }

    let mut compiled = 0usize;
    let ctxs = contexts();
    let mut renders = 0usize;
    let mut render_nontrivial = 0usize;
    for (label, src) in &sources {
        if !push_listing(&mut opt, label, src) {
            continue;
        }
        compiled += 1;
        // render on/off (single templates only; multi-template sets are covered by the listing check)
        if src.contains("extends") || src.contains("{% block") || src.contains("include") {
            continue;
        }
        let budget = if label.starts_with("gen#") || label.starts_with("hand#") { ctxs.len() } else { 3 };
        for (cname, ctx) in ctxs.iter().take(budget) {
            for ae in [false, true] {
                let (on, off) = render_both(src, ctx, ae);
                renders += 1;
                meta.oracle_checks += 1;
                if matches!(on, Outcome::Ok(ref s) if !s.is_empty()) {
                    render_nontrivial += 1;
                }
                if !same(&on, &off) {
                    meta.oracle_fail(
                        "render differs with the fusion pass on vs off",
                        kf_for(cname),
                        json!({"source": src, "context": cname, "autoescape": ae,
                            "on": on.json(|s| json!(s)), "off": off.json(|s| json!(s))}),
                    );
                }
                if on.is_panic() || off.is_panic() {
                    meta.oracle_fail("panic while rendering", None, json!({"source": src, "context": cname}));
                }
            }
        }
    }
    meta.extra.insert("templates_compiled".into(), json!(compiled));
    meta.extra.insert("renders_on_off".into(), json!(renders));
    meta.extra.insert("oracle_only_evaluations".into(), json!(renders));
    meta.extra.insert("oracle_only_nontrivial".into(), json!(render_nontrivial.min(renders)));
    meta.families.push(opt.finish());
    optworld_family(&args, &mut rng, &mut meta);
    meta.write(&args.out);
}
