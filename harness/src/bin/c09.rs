//! C09 — the fusion pass. Families:
//!   opt   : real (before, after) listings of every chunk  vs  Model.Optimize.optimize
//! Oracle: rendering with the pass on and off gives the same text / fails together.
use serde_json::json;
use tera::verif::{VInstr, chunk_listings, set_optimize};
use tera::{Context, Delimiters, Map, Tera, Value};
use tvh::*;

fn gal_instr(i: &VInstr) -> String {
    let s0 = || gal_str(&i.strs[0]);
    let n = || i.num.unwrap();
    let bits = || {
        format!(
            "[{}]",
            i.bits.as_ref().unwrap().iter().map(|b| gal_bool(*b)).collect::<Vec<_>>().join("; ")
        )
    };
    match i.op {
        "LoadConst" => format!("(LoadConst {})", gal_value(i.konst.as_ref().unwrap())),
        "Set" => format!("(SetI {})", s0()),
        "LoadName" | "LoadAttr" | "LoadAttrOpt" | "WriteText" | "SetGlobal" | "Include"
        | "CallFunction" | "RenderInlineComponent" | "RenderBodyComponent" | "ApplyFilter"
        | "RunTest" | "RenderBlock" | "StoreLocal" => format!("({} {})", i.op, s0()),
        "BuildMap" | "BuildList" | "Jump" | "PopJumpIfFalse" | "JumpIfFalseOrPop"
        | "JumpIfTrueOrPop" | "Iterate" => format!("({} {}%nat)", i.op, n()),
        "StartIterate" | "StartIterateComprehension" => format!("({} {})", i.op, gal_bool(n() == 1)),
        "BuildMapWithSpreads" | "BuildListWithSpreads" => format!("({} {})", i.op, bits()),
        "LoadPath" | "WritePath" => format!(
            "({} [{}])",
            i.op,
            i.strs.iter().map(|s| gal_str(s)).collect::<Vec<_>>().join("; ")
        ),
        "In" => "InOp".to_string(),
        other => other.to_string(),
    }
}

fn gal_listing(l: &tera::verif::Listing, ids: &mut Vec<tera::Span>) -> String {
    let mut parts = Vec::new();
    for (ins, spans) in l {
        let mut sids = Vec::new();
        for sp in spans {
            let id = match ids.iter().position(|x| x == sp) {
                Some(p) => p,
                None => {
                    ids.push(sp.clone());
                    ids.len() - 1
                }
            };
            sids.push(id as u64);
        }
        parts.push(format!("({}, {})", gal_instr(ins), gal_nlist(sids.into_iter())));
    }
    format!("[{}]", parts.join("; "))
}

fn has_jump_next_to_path(l: &tera::verif::Listing) -> bool {
    let mut targets = std::collections::HashSet::new();
    for (i, _) in l {
        if matches!(i.op, "Jump" | "PopJumpIfFalse" | "JumpIfFalseOrPop" | "JumpIfTrueOrPop" | "Iterate") {
            targets.insert(i.num.unwrap());
        }
    }
    l.iter().enumerate().any(|(k, (i, _))| {
        matches!(i.op, "LoadName" | "LoadAttr" | "WriteTop") && (targets.contains(&k) || targets.contains(&(k + 1)))
    })
}

fn push_listing(sink: &mut Sink, label: &str, src: &str) -> bool {
    let Ok(ls) = chunk_listings("t", src, Delimiters::default()) else { return false };
    for cl in ls {
        let mut ids = Vec::new();
        let b = gal_listing(&cl.before, &mut ids);
        let a = gal_listing(&cl.after, &mut ids);
        let g = format!("{{| c_before := {b}; c_after := {a} |}}");
        let fused = cl.after.iter().filter(|(i, _)| matches!(i.op, "LoadPath" | "WritePath")).count();
        let desc = json!({"source_label": label, "source": src, "chunk": cl.id, "before_len": cl.before.len(),
            "after_len": cl.after.len(), "fused_groups": fused});
        let nontrivial = fused > 0 && has_jump_next_to_path(&cl.before);
        let tag = if fused == 0 { "nofusion" } else if nontrivial { "fusion+jump-adjacent" } else { "fusion" };
        sink.push(g, desc, nontrivial, None, &[tag]);
    }
    true
}

fn deep(leaf: Value) -> Value {
    // {x: {y: {z: leaf, x: [..]}, x: leaf}, y: leaf}
    let mut m3 = Map::new();
    m3.insert("z".into(), leaf.clone());
    m3.insert("x".into(), Value::from(vec![leaf.clone(), Value::from(2u64)]));
    let mut m2 = Map::new();
    m2.insert("y".into(), Value::from(m3));
    m2.insert("x".into(), leaf.clone());
    let mut m1 = Map::new();
    m1.insert("x".into(), Value::from(m2));
    m1.insert("y".into(), leaf);
    Value::from(m1)
}

fn big_map() -> Value {
    // a map past the attribute scan cutoff
    let mut m = Map::new();
    for k in ["x", "y", "z", "p", "q", "r", "s", "t"] {
        m.insert(k.to_string().into(), Value::from(k));
    }
    Value::from(m)
}

fn contexts() -> Vec<(String, Context)> {
    let leaves: Vec<(&str, Value)> = vec![
        ("int", Value::from(1u64)),
        ("str", Value::from("<s>")),
        ("safe", Value::safe_string("<b>")),
        ("none", Value::none()),
        ("undef-in-map", Value::undefined()),
        ("false", Value::from(false)),
        ("arr", Value::from(vec![deep(Value::from(1u64)), deep(Value::none())])),
        ("empty", Value::from(Vec::<Value>::new())),
    ];
    let mut out = Vec::new();
    for (name, leaf) in &leaves {
        let mut c = Context::new();
        c.insert_value("a", deep(leaf.clone()));
        c.insert_value("b", Value::from(vec![deep(leaf.clone()), leaf.clone()]));
        c.insert_value("c", leaf.clone());
        out.push((format!("abc={name}"), c));
    }
    let mut c = Context::new();
    c.insert_value("a", big_map());
    c.insert_value("b", deep(big_map()));
    out.push(("bigmap".into(), c));
    out.push(("empty".into(), Context::new()));
    out
}

fn render_both(src: &str, ctx: &Context, autoescape: bool) -> (Outcome<String>, Outcome<String>) {
    let tera = Tera::default();
    set_optimize(true);
    let on = guarded(|| tera.render_str(src, ctx, autoescape));
    set_optimize(false);
    let off = guarded(|| tera.render_str(src, ctx, autoescape));
    set_optimize(true);
    (on, off)
}

fn same(a: &Outcome<String>, b: &Outcome<String>) -> bool {
    match (a, b) {
        (Outcome::Ok(x), Outcome::Ok(y)) => x == y,
        (Outcome::Err(c1, _), Outcome::Err(c2, _)) => c1 == c2,
        (Outcome::Panic(_), Outcome::Panic(_)) => true,
        _ => false,
    }
}

/// D1 class: a path whose final value is an `Undefined` stored inside a map
fn kf_for(ctxname: &str) -> Option<&'static str> {
    if ctxname.contains("undef-in-map") { Some("writepath:undefined-stored-in-map") } else { None }
}

fn main() {
    let args = parse_args();
    silence_panics();
    let thorough = args.tier == "thorough";
    let mut rng = Rng::new(args.seed);
    let mut meta = Meta::default();
    let hdr = "From TeraV Require Import Model.Value Model.Instr Corr.CorrC09.";
    let mut opt = Sink::new(&args.out, "opt", hdr, "check_opt");

    // hand-written corpus first
    let hand = [
        "{{ false and user.name }}",
        "{{ a.x or b.y.z }}{{ c }}",
        "{{ a.x if b.y else c.z.x }}",
        "{% for i in a.x %}{{ i.y }}{% else %}{{ c.z }}{% endfor %}{{ a.y }}",
        "{% if a.x.y %}{{ a.x }}{% elif b.y %}{{ b.y.z }}{% else %}{{ c }}{% endif %}{{ c.x }}",
        "{{ [i.x for i in a.x if i.y.z] }}",
        "{{ __tera_context }}{{ __tera_context.a }}",
        "{% set m = {\"x\": nope} %}[{{ m.x }}]",
        "{{ a?.x.y }}{{ a.x?.y }}",
        "{{ (a.x if c else b.y)[0] }}{% if (c or a.x)[\"y\"] %}{{ (b or a.y) | default(value=c.x) }}{% endif %}",
        "{% for k, v in a %}{{ k }}{{ v.x }}{% if v.y %}{% break %}{% endif %}{% endfor %}",
    ];
    let mut sources: Vec<(String, String)> = hand.iter().enumerate().map(|(i, s)| (format!("hand#{i}"), s.to_string())).collect();
    sources.extend(corpus::corpus_templates());
    let n_gen = if thorough { 6000 } else { 700 };
    for k in 0..n_gen {
        let d = 1 + (k % 3) as u32;
        sources.push((format!("gen#{k}"), gen_tpl::template(&mut rng, d)));
    }

    let mut compiled = 0usize;
    let ctxs = contexts();
    let mut renders = 0usize;
    let mut render_nontrivial = 0usize;
    for (label, src) in &sources {
        if !push_listing(&mut opt, label, src) {
            continue;
        }
        compiled += 1;
        // render on/off (single templates only; multi-template sets are covered by the listing check)
        if src.contains("extends") || src.contains("{% block") || src.contains("include") {
            continue;
        }
        let budget = if label.starts_with("gen#") || label.starts_with("hand#") { ctxs.len() } else { 3 };
        for (cname, ctx) in ctxs.iter().take(budget) {
            for ae in [false, true] {
                let (on, off) = render_both(src, ctx, ae);
                renders += 1;
                meta.oracle_checks += 1;
                if matches!(on, Outcome::Ok(ref s) if !s.is_empty()) {
                    render_nontrivial += 1;
                }
                if !same(&on, &off) {
                    meta.oracle_fail(
                        "render differs with the fusion pass on vs off",
                        kf_for(cname),
                        json!({"source": src, "context": cname, "autoescape": ae,
                            "on": on.json(|s| json!(s)), "off": off.json(|s| json!(s))}),
                    );
                }
                if on.is_panic() || off.is_panic() {
                    meta.oracle_fail("panic while rendering", None, json!({"source": src, "context": cname}));
                }
            }
        }
    }
    meta.extra.insert("templates_compiled".into(), json!(compiled));
    meta.extra.insert("renders_on_off".into(), json!(renders));
    meta.extra.insert("oracle_only_evaluations".into(), json!(renders));
    meta.extra.insert("oracle_only_nontrivial".into(), json!(render_nontrivial.min(renders)));
    meta.families.push(opt.finish());
    meta.write(&args.out);
}
